package main

import (
	"fmt"
	"go/ast"
	"go/token"
	"go/types"
	"sort"
	"strings"
)

// flag <=> transform analysis, shared by the write side (finish: header compression bit <=> body replaced by the
// compressor's output) and the read side (readFrame: header compression bit <=> body replaced by the decoder's
// output). The state is the set of possible pairs (bit unknown/set/clear, transformed no/yes) along every path;
// branch conditions are expanded through local copies and one-line predicate methods; private helpers of the same
// package are analysed recursively (their error returns are propagated by the caller and ignored here).

type ftState struct{ pairs map[[2]int]bool }

type ftSpec struct {
	p *Program
	// isFlagsByte: e denotes the header flags byte whose bit 0x01 is tested
	isFlagsByte func(fn *FuncInfo, e ast.Expr) bool
	// clearsBit: statement rewrites the header flags byte with the bit cleared
	clearsBit func(fn *FuncInfo, as *ast.AssignStmt) (touches, clears bool)
	// transforms: the statement replaces the body by the codec's output
	transforms func(fn *FuncInfo, n ast.Node) bool
}

func ftUnion(a, b ftState) ftState {
	n := ftState{pairs: map[[2]int]bool{}}
	for k := range a.pairs {
		n.pairs[k] = true
	}
	for k := range b.pairs {
		n.pairs[k] = true
	}
	return n
}

func (sp *ftSpec) bitAtom(fn *FuncInfo, e ast.Expr) (setWhenTrue, ok bool) {
	info := fn.Pkg.TypesInfo
	e = ast.Unparen(e)
	// a predicate function over its arguments: hasFlag(flags, flagCompress) with `return flags&flag == flag`
	if c, isCall := e.(*ast.CallExpr); isCall && len(c.Args) > 0 {
		if f := calleeOf(info, c); f != nil {
			if h := sp.p.FuncOf(f); h != nil && h.Decl.Body != nil && len(h.Decl.Body.List) == 1 && h.Decl.Recv == nil {
				if rs, isR := h.Decl.Body.List[0].(*ast.ReturnStmt); isR && len(rs.Results) == 1 {
					hinfo := h.Pkg.TypesInfo
					params := map[types.Object]ast.Expr{}
					for i, a := range c.Args {
						if po := paramObj(hinfo, h.Decl.Type, i); po != nil {
							params[po] = a
						}
					}
					var subst func(x ast.Expr) ast.Expr
					subst = func(x ast.Expr) ast.Expr {
						switch y := x.(type) {
						case *ast.ParenExpr:
							return subst(y.X)
						case *ast.Ident:
							if a, isP := params[hinfo.Uses[y]]; isP {
								return a
							}
						case *ast.BinaryExpr:
							return &ast.BinaryExpr{X: subst(y.X), Op: y.Op, Y: subst(y.Y), OpPos: y.OpPos}
						case *ast.UnaryExpr:
							return &ast.UnaryExpr{Op: y.Op, X: subst(y.X), OpPos: y.OpPos}
						}
						return x
					}
					if _, isB := ast.Unparen(rs.Results[0]).(*ast.BinaryExpr); isB {
						if v, okV := sp.bitAtom(fn, subst(rs.Results[0])); okV {
							return v, true
						}
					}
				}
			}
		}
	}
	// one-line predicate method on the header: head.compressed()
	if c, isCall := e.(*ast.CallExpr); isCall && len(c.Args) == 0 {
		if f := calleeOf(info, c); f != nil {
			if h := sp.p.FuncOf(f); h != nil && h.Decl.Body != nil && len(h.Decl.Body.List) == 1 && h.Decl.Recv != nil {
				if rs, isR := h.Decl.Body.List[0].(*ast.ReturnStmt); isR && len(rs.Results) == 1 {
					if rcv := recvExpr(c); rcv != nil && len(h.Decl.Recv.List) == 1 && len(h.Decl.Recv.List[0].Names) == 1 {
						// the predicate tests <recv>.flags: accept when the receiver expression is a header whose flags
						// field is the byte we track (<recv>.flags)
						be, isB := ast.Unparen(rs.Results[0]).(*ast.BinaryExpr)
						if isB {
							if and, isA := ast.Unparen(be.X).(*ast.BinaryExpr); isA && and.Op == token.AND {
								if sel, isS := ast.Unparen(and.X).(*ast.SelectorExpr); isS && exprStr(sel.X) == h.Decl.Recv.List[0].Names[0].Name {
									synth := &ast.SelectorExpr{X: rcv, Sel: sel.Sel}
									if sp.isFlagsByte(fn, synth) {
										mask, okM := constInt(h.Pkg.TypesInfo, and.Y)
										rhs, okR := constInt(h.Pkg.TypesInfo, be.Y)
										if okM && okR && mask == 0x01 {
											switch {
											case be.Op == token.EQL && rhs == mask, be.Op == token.NEQ && rhs == 0:
												return true, true
											case be.Op == token.EQL && rhs == 0, be.Op == token.NEQ && rhs == mask:
												return false, true
											}
										}
									}
								}
							}
						}
					}
				}
			}
		}
	}
	b, isB := e.(*ast.BinaryExpr)
	if !isB || b.Op != token.EQL && b.Op != token.NEQ {
		return false, false
	}
	and, isA := ast.Unparen(b.X).(*ast.BinaryExpr)
	if !isA || and.Op != token.AND || !sp.isFlagsByte(fn, and.X) {
		return false, false
	}
	mask, okM := constInt(info, and.Y)
	rhs, okR := constInt(info, b.Y)
	if !okM || !okR || mask != 0x01 {
		return false, false
	}
	switch {
	case b.Op == token.EQL && rhs == mask, b.Op == token.NEQ && rhs == 0:
		return true, true
	case b.Op == token.EQL && rhs == 0, b.Op == token.NEQ && rhs == mask:
		return false, true
	}
	return false, false
}

func (sp *ftSpec) cond(fn *FuncInfo, s ftState, e ast.Expr, val bool) ftState {
	e = ast.Unparen(sp.p.expandExpr(fn, e, 0))
	for {
		pe, ok := e.(*ast.ParenExpr)
		if !ok {
			break
		}
		e = pe.X
	}
	if u, ok := e.(*ast.UnaryExpr); ok && u.Op == token.NOT {
		return sp.cond(fn, s, u.X, !val)
	}
	if b, ok := e.(*ast.BinaryExpr); ok {
		switch b.Op {
		case token.LAND:
			if val {
				return sp.cond(fn, sp.cond(fn, s, b.X, true), b.Y, true)
			}
			return ftUnion(sp.cond(fn, s, b.X, false), sp.cond(fn, sp.cond(fn, s, b.X, true), b.Y, false))
		case token.LOR:
			if !val {
				return sp.cond(fn, sp.cond(fn, s, b.X, false), b.Y, false)
			}
			return ftUnion(sp.cond(fn, s, b.X, true), sp.cond(fn, sp.cond(fn, s, b.X, false), b.Y, true))
		}
	}
	if setWhenTrue, ok := sp.bitAtom(fn, e); ok {
		want := 2
		if setWhenTrue == val {
			want = 1
		}
		n := ftState{pairs: map[[2]int]bool{}}
		for k := range s.pairs {
			if k[0] == 0 || k[0] == want {
				n.pairs[[2]int{want, k[1]}] = true
			}
		}
		return n
	}
	return s
}

// atSuccess returns the state at the success (nil error / no error result) returns of fn, started in init.
func (sp *ftSpec) analyse(fn *FuncInfo, init ftState, depth int) (atSuccess ftState, exits map[ast.Node]ftState) {
	g := sp.p.GraphOf(fn)
	info := g.Info
	sol := Solve(g, Lattice[ftState]{
		Init: init,
		Join: ftUnion,
		Eq: func(a, b ftState) bool {
			if len(a.pairs) != len(b.pairs) {
				return false
			}
			for k := range a.pairs {
				if !b.pairs[k] {
					return false
				}
			}
			return true
		},
		Step: func(s ftState, st Step) ftState {
			switch st.Kind {
			case StCond:
				return sp.cond(fn, s, st.Node.(ast.Expr), st.Val)
			case StNode:
				if as, ok := st.Node.(*ast.AssignStmt); ok {
					if touches, clears := sp.clearsBit(fn, as); touches {
						n := ftState{pairs: map[[2]int]bool{}}
						for k := range s.pairs {
							if clears {
								n.pairs[[2]int{2, k[1]}] = true
							} else {
								n.pairs[[2]int{0, k[1]}] = true
							}
						}
						s = n
					}
				}
				if sp.transforms(fn, st.Node) {
					n := ftState{pairs: map[[2]int]bool{}}
					for k := range s.pairs {
						n.pairs[[2]int{k[0], 1}] = true
					}
					return n
				}
				// private helpers of the same package
				if depth < 2 {
					if _, isGo := st.Node.(*ast.GoStmt); !isGo {
						for _, c := range callsIn(st.Node) {
							if f := calleeOf(info, c); f != nil {
								if h := sp.p.FuncOf(f); h != nil && h != fn && h.Decl.Body != nil && h.Pkg == fn.Pkg && !f.Exported() && sp.relevant(h) {
									res, _ := sp.analyse(h, s, depth+1)
									if len(res.pairs) > 0 {
										s = res
									}
								}
							}
						}
					}
				}
			}
			return s
		},
	})
	atSuccess = ftState{pairs: map[[2]int]bool{}}
	exits = map[ast.Node]ftState{}
	for _, e := range g.Exits() {
		if e.Kind == ExitPanic {
			continue
		}
		st, ok := sol.AtExit(e)
		if !ok {
			continue
		}
		rs, isR := e.Node.(*ast.ReturnStmt)
		if isR && len(rs.Results) > 0 {
			last := rs.Results[len(rs.Results)-1]
			if t := info.TypeOf(last); t != nil && implementsError(t) && !isNil(info, last) {
				// `return err` where err may be nil: treat as a success return only when the variable is the
				// callee's own error (helpers ending in `return err`)
				id, isId := ast.Unparen(last).(*ast.Ident)
				if !isId || depth == 0 {
					continue
				}
				// `return err` under a test that established err != nil is an error return
				if f, okF := g.GuardFacts().Before(rs); okF {
					if v, known := f.KnownStr(id.Name + " == nil"); known && !v {
						continue
					}
				}
			}
		}
		exits[e.Node] = st
		atSuccess = ftUnion(atSuccess, st)
	}
	return
}

// relevant: h mentions the codec or the flags byte (otherwise analysing it cannot change the state)
func (sp *ftSpec) relevant(h *FuncInfo) bool {
	rel := false
	ast.Inspect(h.Decl.Body, func(n ast.Node) bool {
		if sp.transforms(h, n) {
			rel = true
		}
		if as, ok := n.(*ast.AssignStmt); ok {
			if t, _ := sp.clearsBit(h, as); t {
				rel = true
			}
		}
		return true
	})
	return rel
}

func ftDescribe(st ftState, what string) []string {
	var bad []string
	for k := range st.pairs {
		if k[0] != 2 && k[1] == 0 {
			bad = append(bad, "header bit "+[]string{"possibly set", "set", "clear"}[k[0]]+" with the body not "+what)
		}
		if k[0] == 2 && k[1] == 1 {
			bad = append(bad, "header bit clear with the body "+what)
		}
	}
	sort.Strings(bad)
	return bad
}

// codecCallsIn: calls of the Compressor method `method` in fn and its private helpers, with the function they are in.
func codecCalls(p *Program, fn *FuncInfo, method string) (out []argSite) {
	for _, f := range append([]*FuncInfo{fn}, p.privateCallees(fn)...) {
		for _, c := range callsIn(f.Decl.Body) {
			if calleeName(f.Pkg.TypesInfo, c) == "Compressor."+method && len(c.Args) == 1 {
				out = append(out, argSite{Fn: f, Call: c, Expr: c.Args[0]})
			}
		}
	}
	return
}

// resultVarOf: the variable that receives result idx of call c (`x, err := c(...)` / `x, err = ...`).
func resultVarOf(p *Program, c *ast.CallExpr, idx int) string {
	if as, ok := p.Parent(c).(*ast.AssignStmt); ok && len(as.Rhs) == 1 && idx < len(as.Lhs) {
		return exprStr(as.Lhs[idx])
	}
	return ""
}

func c18r6(p *Program, r *Report) {
	fi := r.NeedFunc("(*framer).finish")
	if fi == nil {
		return
	}
	sp := &ftSpec{p: p}
	// the flags byte: element 1 of the framer's write buffer (whatever the receiver and the constant are called)
	isBufFlags := func(fn *FuncInfo, e ast.Expr) bool {
		x := ast.Unparen(p.expandExpr(fn, e, 0))
		for {
			pe, ok := x.(*ast.ParenExpr)
			if !ok {
				break
			}
			x = ast.Unparen(pe.X)
		}
		ix, ok := x.(*ast.IndexExpr)
		if !ok {
			return false
		}
		base := ast.Unparen(ix.X)
		for {
			pe, isP := base.(*ast.ParenExpr)
			if !isP {
				break
			}
			base = ast.Unparen(pe.X)
		}
		sel, isSel := base.(*ast.SelectorExpr)
		if !isSel || fn.Pkg.TypesInfo.Uses[sel.Sel] == nil || fn.Pkg.TypesInfo.Uses[sel.Sel] != types.Object(p.Field("framer", "buf")) {
			return false
		}
		k, isK := constInt(fn.Pkg.TypesInfo, ix.Index)
		return isK && k == 1
	}
	sp.isFlagsByte = isBufFlags
	sp.clearsBit = func(fn *FuncInfo, as *ast.AssignStmt) (bool, bool) {
		for _, l := range as.Lhs {
			if isBufFlags(fn, l) {
				return true, as.Tok == token.AND_NOT_ASSIGN
			}
		}
		return false, false
	}
	sp.transforms = func(fn *FuncInfo, n ast.Node) bool {
		as, ok := n.(*ast.AssignStmt)
		if !ok {
			return false
		}
		info := fn.Pkg.TypesInfo
		for i, l := range as.Lhs {
			if strings.ReplaceAll(exprStr(l), " ", "") != "f.buf" || i >= len(as.Rhs) {
				continue
			}
			c, ok := ast.Unparen(as.Rhs[i]).(*ast.CallExpr)
			if !ok || exprStr(c.Fun) != "append" || len(c.Args) != 2 || !c.Ellipsis.IsValid() {
				continue
			}
			if id, ok := ast.Unparen(c.Args[1]).(*ast.Ident); ok {
				if d := localDefMulti(info, fn, id); d != nil {
					if dc, ok := ast.Unparen(d).(*ast.CallExpr); ok && calleeName(info, dc) == "Compressor.Encode" {
						return true
					}
				}
			}
		}
		return false
	}
	init := ftState{pairs: map[[2]int]bool{{0, 0}: true}}
	_, exits := sp.analyse(fi, init, 0)
	n := 0
	for node, st := range exits {
		rs, ok := node.(*ast.ReturnStmt)
		if !ok || len(rs.Results) != 1 || !isNil(fi.Pkg.TypesInfo, rs.Results[0]) {
			continue
		}
		n++
		bad := ftDescribe(st, "compressed")
		r.Check(len(bad) == 0, rs, "(*framer).finish: header compression bit and body form agree at the success return", "compressed exactly when f.buf[1] has the bit",
			"a path reaches the success return with "+strings.Join(bad, " / ")+": the frame announces compression but carries a plain body (or the reverse), which the peer cannot decode")
	}
	if n == 0 {
		r.Unresolved("finish has no success return")
	}
}

// c18r2: what finish compresses, where the result goes and when the length is patched (finish and its helpers).
func c18r2(p *Program, r *Report) {
	fi := r.NeedFunc("(*framer).finish")
	if fi == nil {
		return
	}
	enc := codecCalls(p, fi, "Encode")
	if len(enc) == 0 {
		r.Bad(fi.Decl, "(*framer).finish compresses the body", "neither finish nor its helpers call the compressor")
		return
	}
	for _, site := range enc {
		got := p.canonText(site.Fn, site.Expr)
		r.Check(got == "f.buf[f.headSize:]", site.Call, site.Fn.Name+" compresses exactly the body", "Encode(f.buf[f.headSize:])", "the compressor is given "+got+" instead of the bytes after the header")
		// the result replaces the body right after the header
		res := resultVarOf(p, site.Call, 0)
		okRepl := false
		repl := ""
		ast.Inspect(site.Fn.Decl.Body, func(x ast.Node) bool {
			as, ok := x.(*ast.AssignStmt)
			if !ok || len(as.Lhs) != 1 || len(as.Rhs) != 1 || strings.ReplaceAll(exprStr(as.Lhs[0]), " ", "") != "f.buf" {
				return true
			}
			c, ok := ast.Unparen(as.Rhs[0]).(*ast.CallExpr)
			if !ok || exprStr(c.Fun) != "append" || len(c.Args) != 2 {
				return true
			}
			repl = p.canonText(site.Fn, as.Rhs[0])
			if p.canonText(site.Fn, c.Args[0]) == "f.buf[:f.headSize]" && exprStr(c.Args[1]) == res && c.Ellipsis.IsValid() {
				okRepl = true
			}
			return true
		})
		r.Check(okRepl, site.Call, site.Fn.Name+" replaces the body by the compressed bytes", "f.buf = append(f.buf[:f.headSize], compressed...)", "the compressed bytes do not replace the body right after the header: "+repl)
		// a compressor is known to be present
		f, _ := p.GraphOf(site.Fn).GuardFacts().Before(p.stmtOf(site.Call, site.Fn))
		if v, known := f.KnownStr("f.compres == nil"); known && !v {
			r.OK(site.Call, site.Fn.Name+" checks for a compressor before encoding", "f.compres != nil known")
		} else {
			r.Unresolved("%s: no check of f.compres before Encode in the function that calls it", site.Fn.Name)
		}
	}
	// the length is patched after the body has its final form, with the number of bytes after the header
	g := p.GraphOf(fi)
	info := g.Info
	lp := p.lengthPatch()
	mk := func(g2 *Graph) Classifier {
		i2 := g2.Info
		return func(st Step) []string {
			if st.Kind != StNode {
				return nil
			}
			var evs []string
			if lp.isSiteNode(p, i2, st.Node) {
				evs = append(evs, "setLength")
			}
			for _, c := range callsIn(st.Node) {
				switch calleeName(i2, c) {
				case "Compressor.Encode":
					evs = append(evs, "encode")
				}
			}
			return evs
		}
	}
	ef := g.Events(mk(g))
	for _, e := range g.Exits() {
		rs, ok := e.Node.(*ast.ReturnStmt)
		if !ok || len(rs.Results) != 1 || !isNil(info, rs.Results[0]) {
			continue
		}
		s, _ := ef.ExitState(e)
		r.Check(s.Must["setLength"] && s.Max["setLength"] == 1, rs, "(*framer).finish patches the length exactly once on success", "setLength called once", "finish returns success without patching the header length exactly once")
	}
	for _, site := range enc {
		must := p.MustBefore(mk, site.Fn, site.Call, 0)
		r.Check(!must["setLength"], site.Call, site.Fn.Name+" compresses before the length is patched", "no setLength before Encode", "the length is patched before the body is replaced by its compressed form")
	}
	nlen := 0
	for _, fn := range append([]*FuncInfo{fi}, p.privateCallees(fi)...) {
		for _, site := range lp.sites(p, fn) {
			nlen++
			got := p.canonText(fn, site.Arg)
			r.Check(got == "len(f.buf)-f.headSize", site.Node, fn.Name+" length = bytes after the header", "len(f.buf) - f.headSize", "the patched length is "+got+", not the number of bytes after the header")
		}
	}
	if nlen == 0 {
		r.Unresolved("finish: no setLength call")
	}
}

// c18r3: newFramer sets the flag iff a compressor is configured; readFrame decodes iff the received header has the bit.
func c18r3(p *Program, r *Report) {
	if nf := r.NeedFunc("newFramer"); nf != nil {
		info := nf.Pkg.TypesInfo
		g := p.GraphOf(nf)
		facts := g.GuardFacts()
		nset, okSet := 0, true
		ast.Inspect(nf.Decl.Body, func(x ast.Node) bool {
			as, isAs := x.(*ast.AssignStmt)
			if !isAs || as.Tok != token.OR_ASSIGN {
				return true
			}
			if v, isC := constInt(info, as.Rhs[0]); isC && v == 0x01 {
				nset++
				f, _ := facts.Before(as)
				if nv, known := f.KnownStr("compressor == nil"); !known || nv {
					okSet = false
				}
			}
			return true
		})
		r.Check(nset >= 1 && okSet, nf.Decl, "newFramer sets the compression flag iff a compressor is configured", "flags |= flagCompress only where compressor != nil is known", "the framer's compression flag is not set exactly when a compressor is configured")
	}
	rf := r.NeedFunc("(*framer).readFrame")
	if rf == nil {
		return
	}
	headParam := ""
	if rf.Decl.Type.Params != nil {
		for _, f := range rf.Decl.Type.Params.List {
			if typeNameOf(rf.Pkg.TypesInfo.TypeOf(f.Type)) == "frameHeader" && len(f.Names) > 0 {
				headParam = f.Names[0].Name
			}
		}
	}
	dec := codecCalls(p, rf, "Decode")
	if len(dec) == 0 {
		r.Bad(rf.Decl, "(*framer).readFrame decompresses flagged frames", "neither readFrame nor its helpers call Decode")
		return
	}
	sp := &ftSpec{p: p}
	sp.isFlagsByte = func(fn *FuncInfo, e ast.Expr) bool {
		t := p.canonText(fn, e)
		return fn == rf && (t == headParam+".flags" || t == "(*"+headParam+").flags") || strings.HasSuffix(t, "head.flags") || t == "f.header.flags"
	}
	sp.clearsBit = func(fn *FuncInfo, as *ast.AssignStmt) (bool, bool) { return false, false }
	sp.transforms = func(fn *FuncInfo, n ast.Node) bool {
		as, ok := n.(*ast.AssignStmt)
		if !ok || len(as.Rhs) != 1 {
			return false
		}
		if len(as.Lhs) < 1 || !p.isField(fn.Pkg.TypesInfo, as.Lhs[0], "framer", "buf") {
			return false
		}
		// f.buf, err = Decode(..), or f.buf = plain with plain, err := Decode(..)
		rhs := ast.Unparen(as.Rhs[0])
		if id, isId := rhs.(*ast.Ident); isId {
			if d := localDefMulti(fn.Pkg.TypesInfo, fn, id); d != nil {
				rhs = ast.Unparen(d)
			}
		}
		c, ok := rhs.(*ast.CallExpr)
		return ok && calleeName(fn.Pkg.TypesInfo, c) == "Compressor.Decode"
	}
	_, exits := sp.analyse(rf, ftState{pairs: map[[2]int]bool{{0, 0}: true}}, 0)
	n := 0
	for node, st := range exits {
		rs, ok := node.(*ast.ReturnStmt)
		if !ok || len(rs.Results) != 1 || !isNil(rf.Pkg.TypesInfo, rs.Results[0]) {
			continue
		}
		n++
		bad := ftDescribe(st, "decompressed")
		r.Check(len(bad) == 0, rs, "(*framer).readFrame decompresses exactly the frames whose header has the compression bit", "decoded iff head.flags has the bit",
			"a path reaches the success return with "+strings.Join(bad, " / ")+": a compressed body is parsed as it is, or a plain body is fed to the decompressor")
	}
	if n == 0 {
		r.Unresolved("readFrame has no success return")
	}
	for _, site := range dec {
		got := p.canonText(site.Fn, site.Expr)
		r.Check(got == "f.buf", site.Call, site.Fn.Name+" decompresses the whole body", "Decode(f.buf)", "the decompressor is given "+got+" instead of the frame body")
		g := p.GraphOf(site.Fn)
		f, _ := g.GuardFacts().Before(p.stmtOf(site.Call, site.Fn))
		nilV, nilK := f.KnownStr("f.compres == nil")
		r.Check(nilK && !nilV, site.Call, site.Fn.Name+" checks for a compressor before decoding", "f.compres != nil known", "a compressed frame is decoded without checking that a compressor is configured: nil dereference instead of an error")
		// the nil-compressor branch is an error
		// every return reached with the compressor known to be missing reports an error (and there is one)
		okNil, nNil := true, 0
		gfacts := g.GuardFacts()
		inspectNoLit(site.Fn.Decl.Body, func(x ast.Node) bool {
			rs, ok := x.(*ast.ReturnStmt)
			if !ok || len(rs.Results) == 0 {
				return true
			}
			fb, reach := gfacts.Before(rs)
			if !reach {
				return true
			}
			if v, known := fb.KnownStr("f.compres == nil"); known && v {
				nNil++
				if isNil(site.Fn.Pkg.TypesInfo, rs.Results[len(rs.Results)-1]) {
					okNil = false
				}
			}
			return true
		})
		okNil = okNil && nNil > 0
		r.Check(okNil, site.Call, site.Fn.Name+": compressed frame without compressor is an error", "returns an error", "a compressed response on a connection without compressor is not an error")
		// the decoder's error is returned: the error variable is returned itself, or tested and a non-nil error returned
		errVar := resultVarOf(p, site.Call, 1)
		okErr := false
		if errVar != "" {
			info := site.Fn.Pkg.TypesInfo
			facts := g.GuardFacts()
			okErr = true
			for _, e := range g.Exits() {
				rs, ok := e.Node.(*ast.ReturnStmt)
				if !ok || len(rs.Results) == 0 || rs.Pos() < site.Call.Pos() {
					continue
				}
				last := rs.Results[len(rs.Results)-1]
				if exprStr(last) == errVar {
					continue
				}
				if isNil(info, last) {
					fb, _ := facts.Before(rs)
					if v, known := fb.KnownStr(errVar + " == nil"); !known || !v {
						// the variable may live in the branch that decodes only: on every path that went through the
						// Decode call it is known to be nil at this return
						g.markNodes = map[ast.Node]string{p.stmtOf(site.Call, site.Fn): "decoded"}
						ps := g.GuardFactsPSAbout(func(atom string) bool { return strings.HasPrefix(atom, "§") || mentions(atom, errVar) })
						ds, has := ps.Before(rs)
						g.markNodes = nil
						okPS := has && len(ds) > 0
						for _, d := range ds {
							if !d.m["§decoded"] {
								continue
							}
							if v2, k2 := d.KnownStr(errVar + " == nil"); !k2 || !v2 {
								okPS = false
							}
						}
						if !okPS {
							okErr = false
						}
					}
				}
			}
		}
		r.Check(okErr, site.Call, site.Fn.Name+" propagates a decompression error", "Decode's error returned", "a corrupt compressed body is not reported as an error")
	}
	_ = fmt.Sprint
	_ = types.Typ
}

// lenPatch describes where the frame length is stored into the header: the function holding the four byte stores
// `x.buf[i] = byte(V >> 24)` .., and V. When V is a parameter of that function (setLength(length)), the patch
// sites are the calls of it and the value is the argument; otherwise (stores written out in finish) the site is the
// store of the most significant byte and the value is V itself.
type lenPatch struct {
	Fn     *FuncInfo
	V      *types.Var
	Store  ast.Stmt
	VIdent *ast.Ident // the use of V in the store
	Callee bool       // V is a parameter: sites are calls to Fn
}

type lenSite struct {
	Node ast.Node // the call, or the first store
	Arg  ast.Expr // the length expression at the site
}

func (p *Program) lengthPatch() *lenPatch {
	var out *lenPatch
	bufField := p.Field("framer", "buf")
	for _, fi := range p.SortedFuncs() {
		if fi.Decl.Body == nil || fi.Pkg != p.Root || out != nil {
			continue
		}
		info := fi.Pkg.TypesInfo
		ast.Inspect(fi.Decl.Body, func(x ast.Node) bool {
			// the same four bytes written with encoding/binary: PutUint32(x.buf[pos:], uint32(V))
			if es, isES := x.(*ast.ExprStmt); isES && out == nil {
				if c, isC := es.X.(*ast.CallExpr); isC && len(c.Args) == 2 && strings.HasSuffix(calleeName(info, c), "ndian).PutUint32") {
					dst := ast.Unparen(c.Args[0])
					if sl, isSl := dst.(*ast.SliceExpr); isSl {
						dst = ast.Unparen(sl.X)
					}
					if fv := fieldOf(info, dst); fv != nil && fv == bufField {
						if id, isId := ast.Unparen(stripAllConv(info, c.Args[1])).(*ast.Ident); isId {
							if v, _ := info.Uses[id].(*types.Var); v != nil {
								lp := &lenPatch{Fn: fi, V: v, Store: es, VIdent: id}
								if fi.Obj != nil {
									sig := fi.Obj.Type().(*types.Signature)
									for i := 0; i < sig.Params().Len(); i++ {
										if sig.Params().At(i) == v {
											lp.Callee = true
										}
									}
								}
								out = lp
							}
						}
					}
				}
				return true
			}
			as, ok := x.(*ast.AssignStmt)
			if !ok || out != nil || len(as.Lhs) != 1 || len(as.Rhs) != 1 || as.Tok != token.ASSIGN {
				return true
			}
			ix, ok := ast.Unparen(as.Lhs[0]).(*ast.IndexExpr)
			if !ok || fieldOf(info, ix.X) == nil || fieldOf(info, ix.X) != bufField {
				return true
			}
			sh, ok := stripAllConv(info, as.Rhs[0]).(*ast.BinaryExpr)
			if !ok || sh.Op != token.SHR {
				return true
			}
			if k, isK := constInt(info, sh.Y); !isK || k != 24 {
				return true
			}
			id, ok := ast.Unparen(sh.X).(*ast.Ident)
			if !ok {
				return true
			}
			v, _ := info.Uses[id].(*types.Var)
			if v == nil {
				return true
			}
			lp := &lenPatch{Fn: fi, V: v, Store: as, VIdent: id}
			if fi.Obj != nil {
				sig := fi.Obj.Type().(*types.Signature)
				for i := 0; i < sig.Params().Len(); i++ {
					if sig.Params().At(i) == v {
						lp.Callee = true
					}
				}
			}
			out = lp
			return true
		})
	}
	return out
}

// sites: the places in fn where the length is patched.
func (lp *lenPatch) sites(p *Program, fn *FuncInfo) []lenSite {
	var out []lenSite
	if lp == nil {
		return nil
	}
	if lp.Callee {
		for _, c := range callsIn(fn.Decl.Body) {
			if f := calleeOf(fn.Pkg.TypesInfo, c); f != nil && p.FuncOf(f) == lp.Fn && len(c.Args) == 1 {
				out = append(out, lenSite{c, c.Args[0]})
			}
		}
		return out
	}
	if fn == lp.Fn {
		out = append(out, lenSite{lp.Store, lp.VIdent})
	}
	return out
}

func (lp *lenPatch) isSiteNode(p *Program, info *types.Info, n ast.Node) bool {
	if lp == nil {
		return false
	}
	if lp.Callee {
		for _, c := range callsIn(n) {
			if f := calleeOf(info, c); f != nil && p.FuncOf(f) == lp.Fn {
				return true
			}
		}
		return false
	}
	return n == ast.Node(lp.Store)
}

// finishLength: the length patched into the header is the number of body bytes of the buffer as it is when the
// length is written: `len(f.buf) - f.headSize` evaluated at the call, or a local that was computed that way after
// the last replacement of f.buf (a value computed before the body is compressed announces the uncompressed size).
func finishLength(p *Program, r *Report) {
	fi := r.NeedFunc("(*framer).finish")
	if fi == nil {
		return
	}
	bufField := p.Field("framer", "buf")
	units := append([]*FuncInfo{fi}, p.privateCallees(fi)...)
	assignsBuf := func(fn *FuncInfo, n ast.Node) bool {
		info := fn.Pkg.TypesInfo
		for _, l := range assignedLHS(n) {
			if fv := fieldOf(info, l); fv != nil && fv == bufField {
				return true
			}
		}
		return false
	}
	// helpers that replace the buffer
	replaces := map[*FuncInfo]bool{}
	for _, u := range units {
		ast.Inspect(u.Decl.Body, func(x ast.Node) bool {
			if assignsBuf(u, x) {
				replaces[u] = true
			}
			return true
		})
	}
	n := 0
	lp := p.lengthPatch()
	for _, fn := range units {
		info := fn.Pkg.TypesInfo
		for _, site := range lp.sites(p, fn) {
			c := site.Node
			n++
			name := fn.Name + ": the patched length counts the bytes that follow the header when it is written"
			id, isId := ast.Unparen(site.Arg).(*ast.Ident)
			if !isId {
				got := p.canonText(fn, site.Arg)
				r.Check(got == "len(f.buf)-f.headSize", c, name, "len(f.buf) - f.headSize evaluated at the call", "the patched length is "+got+", not the number of bytes after the header")
				continue
			}
			obj := info.Uses[id]
			var def *ast.AssignStmt
			ndef := 0
			ast.Inspect(fn.Decl.Body, func(x ast.Node) bool {
				if as, ok := x.(*ast.AssignStmt); ok {
					for _, l := range as.Lhs {
						if lid, ok := l.(*ast.Ident); ok && (info.Defs[lid] == obj || info.Uses[lid] == obj) {
							def = as
							ndef++
						}
					}
				}
				return true
			})
			if def == nil || ndef != 1 || len(def.Lhs) != 1 || len(def.Rhs) != 1 {
				r.Unresolved("%s: the length handed to setLength is not a local with a single definition", fn.Name)
				continue
			}
			got := p.canonText(fn, def.Rhs[0])
			if got != "len(f.buf)-f.headSize" {
				r.Bad(c, name, "the patched length is "+got+", not the number of bytes after the header")
				continue
			}
			g := p.GraphOf(fn)
			// 0: not computed, 1: computed from the current buffer, 2: the buffer was replaced since
			sol := Solve(g, Lattice[int]{
				Join: func(a, b int) int {
					if a > b {
						return a
					}
					return b
				},
				Eq: func(a, b int) bool { return a == b },
				Step: func(s int, st Step) int {
					if st.Kind != StNode {
						return s
					}
					if st.Node == ast.Node(def) {
						return 1
					}
					repl := assignsBuf(fn, st.Node)
					for _, hc := range callsIn(st.Node) {
						if hf := calleeOf(info, hc); hf != nil && replaces[p.FuncOf(hf)] {
							repl = true
						}
					}
					if repl && s == 1 {
						return 2
					}
					return s
				},
			})
			st, ok := sol.Before(p.stmtOf(c, fn))
			r.Check(ok && st == 1, c, name, id.Name+" = len(f.buf) - f.headSize, computed after the last replacement of f.buf",
				"the length written into the header ("+id.Name+", computed at "+p.Pos(def)+") is taken before f.buf is replaced by its compressed form on a path to the patch: a compressed frame announces the size of the uncompressed body, so the peer waits for bytes that never come or reads the next frame's header as body")
		}
	}
	if n == 0 {
		r.Unresolved("finish: no setLength call")
	}
}
