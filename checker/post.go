package main

import (
	"go/ast"
	"go/token"
	"go/types"
	"sort"
	"strings"
)

// Callee postconditions for the guard-facts analysis.
//
// A private helper that validates a field of an object it receives by pointer (reads a count, panics when it is
// negative) establishes a fact its callers rely on. calleePost returns the relational atoms that hold at every
// normal return of the callee and mention only objects reachable from its pointer parameters / receiver and
// constants; applyCalleePost instantiates them at a call site with the actual arguments.

type postAtom struct {
	Op   token.Token
	X, Y ast.Expr
	Val  bool
}

type postKey struct {
	fn   *FuncInfo
	mode string
}

type postInfo struct {
	atoms  []postAtom
	params map[types.Object]int // pointer parameter -> index (-1: receiver)
}

func (p *Program) calleePost(callee *FuncInfo) *postInfo { return p.calleePostMode(callee, "") }

// calleePostMode: mode "" = facts at every normal return about objects reachable from pointer parameters;
// mode "true"/"false" = facts at the returns of a boolean function that yield that constant, about any
// parameter the callee does not re-bind (the value it had at the call).
func (p *Program) calleePostMode(callee *FuncInfo, mode string) *postInfo {
	if p.postCache == nil {
		p.postCache = map[postKey]*postInfo{}
		p.postBusy = map[*FuncInfo]bool{}
	}
	if pi, ok := p.postCache[postKey{callee, mode}]; ok {
		return pi
	}
	if p.postBusy[callee] || callee.Decl.Body == nil || callee.Obj == nil {
		return nil
	}
	p.postBusy[callee] = true
	defer delete(p.postBusy, callee)
	pi := &postInfo{params: map[types.Object]int{}}
	p.postCache[postKey{callee, mode}] = pi
	sig := callee.Obj.Type().(*types.Signature)
	isPtr := func(v *types.Var) bool {
		_, ok := v.Type().Underlying().(*types.Pointer)
		return ok
	}
	if mode != "" {
		nres := sig.Results().Len()
		if nres < 1 {
			return pi
		}
		if b, ok := sig.Results().At(nres - 1).Type().Underlying().(*types.Basic); !ok || b.Kind() != types.Bool {
			return pi
		}
		for obj, idx := range p.stableParams(callee) {
			pi.params[obj] = idx
		}
		// named results stand for the values the caller receives (index 1000+i)
		for i := 0; i < nres-1; i++ {
			if rv := sig.Results().At(i); rv.Name() != "" && rv.Name() != "_" {
				pi.params[rv] = 1000 + i
			}
		}
	} else {
		if rv := sig.Recv(); rv != nil && isPtr(rv) {
			pi.params[rv] = -1
		}
		for i := 0; i < sig.Params().Len(); i++ {
			if v := sig.Params().At(i); isPtr(v) {
				pi.params[v] = i
			}
		}
	}
	if len(pi.params) == 0 {
		return pi
	}
	info := callee.Pkg.TypesInfo
	// parameters that the callee re-binds cannot be related to the caller's argument any more
	ast.Inspect(callee.Decl.Body, func(n ast.Node) bool {
		if as, ok := n.(*ast.AssignStmt); ok {
			for _, l := range as.Lhs {
				if id, ok := l.(*ast.Ident); ok {
					if idx, tracked := pi.params[info.Uses[id]]; tracked && idx < 1000 {
						delete(pi.params, info.Uses[id])
					}
				}
			}
		}
		return true
	})
	g := p.GraphOf(callee)
	facts := g.GuardFacts()
	first := true
	var common map[string]postAtom
	for _, e := range g.Exits() {
		if e.Kind == ExitPanic {
			continue
		}
		var assumeExpr ast.Expr
		if mode != "" {
			rs, isR := e.Node.(*ast.ReturnStmt)
			nres := sig.Results().Len()
			if !isR || (len(rs.Results) != nres && len(rs.Results) != 0) {
				pi.atoms = nil
				return pi
			}
			var last ast.Expr
			if len(rs.Results) == 0 {
				if sig.Results().At(nres-1).Name() == "" {
					pi.atoms = nil
					return pi
				}
				last = ast.NewIdent(sig.Results().At(nres - 1).Name())
			} else {
				last = rs.Results[nres-1]
				// the other results must be the named results themselves for the mapping to the caller to hold
				for i := 0; i < nres-1; i++ {
					rv := sig.Results().At(i)
					if _, tracked := pi.params[rv]; tracked {
						if id, isId := ast.Unparen(rs.Results[i]).(*ast.Ident); !isId || info.Uses[id] != types.Object(rv) {
							if tv, has := info.Types[rs.Results[i]]; !(has && tv.Value != nil) {
								delete(pi.params, rv)
							} else {
								// a constant is returned instead of the named result on this path: only sound when
								// this return is not of the requested mode; checked below by dropping the mapping
								// when the path is kept
								defer func(rv *types.Var) {}(rv)
							}
						}
					}
				}
			}
			if tv, has := info.Types[last]; has && tv.Value != nil {
				if tv.Value.String() != mode {
					continue
				}
				// a kept path that returns constants in place of named results: those results carry no facts
				if len(rs.Results) == nres {
					for i := 0; i < nres-1; i++ {
						rv := sig.Results().At(i)
						if id, isId := ast.Unparen(rs.Results[i]).(*ast.Ident); !isId || info.Uses[id] != types.Object(rv) {
							delete(pi.params, rv)
						}
					}
				}
			} else {
				assumeExpr = last
			}
		}
		f, ok := facts.AtExit(e)
		if !ok || f.dead {
			continue
		}
		if assumeExpr != nil {
			f = f.clone()
			f.assume(assumeExpr, mode == "true")
			if f.dead {
				continue
			}
		}
		cur := map[string]postAtom{}
		for atom, ra := range f.rel {
			v, known := f.m[atom]
			if !known {
				continue
			}
			if !p.onlyParams(info, ra.X, pi.params) || !p.onlyParams(info, ra.Y, pi.params) {
				continue
			}
			if !mentionsParam(info, ra.X, pi.params) && !mentionsParam(info, ra.Y, pi.params) {
				continue
			}
			cur[atom] = postAtom{ra.Op, ra.X, ra.Y, v}
		}
		for atom, be := range f.bexp {
			v, known := f.m[atom]
			if !known || !p.onlyParams(info, be, pi.params) || !mentionsParam(info, be, pi.params) {
				continue
			}
			cur[atom] = postAtom{token.ILLEGAL, be, nil, v}
		}
		if first {
			common, first = cur, false
			continue
		}
		for k, a := range common {
			if b, ok := cur[k]; !ok || b.Val != a.Val {
				delete(common, k)
			}
		}
	}
	for _, a := range common {
		if !p.onlyParams(info, a.X, pi.params) || a.Y != nil && !p.onlyParams(info, a.Y, pi.params) {
			continue
		}
		pi.atoms = append(pi.atoms, a)
	}
	return pi
}

func mentionsParam(info *types.Info, e ast.Expr, params map[types.Object]int) bool {
	if e == nil {
		return false
	}
	found := false
	ast.Inspect(e, func(n ast.Node) bool {
		if id, ok := n.(*ast.Ident); ok {
			if _, isP := params[info.Uses[id]]; isP && info.Uses[id] != nil {
				found = true
			}
		}
		return true
	})
	return found
}

// onlyParams: every variable mentioned by e is a tracked pointer parameter (fields, constants, len/cap allowed).
func (p *Program) onlyParams(info *types.Info, e ast.Expr, params map[types.Object]int) bool {
	ok := true
	ast.Inspect(e, func(n ast.Node) bool {
		switch x := n.(type) {
		case *ast.SelectorExpr:
			// a qualified package-level name (context.Canceled)
			if id, isId := x.X.(*ast.Ident); isId {
				if _, isPkg := info.Uses[id].(*types.PkgName); isPkg {
					return false
				}
			}
			// the field name itself is not a variable use
			if !p.onlyParams(info, x.X, params) {
				ok = false
			}
			return false
		case *ast.Ident:
			obj := info.Uses[x]
			switch o := obj.(type) {
			case *types.Var:
				if _, isP := params[o]; !isP && !(o.Parent() != nil && o.Pkg() != nil && o.Parent() == o.Pkg().Scope()) {
					ok = false
				}
			case *types.Const, *types.Builtin, *types.Nil, *types.TypeName:
			case nil:
				if x.Name != "len" && x.Name != "cap" {
					ok = false
				}
			default:
				ok = false
			}
		case *ast.CallExpr:
			if fn := exprStr(x.Fun); fn != "len" && fn != "cap" {
				if tv, isT := info.Types[x.Fun]; !isT || !tv.IsType() {
					ok = false
				}
			}
		case *ast.FuncLit, *ast.IndexExpr, *ast.StarExpr:
			ok = false
		}
		return ok
	})
	return ok
}

func substParamsExpr(info *types.Info, e ast.Expr, sub map[types.Object]ast.Expr) ast.Expr {
	if e == nil {
		return nil
	}
	switch x := e.(type) {
	case *ast.Ident:
		if r, ok := sub[info.Uses[x]]; ok && info.Uses[x] != nil {
			return r
		}
		return x
	case *ast.ParenExpr:
		return &ast.ParenExpr{X: substParamsExpr(info, x.X, sub)}
	case *ast.SelectorExpr:
		return &ast.SelectorExpr{X: substParamsExpr(info, x.X, sub), Sel: x.Sel}
	case *ast.BinaryExpr:
		return &ast.BinaryExpr{X: substParamsExpr(info, x.X, sub), Op: x.Op, Y: substParamsExpr(info, x.Y, sub)}
	case *ast.UnaryExpr:
		return &ast.UnaryExpr{Op: x.Op, X: substParamsExpr(info, x.X, sub)}
	case *ast.CallExpr:
		args := make([]ast.Expr, len(x.Args))
		for i, a := range x.Args {
			args[i] = substParamsExpr(info, a, sub)
		}
		return &ast.CallExpr{Fun: x.Fun, Args: args}
	}
	return e
}

// applyCalleePost adds to n the postconditions of the root-package functions called by statement st.
func (p *Program) applyCalleePost(info *types.Info, n *Facts, st ast.Node) {
	switch st.(type) {
	case *ast.ExprStmt, *ast.AssignStmt:
	default:
		return
	}
	for _, c := range callsIn(st) {
		fn := calleeOf(info, c)
		if fn == nil {
			continue
		}
		callee := p.FuncOf(fn)
		if callee == nil || callee.Pkg != p.Root {
			continue
		}
		pi := p.calleePost(callee)
		if pi == nil || len(pi.atoms) == 0 {
			continue
		}
		sub := map[types.Object]ast.Expr{}
		for obj, idx := range pi.params {
			var arg ast.Expr
			if idx < 0 {
				arg = recvExpr(c)
			} else if idx < len(c.Args) {
				arg = c.Args[idx]
			}
			if arg == nil {
				continue
			}
			arg = ast.Unparen(arg)
			if u, ok := arg.(*ast.UnaryExpr); ok && u.Op == token.AND {
				arg = ast.Unparen(u.X)
			}
			switch arg.(type) {
			case *ast.Ident, *ast.SelectorExpr:
				sub[obj] = arg
			}
		}
		for _, a := range pi.atoms {
			complete := true
			for obj := range pi.params {
				if _, has := sub[obj]; !has && (mentionsParam(info, a.X, map[types.Object]int{obj: 0}) || mentionsParam(info, a.Y, map[types.Object]int{obj: 0})) {
					complete = false
				}
			}
			if !complete {
				continue
			}
			if a.Op == token.ILLEGAL {
				n.assume(substParamsExpr(info, a.X, sub), a.Val)
			} else {
				n.setRel(a.Op, substParamsExpr(info, a.X, sub), substParamsExpr(info, a.Y, sub), a.Val)
			}
		}
	}
}

// ---------------------------------------------------------------------------
// Result-length postconditions:  r := f.helper(n)  with helper returning x[:n] (or x[k:n]) gives len(r) == n-k.

type resLen struct {
	resultIdx int
	hi        ast.Expr // in terms of the callee's parameters
	lo        int
}

// valueParams: every parameter and the receiver of callee that the body never re-binds.
func (p *Program) stableParams(callee *FuncInfo) map[types.Object]int {
	out := map[types.Object]int{}
	if callee.Obj == nil || callee.Decl.Body == nil {
		return out
	}
	sig := callee.Obj.Type().(*types.Signature)
	if rv := sig.Recv(); rv != nil {
		out[rv] = -1
	}
	for i := 0; i < sig.Params().Len(); i++ {
		out[sig.Params().At(i)] = i
	}
	info := callee.Pkg.TypesInfo
	ast.Inspect(callee.Decl.Body, func(n ast.Node) bool {
		switch s := n.(type) {
		case *ast.AssignStmt:
			for _, l := range s.Lhs {
				if id, ok := l.(*ast.Ident); ok {
					delete(out, info.Uses[id])
				}
			}
		case *ast.IncDecStmt:
			if id, ok := s.X.(*ast.Ident); ok {
				delete(out, info.Uses[id])
			}
		case *ast.UnaryExpr:
			if s.Op == token.AND {
				if id, ok := ast.Unparen(s.X).(*ast.Ident); ok {
					delete(out, info.Uses[id])
				}
			}
		}
		return true
	})
	return out
}

func (p *Program) resultLens(callee *FuncInfo) []resLen {
	if p.resLenCache == nil {
		p.resLenCache = map[*FuncInfo][]resLen{}
	}
	if v, ok := p.resLenCache[callee]; ok {
		return v
	}
	p.resLenCache[callee] = nil
	if callee.Decl.Body == nil || callee.Obj == nil {
		return nil
	}
	sig := callee.Obj.Type().(*types.Signature)
	info := callee.Pkg.TypesInfo
	params := p.stableParams(callee)
	// only plain int-like value parameters can stand for a length
	var out []resLen
	for ri := 0; ri < sig.Results().Len(); ri++ {
		if _, isSl := sig.Results().At(ri).Type().Underlying().(*types.Slice); !isSl {
			continue
		}
		var hi ast.Expr
		lo, okAll, n := 0, true, 0
		ast.Inspect(callee.Decl.Body, func(x ast.Node) bool {
			if _, isLit := x.(*ast.FuncLit); isLit {
				return false
			}
			rs, ok := x.(*ast.ReturnStmt)
			if !ok {
				return true
			}
			if len(rs.Results) != sig.Results().Len() {
				okAll = false
				return true
			}
			e := ast.Unparen(rs.Results[ri])
			if isNil(info, e) {
				return true // error returns carry no slice
			}
			n++
			if id, isId := e.(*ast.Ident); isId {
				if singleAssigned(info, callee.Decl.Body, info.Uses[id]) {
					if d := localDef(info, callee, id); d != nil {
						e = ast.Unparen(d)
					}
				}
			}
			sl, isSl := e.(*ast.SliceExpr)
			if !isSl || sl.High == nil || sl.Slice3 {
				okAll = false
				return true
			}
			l := 0
			if sl.Low != nil {
				k, isK := constInt(info, sl.Low)
				if !isK || k < 0 {
					okAll = false
					return true
				}
				l = int(k)
			}
			if !p.onlyParams(info, sl.High, params) {
				okAll = false
				return true
			}
			if hi == nil {
				hi, lo = sl.High, l
			} else if exprStr(hi) != exprStr(sl.High) || lo != l {
				okAll = false
			}
			return true
		})
		if okAll && n > 0 && hi != nil {
			out = append(out, resLen{ri, hi, lo})
		}
	}
	p.resLenCache[callee] = out
	return out
}

// callSubst maps the callee's stable parameters to the actual arguments of call c.
func (p *Program) callSubst(callee *FuncInfo, c *ast.CallExpr) map[types.Object]ast.Expr {
	sub := map[types.Object]ast.Expr{}
	for obj, idx := range p.stableParams(callee) {
		var arg ast.Expr
		if idx < 0 {
			arg = recvExpr(c)
		} else if idx < len(c.Args) {
			arg = c.Args[idx]
		}
		if arg == nil {
			continue
		}
		arg = ast.Unparen(arg)
		if u, ok := arg.(*ast.UnaryExpr); ok && u.Op == token.AND {
			arg = ast.Unparen(u.X)
		}
		sub[obj] = arg
	}
	return sub
}

// resultLenOf: the length of result idx of call c as an expression of the caller (nil when unknown).
func (p *Program) resultLenOf(info *types.Info, c *ast.CallExpr, idx int) (ast.Expr, int, bool) {
	fn := calleeOf(info, c)
	if fn == nil {
		return nil, 0, false
	}
	callee := p.FuncOf(fn)
	if callee == nil || callee.Pkg != p.Root {
		return nil, 0, false
	}
	for _, rl := range p.resultLens(callee) {
		if rl.resultIdx == idx {
			return substParamsExpr(info, rl.hi, p.callSubst(callee, c)), rl.lo, true
		}
	}
	return nil, 0, false
}

// ---------------------------------------------------------------------------
// Index-search results: a helper whose int result is, on every return, either a negative constant or the index
// variable of a loop over one of its slice parameters satisfies  minConst <= result < len(param).

type resRange struct {
	resultIdx int
	lo        int64
	paramIdx  int // result < len(arg paramIdx); -1: no upper bound known
}

func (p *Program) resultRange(callee *FuncInfo) *resRange {
	if p.resRangeCache == nil {
		p.resRangeCache = map[*FuncInfo]*resRange{}
	}
	if v, ok := p.resRangeCache[callee]; ok {
		return v
	}
	p.resRangeCache[callee] = nil
	if callee.Decl.Body == nil || callee.Obj == nil {
		return nil
	}
	sig := callee.Obj.Type().(*types.Signature)
	if sig.Results().Len() != 1 {
		return nil
	}
	if b, ok := sig.Results().At(0).Type().Underlying().(*types.Basic); !ok || b.Info()&types.IsInteger == 0 {
		return nil
	}
	info := callee.Pkg.TypesInfo
	params := p.stableParams(callee)
	rr := &resRange{lo: 0, paramIdx: -2}
	ok := true
	n := 0
	inspectNoLit(callee.Decl.Body, func(x ast.Node) bool {
		rs, isR := x.(*ast.ReturnStmt)
		if !isR || !ok {
			return true
		}
		n++
		if len(rs.Results) != 1 {
			ok = false
			return true
		}
		e := ast.Unparen(rs.Results[0])
		if k, isK := constInt(info, e); isK {
			if k >= 0 {
				ok = false
			} else if k < rr.lo {
				rr.lo = k
			}
			return true
		}
		id, isId := e.(*ast.Ident)
		if !isId {
			ok = false
			return true
		}
		obj := info.Uses[id]
		// the index variable of an enclosing loop over a stable slice parameter, not assigned in the loop body
		bound := -1
		for cur := p.Parent(rs); cur != nil; cur = p.Parent(cur) {
			switch l := cur.(type) {
			case *ast.RangeStmt:
				if kid, isK := l.Key.(*ast.Ident); isK && info.Defs[kid] == obj && l.Tok == token.DEFINE {
					if pid, isP := ast.Unparen(l.X).(*ast.Ident); isP {
						if idx, st := params[info.Uses[pid]]; st && idx >= 0 {
							if _, isSl := info.Uses[pid].Type().Underlying().(*types.Slice); isSl && !assignsTo(info, l.Body, obj) {
								bound = idx
							}
						}
					}
				}
			case *ast.ForStmt:
				if init, isA := l.Init.(*ast.AssignStmt); isA && len(init.Lhs) == 1 && len(init.Rhs) == 1 && init.Tok == token.DEFINE {
					if iid, isI := init.Lhs[0].(*ast.Ident); isI && info.Defs[iid] == obj {
						k0, isK0 := constInt(info, init.Rhs[0])
						cond, isB := ast.Unparen(l.Cond).(*ast.BinaryExpr)
						inc, isInc := l.Post.(*ast.IncDecStmt)
						if isK0 && k0 >= 0 && isB && cond.Op == token.LSS && isIdentOf(info, cond.X, obj) && isInc && inc.Tok == token.INC && isIdentOf(info, inc.X, obj) && !assignsTo(info, l.Body, obj) {
							if lc, isL := ast.Unparen(cond.Y).(*ast.CallExpr); isL && exprStr(lc.Fun) == "len" && len(lc.Args) == 1 {
								if pid, isP := ast.Unparen(lc.Args[0]).(*ast.Ident); isP {
									if idx, st := params[info.Uses[pid]]; st && idx >= 0 {
										bound = idx
									}
								}
							}
						}
					}
				}
			}
			if bound >= 0 {
				break
			}
		}
		if bound < 0 || rr.paramIdx >= 0 && rr.paramIdx != bound {
			ok = false
			return true
		}
		rr.paramIdx = bound
		return true
	})
	if !ok || n == 0 || rr.paramIdx < 0 {
		return nil
	}
	p.resRangeCache[callee] = rr
	return rr
}

// resBelow: on every return the int result is a constant in [0, maxConst] or a value r with 0 <= r < P for the
// (never reassigned) int parameter P: a helper that reduces an index into a range of P entries.
type resBelow struct {
	paramIdx int
	maxConst int64
}

func (p *Program) resultBelowParam(callee *FuncInfo) *resBelow {
	if p.resBelowCache == nil {
		p.resBelowCache = map[*FuncInfo]*resBelow{}
	}
	if v, ok := p.resBelowCache[callee]; ok {
		return v
	}
	p.resBelowCache[callee] = nil
	if callee.Decl.Body == nil || callee.Obj == nil {
		return nil
	}
	sig := callee.Obj.Type().(*types.Signature)
	if sig.Results().Len() != 1 {
		return nil
	}
	if b, ok := sig.Results().At(0).Type().Underlying().(*types.Basic); !ok || b.Info()&types.IsInteger == 0 {
		return nil
	}
	info := callee.Pkg.TypesInfo
	params := p.stableParams(callee)
	g := p.GraphOf(callee)
	facts := g.GuardFacts()
	for pobj, pidx := range params {
		if pidx < 0 {
			continue
		}
		if b, ok := pobj.Type().Underlying().(*types.Basic); !ok || b.Kind() != types.Int {
			continue
		}
		pid := ast.NewIdent(pobj.Name())
		rb := &resBelow{paramIdx: pidx}
		ok, nvar, n := true, 0, 0
		inspectNoLit(callee.Decl.Body, func(x ast.Node) bool {
			rs, isR := x.(*ast.ReturnStmt)
			if !isR || !ok {
				return true
			}
			n++
			if len(rs.Results) != 1 {
				ok = false
				return true
			}
			e := ast.Unparen(rs.Results[0])
			if k, isK := constInt(info, e); isK {
				if k < 0 {
					ok = false
				} else if k > rb.maxConst {
					rb.maxConst = k
				}
				return true
			}
			f, reach := facts.Before(rs)
			if !reach {
				return true
			}
			d := newDBM(g, f, nil)
			if d.nonNeg(e) && d.leExpr(e, 1, pid, 0) {
				nvar++
			} else {
				ok = false
			}
			return true
		})
		if ok && n > 0 && nvar > 0 {
			p.resBelowCache[callee] = rb
			return rb
		}
	}
	return nil
}

func assignsTo(info *types.Info, body ast.Node, obj types.Object) bool {
	found := false
	ast.Inspect(body, func(n ast.Node) bool {
		switch s := n.(type) {
		case *ast.AssignStmt:
			for _, l := range s.Lhs {
				if id, ok := l.(*ast.Ident); ok && info.Uses[id] == obj {
					found = true
				}
			}
		case *ast.IncDecStmt:
			if id, ok := s.X.(*ast.Ident); ok && info.Uses[id] == obj {
				found = true
			}
		}
		return true
	})
	return found
}

// applyCondPost: the condition `h(args)` (a boolean function of this package) came out val.
func (p *Program) applyCondPost(info *types.Info, n *Facts, cond ast.Expr, val bool) {
	e := ast.Unparen(cond)
	for {
		if u, ok := e.(*ast.UnaryExpr); ok && u.Op == token.NOT {
			e, val = ast.Unparen(u.X), !val
			continue
		}
		break
	}
	c, ok := e.(*ast.CallExpr)
	if !ok {
		return
	}
	fn := calleeOf(info, c)
	if fn == nil {
		return
	}
	callee := p.FuncOf(fn)
	if callee == nil || callee.Pkg != p.Root {
		return
	}
	mode := "false"
	if val {
		mode = "true"
	}
	pi := p.calleePostMode(callee, mode)
	if pi == nil || len(pi.atoms) == 0 {
		return
	}
	sub := p.callSubst(callee, c)
	for _, a := range pi.atoms {
		complete := true
		for obj := range pi.params {
			if _, has := sub[obj]; !has && (mentionsParam(info, a.X, map[types.Object]int{obj: 0}) || mentionsParam(info, a.Y, map[types.Object]int{obj: 0})) {
				complete = false
			}
		}
		if complete {
			if a.Op == token.ILLEGAL {
				n.assume(substParamsExpr(info, a.X, sub), a.Val)
			} else {
				n.setRel(a.Op, substParamsExpr(info, a.X, sub), substParamsExpr(info, a.Y, sub), a.Val)
			}
		}
	}
}

// recordPending: `..., ok := helper(args)` (or `=`) with helper a function of this package whose last result is a
// bool: remember what the helper guarantees for ok == true and for ok == false, in terms of the caller's
// expressions. The facts are instantiated now (they describe the state at the call) and survive until the
// variables or fields they mention are written or the lock protecting those fields is released.
func (p *Program) recordPending(info *types.Info, n *Facts, st ast.Node) {
	as, ok := st.(*ast.AssignStmt)
	if !ok {
		return
	}
	// x := obj.flag (a boolean field captured into a local, typically under the lock): testing x later decides
	// obj.flag as long as neither was written and the lock was not released in between
	if len(as.Lhs) == len(as.Rhs) && (as.Tok == token.DEFINE || as.Tok == token.ASSIGN) {
		for i, l := range as.Lhs {
			lid, isId := l.(*ast.Ident)
			if !isId || lid.Name == "_" {
				continue
			}
			rhs := ast.Unparen(as.Rhs[i])
			neg := false
			if u, isU := rhs.(*ast.UnaryExpr); isU && u.Op == token.NOT {
				rhs, neg = ast.Unparen(u.X), true
			}
			sel, isSel := rhs.(*ast.SelectorExpr)
			if !isSel || !isFieldPath(sel) || mentions(exprStr(sel), lid.Name) {
				continue
			}
			if t := info.TypeOf(sel); t == nil {
				continue
			} else if b, isB := t.Underlying().(*types.Basic); !isB || b.Kind() != types.Bool {
				continue
			}
			if n.pend == nil {
				n.pend = map[string]pendAtom{}
			}
			for _, when := range []bool{true, false} {
				key := lid.Name + " ⇒" + map[bool]string{true: "T", false: "F"}[when] + ": " + normStr(info, sel)
				n.pend[key] = pendAtom{v: lid.Name, when: when, ra: relAtom{token.ILLEGAL, sel, nil}, val: when != neg}
			}
		}
	}
	if len(as.Rhs) != 1 || len(as.Lhs) < 1 {
		return
	}
	c, ok := ast.Unparen(as.Rhs[0]).(*ast.CallExpr)
	if !ok {
		return
	}
	fn := calleeOf(info, c)
	if fn == nil {
		return
	}
	callee := p.FuncOf(fn)
	if callee == nil || callee.Pkg != p.Root || callee.Obj == nil {
		return
	}
	sig := callee.Obj.Type().(*types.Signature)
	if sig.Results().Len() != len(as.Lhs) {
		return
	}
	okID, isId := as.Lhs[len(as.Lhs)-1].(*ast.Ident)
	if !isId || okID.Name == "_" {
		return
	}
	for _, mode := range []string{"true", "false"} {
		pi := p.calleePostMode(callee, mode)
		if pi == nil || len(pi.atoms) == 0 {
			continue
		}
		sub := p.callSubst(callee, c)
		for obj, idx := range pi.params {
			if idx >= 1000 && idx-1000 < len(as.Lhs)-1 {
				if lid, isL := as.Lhs[idx-1000].(*ast.Ident); isL && lid.Name != "_" {
					sub[obj] = lid
				}
			}
		}
		for _, a := range pi.atoms {
			complete := true
			for obj := range pi.params {
				if _, has := sub[obj]; !has && (mentionsParam(info, a.X, map[types.Object]int{obj: 0}) || mentionsParam(info, a.Y, map[types.Object]int{obj: 0})) {
					complete = false
				}
			}
			if !complete {
				continue
			}
			x := substParamsExpr(info, a.X, sub)
			var y ast.Expr
			ys := ""
			if a.Y != nil {
				y = substParamsExpr(info, a.Y, sub)
				ys = " " + a.Op.String() + " " + normStr(info, y)
			}
			key := okID.Name + " ⇒" + mode[:1] + ": " + normStr(info, x) + ys
			if n.pend == nil {
				n.pend = map[string]pendAtom{}
			}
			n.pend[key] = pendAtom{v: okID.Name, when: mode == "true", ra: relAtom{a.Op, x, y}, val: a.Val}
		}
	}
}

// resultConsts: the function has a single integer result and every return statement returns a constant: the set of
// those constants (at most 8), nil otherwise.
func (p *Program) resultConsts(callee *FuncInfo) []int64 {
	if p.resConstsCache == nil {
		p.resConstsCache = map[*FuncInfo][]int64{}
	}
	if v, ok := p.resConstsCache[callee]; ok {
		return v
	}
	p.resConstsCache[callee] = nil
	if callee.Decl.Body == nil || callee.Obj == nil {
		return nil
	}
	sig := callee.Obj.Type().(*types.Signature)
	if sig.Results().Len() != 1 {
		return nil
	}
	if b, ok := sig.Results().At(0).Type().Underlying().(*types.Basic); !ok || b.Info()&types.IsInteger == 0 {
		return nil
	}
	info := callee.Pkg.TypesInfo
	set := map[int64]bool{}
	ok := true
	n := 0
	inspectNoLit(callee.Decl.Body, func(x ast.Node) bool {
		rs, isR := x.(*ast.ReturnStmt)
		if !isR {
			return true
		}
		n++
		if len(rs.Results) != 1 {
			ok = false
			return true
		}
		if k, isK := constInt(info, ast.Unparen(rs.Results[0])); isK {
			set[k] = true
		} else {
			ok = false
		}
		return true
	})
	if !ok || n == 0 || len(set) == 0 || len(set) > 8 {
		return nil
	}
	var out []int64
	for k := range set {
		out = append(out, k)
	}
	sort.Slice(out, func(i, j int) bool { return out[i] < out[j] })
	p.resConstsCache[callee] = out
	return out
}

// fieldWritesOf: names of the struct fields fi may assign (directly or through same-module callees, three levels).
func (p *Program) fieldWritesOf(fi *FuncInfo, depth int) map[string]bool {
	if p.fieldWritesCache == nil {
		p.fieldWritesCache = map[*FuncInfo]map[string]bool{}
	}
	if v, ok := p.fieldWritesCache[fi]; ok {
		return v
	}
	out := map[string]bool{}
	p.fieldWritesCache[fi] = out // recursion guard: partial result
	if fi.Decl.Body == nil {
		return out
	}
	info := fi.Pkg.TypesInfo
	note := func(e ast.Expr) {
		e = ast.Unparen(e)
		for {
			switch x := e.(type) {
			case *ast.IndexExpr:
				e = ast.Unparen(x.X)
				continue
			case *ast.StarExpr:
				e = ast.Unparen(x.X)
				continue
			}
			break
		}
		if sel, ok := e.(*ast.SelectorExpr); ok {
			if fv := fieldOf(info, sel); fv != nil {
				out[fv.Name()] = true
			}
		}
	}
	ast.Inspect(fi.Decl.Body, func(x ast.Node) bool {
		switch y := x.(type) {
		case *ast.AssignStmt:
			for _, l := range y.Lhs {
				note(l)
			}
			// *iter = *other: every field
			for _, l := range y.Lhs {
				if st, ok := ast.Unparen(l).(*ast.StarExpr); ok {
					if t := info.TypeOf(st); t != nil {
						if sct, isS := t.Underlying().(*types.Struct); isS {
							for i := 0; i < sct.NumFields(); i++ {
								out[sct.Field(i).Name()] = true
							}
						}
					}
				}
			}
		case *ast.IncDecStmt:
			note(y.X)
		case *ast.CallExpr:
			if depth < 3 {
				if fn := calleeOf(info, y); fn != nil {
					if callee := p.FuncOf(fn); callee != nil && callee != fi {
						for k := range p.fieldWritesOf(callee, depth+1) {
							out[k] = true
						}
					}
				}
			}
		}
		return true
	})
	return out
}

// nodeWrite: a call in a node may assign the named fields of objects reachable from the named roots (its receiver
// and its reference-typed arguments).
type nodeWrite struct {
	roots  []string
	fields map[string]bool
}

// nodeFieldWrites: for the calls made in node n to functions of the module: which fields they may assign, and
// through which variables of the caller (receiver / arguments that can carry a reference).
func (p *Program) nodeFieldWrites(info *types.Info, n ast.Node) []nodeWrite {
	if p.nodeWritesCache == nil {
		p.nodeWritesCache = map[ast.Node][]nodeWrite{}
	}
	if v, ok := p.nodeWritesCache[n]; ok {
		return v
	}
	var out []nodeWrite
	inspectNoLit(n, func(x ast.Node) bool {
		c, ok := x.(*ast.CallExpr)
		if !ok {
			return true
		}
		fn := calleeOf(info, c)
		if fn == nil {
			return true
		}
		callee := p.FuncOf(fn)
		if callee == nil {
			return true
		}
		fw := p.fieldWritesOf(callee, 0)
		if len(fw) == 0 {
			return true
		}
		nw := nodeWrite{fields: fw}
		addRoot := func(e ast.Expr) {
			if e == nil {
				return
			}
			if u, isU := ast.Unparen(e).(*ast.UnaryExpr); isU && u.Op == token.AND {
				e = u.X
			} else if t := info.TypeOf(e); t != nil {
				switch t.Underlying().(type) {
				case *types.Pointer, *types.Slice, *types.Map, *types.Interface, *types.Chan, *types.Signature:
				default:
					return // passed by value
				}
			}
			if r := rootIdent(e); r != nil {
				nw.roots = append(nw.roots, r.Name)
			}
		}
		if rx := recvExpr(c); rx != nil {
			// a method with a pointer receiver can write through an addressable value receiver expression too
			if sig, isSig := fn.Type().(*types.Signature); isSig && sig.Recv() != nil {
				if _, isPtr := sig.Recv().Type().Underlying().(*types.Pointer); isPtr {
					if r := rootIdent(rx); r != nil {
						nw.roots = append(nw.roots, r.Name)
					}
				} else {
					addRoot(rx)
				}
			}
		}
		for _, a := range c.Args {
			addRoot(a)
		}
		if len(nw.roots) > 0 {
			out = append(out, nw)
		}
		return true
	})
	p.nodeWritesCache[n] = out
	return out
}

// mentionsField: the atom text selects a field of that name (".name" as a whole token).
func mentionsField(atom, name string) bool {
	idx := 0
	for {
		i := strings.Index(atom[idx:], "."+name)
		if i < 0 {
			return false
		}
		j := idx + i + 1 + len(name)
		if j == len(atom) || !isIdentChar(atom[j]) {
			return true
		}
		idx = idx + i + 1
	}
}
