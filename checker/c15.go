package main

import (
	"go/ast"
	"go/token"
	"go/types"
	"strings"
)

func init() {
	register(&PropertySpec{
		ID: "C15",
		Explanation: "Structural necessary conditions of 'paged iteration yields every row exactly once, in order, and then stops': R1 a next page is scheduled only when the response says has_more_pages and automatic paging is on, and PageState() turns automatic paging off; R2 the next-page query is a private copy of the current query made when the page arrives, carrying a copy of this response's paging state; " +
			"R3 the fetched page is stored only inside the nextIter's sync.Once and fetchAsync only spawns fetch inside its own Once; R4 the consumers (MapScan, SliceMap, RowData-based helpers) reach rows only through Iter.Scan; Iter.Scan and Scanner.Next switch pages under `pos >= numRows && next != nil`, re-enter their own logic on the fetched page (so an empty page with more pages continues and a failed fetch surfaces as the error) and advance the position exactly once per delivered row." +
			" R5 a consumer that drains the iterator with a Scan loop returns a nil error only after finding iter.err nil behind the loop." +
			" R6 only the page-switching code (Scan, Scanner.Next, WillSwitchPage and their helpers) reads Iter.pos.",
		NotDecided: "that every row is delivered exactly once across page boundaries for all page/row counts; the prefetch position arithmetic; races between prefetch and the consumer beyond the Once discipline.",
		Rules: []*Rule{
			{ID: "C15.R1", Floor: 3, Doc: "next page scheduled only under morePages() && !disableAutoPage; PageState disables auto paging", Run: c15r1},
			{ID: "C15.R2", Floor: 3, Doc: "next-page query is a copy of the query made now, with a copy of this response's paging state", Run: c15r2},
			{ID: "C15.R3", Floor: 3, Doc: "nextIter.next written only inside once.Do; fetchAsync spawns fetch inside oncea.Do", Run: c15r3},
			{ID: "C15.R4", Floor: 8, Doc: "consumers funnel through Scan; page switch re-enters the same logic; position advanced once per delivered row", Run: c15r4},
			{ID: "C15.R5", Floor: 1, Doc: "a consumer that drains the iterator with Scan reports success only after finding iter.err nil once the loop has ended", Run: c15r5},
			{ID: "C15.R6", Floor: 3, Doc: "only the page-switching code reads the position within the page: consumers never conclude 'no more rows' from pos / numRows themselves", Run: c15r6},
			{ID: "C15.R9", Floor: 1, Doc: "a context that a function cancels by a deferred call is not attached to a query or a struct field in that function (the next-page copy of the query would inherit a dead context)", Run: ctxOutlivesCancel},
			{ID: "C15.R8", Floor: 1, Doc: "after the scanner moved to the next page nothing is read through a copy of the old page's iterator (=C04.R12)", Run: c04r12},
			{ID: "C15.R7", Floor: 1, Doc: "loops that drain an iterator are bounded by Scan alone, never by the row count of the current page", Run: c15r7},
		},
	})
}

func c15r1(p *Program, r *Report) {
	fi := r.NeedFunc("(*Conn).executeQuery")
	if fi == nil {
		return
	}
	g := p.GraphOf(fi)
	info := g.Info
	facts := g.GuardFacts()
	n := 0
	// the manual-paging flags: the boolean fields of Query that PageState() sets
	manualFlags := map[string]bool{}
	ps := r.NeedFunc("(*Query).PageState")
	if ps != nil {
		pinfo := ps.Pkg.TypesInfo
		// in PageState itself or in the private helpers it is split into
		for _, u := range p.unitsOf(ps) {
			ast.Inspect(u.Decl.Body, func(x ast.Node) bool {
				if as, isAs := x.(*ast.AssignStmt); isAs && len(as.Lhs) == 1 && len(as.Rhs) == 1 {
					if sel, isSel := ast.Unparen(as.Lhs[0]).(*ast.SelectorExpr); isSel && p.isFieldOf(pinfo, sel, "Query") {
						if v, isC := pinfo.Types[as.Rhs[0]]; isC && v.Value != nil && v.Value.String() == "true" {
							manualFlags[sel.Sel.Name] = true
						}
					}
				}
				return true
			})
		}
	}
	ast.Inspect(fi.Decl.Body, func(x ast.Node) bool {
		as, ok := x.(*ast.AssignStmt)
		if !ok || len(as.Lhs) != 1 || !p.isField(info, as.Lhs[0], "Iter", "next") {
			return true
		}
		n++
		f, _ := facts.Before(as)
		more, auto := false, false
		for atom, v := range f.m {
			if v && strings.HasSuffix(atom, ".morePages()") {
				more = true
			}
			if i := strings.LastIndex(atom, "."); !v && i > 0 && manualFlags[atom[i+1:]] && isQueryPath(info, fi, atom[:i]) {
				auto = true
			}
		}
		r.Check(more, as, "(*Conn).executeQuery schedules a next page only if the response has more pages", "dominated by x.meta.morePages()", "a follow-up page is scheduled although the response did not say has_more_pages: a page is requested after the last one")
		// the has_more_pages flag that is tested is the one of this response: the metadata cached with the prepared
		// statement (used when the server skips metadata) never carries it
		if more {
			frameVar := ""
			if ts, ok := p.enclosing(as, fi.Decl, func(n ast.Node) bool { _, is := n.(*ast.TypeSwitchStmt); return is }).(*ast.TypeSwitchStmt); ok {
				if a, ok := ts.Assign.(*ast.AssignStmt); ok && len(a.Lhs) == 1 {
					frameVar = exprStr(a.Lhs[0])
				}
			}
			fromResponse := true
			why := ""
			for atom, v := range f.m {
				if !v || !strings.HasSuffix(atom, ".morePages()") {
					continue
				}
				recv := strings.TrimSuffix(atom, ".morePages()")
				if frameVar != "" && strings.HasPrefix(recv, frameVar+".") {
					continue
				}
				// another holder of metadata: every whole assignment to it must copy the response's metadata
				ast.Inspect(fi.Decl.Body, func(y ast.Node) bool {
					a2, ok := y.(*ast.AssignStmt)
					if !ok || len(a2.Lhs) != len(a2.Rhs) {
						return true
					}
					for i, l := range a2.Lhs {
						if exprStr(l) == recv && !(frameVar != "" && strings.HasPrefix(exprStr(a2.Rhs[i]), frameVar+".")) {
							fromResponse = false
							why = recv + " = " + exprStr(a2.Rhs[i])
						}
					}
					return true
				})
			}
			r.Check(fromResponse, as, "(*Conn).executeQuery reads has_more_pages from this response's metadata", "the tested metadata is the frame's own", "the has_more_pages test is made on metadata that can be the prepared statement's cached copy ("+why+"): with skip-metadata (the default for prepared statements) the flag is never set there, so iteration silently ends after the first page")
		}
		r.Check(auto, as, "(*Conn).executeQuery schedules a next page only with automatic paging on", "dominated by !qry.disableAutoPage", "a follow-up page is scheduled although the caller supplied a page state (manual paging fetches exactly one page)")
		return true
	})
	if n == 0 {
		r.Unresolved("executeQuery never assigns Iter.next")
	}
	if ps != nil {
		r.Check(len(manualFlags) > 0, ps.Decl, "(*Query).PageState disables automatic paging", "disableAutoPage = true", "supplying a page state no longer disables automatic paging: more than one page is fetched")
	}
}

// isQueryPath: the source text names a variable of type *Query / Query of the function.
func isQueryPath(info *types.Info, fi *FuncInfo, text string) bool {
	found := false
	ast.Inspect(fi.Decl, func(n ast.Node) bool {
		if e, ok := n.(ast.Expr); ok && !found && exprStr(e) == text {
			if t := info.TypeOf(e); t != nil && typeNameOf(t) == "Query" {
				found = true
			}
		}
		return !found
	})
	return found
}

func c15r2(p *Program, r *Report) {
	fi := r.NeedFunc("(*Conn).executeQuery")
	if fi == nil {
		return
	}
	info := fi.Pkg.TypesInfo
	qryParam := paramObj(info, fi.Decl.Type, 1)
	// the literal is built in executeQuery or in a helper it was moved to
	var lit *ast.CompositeLit
	host := fi
	for _, u := range p.unitsOf(fi) {
		ast.Inspect(u.Decl.Body, func(x ast.Node) bool {
			if cl, ok := x.(*ast.CompositeLit); ok && typeNameOf(info.TypeOf(cl)) == "nextIter" && lit == nil {
				lit, host = cl, u
			}
			return true
		})
	}
	if lit == nil {
		r.Unresolved("executeQuery builds no nextIter")
		return
	}
	var qv ast.Expr
	for _, el := range lit.Elts {
		if kv, ok := el.(*ast.KeyValueExpr); ok && exprStr(kv.Key) == "qry" {
			qv = kv.Value
		}
	}
	qid, _ := ast.Unparen(qv).(*ast.Ident)
	if call, isCall := ast.Unparen(qv).(*ast.CallExpr); isCall && qid == nil {
		// the copy is made by a private helper that returns it (qry.nextPageQuery(state)): the rule is decided there
		if m := p.FuncOf(calleeOf(info, call)); m != nil && m.Decl.Body != nil && m.Pkg == fi.Pkg && m.Obj != nil && !m.Obj.Exported() {
			var ret *ast.Ident
			nret := 0
			inspectNoLit(m.Decl.Body, func(x ast.Node) bool {
				if rs, ok := x.(*ast.ReturnStmt); ok && len(rs.Results) == 1 {
					nret++
					ret, _ = ast.Unparen(rs.Results[0]).(*ast.Ident)
				}
				return true
			})
			if nret == 1 && ret != nil {
				qid, host = ret, m
			}
		}
	}
	if qid == nil {
		r.Bad(lit, "(*Conn).executeQuery next page holds its own query", "the nextIter's query is "+exprStr(qv)+", not a local copy")
		return
	}
	qobj := info.Uses[qid]
	// isCallerQuery: e (in host) is the *Query executeQuery was given
	isCallerQuery := func(e ast.Expr) bool {
		rf, re := p.resolveValue(host, e, 0)
		return rf == fi && isIdentOf(info, re, qryParam)
	}
	isCopy, pageFromResp, pageCopied := false, false, false
	ast.Inspect(host.Decl.Body, func(x ast.Node) bool {
		as, ok := x.(*ast.AssignStmt)
		if !ok || len(as.Lhs) != 1 || len(as.Rhs) != 1 {
			return true
		}
		// *newQry = *qry
		if st, ok := ast.Unparen(as.Lhs[0]).(*ast.StarExpr); ok && isIdentOf(info, st.X, qobj) {
			if rs, ok := ast.Unparen(as.Rhs[0]).(*ast.StarExpr); ok && isCallerQuery(rs.X) {
				isCopy = true
			}
		}
		// newQry.pageState = copyBytes(x.meta.pagingState)
		if sel, ok := ast.Unparen(as.Lhs[0]).(*ast.SelectorExpr); ok && isIdentOf(info, sel.X, qobj) && p.isField(info, sel, "Query", "pageState") {
			src := as.Rhs[0]
			if c, ok := ast.Unparen(as.Rhs[0]).(*ast.CallExpr); ok && isCallTo(info, c, "copyBytes") && len(c.Args) == 1 {
				pageCopied = true
				src = c.Args[0]
			}
			_, re := p.resolveValue(host, src, 0)
			rhs := exprStr(re)
			if strings.Contains(rhs, ".meta.pagingState") && !strings.Contains(rhs, "info.") {
				pageFromResp = true
			}
		}
		return true
	})
	if isCallerQuery(qid) {
		isCopy = false
	}
	// the copy stays a copy: the only fields given a value of their own are the paging state and the per-page
	// metrics; any other field of the follow-up query (statement, values, consistency, context, ...) must keep the
	// value the caller's query has now (a store of the caller's own field value is a no-op and accepted)
	ast.Inspect(host.Decl.Body, func(x ast.Node) bool {
		as, ok := x.(*ast.AssignStmt)
		if !ok || len(as.Lhs) != len(as.Rhs) {
			return true
		}
		for i, l := range as.Lhs {
			sel, ok := ast.Unparen(l).(*ast.SelectorExpr)
			if !ok || !isIdentOf(info, sel.X, qobj) {
				continue
			}
			if p.isField(info, sel, "Query", "pageState") || p.isField(info, sel, "Query", "metrics") {
				continue
			}
			if rs, ok := ast.Unparen(as.Rhs[i]).(*ast.SelectorExpr); ok && rs.Sel.Name == sel.Sel.Name && isCallerQuery(rs.X) {
				continue
			}
			r.Bad(as, "(*Conn).executeQuery next-page query keeps every other field of the caller's query: "+sel.Sel.Name,
				"the follow-up query's "+sel.Sel.Name+" is overwritten with "+exprStr(as.Rhs[i])+": the next page is requested with another "+sel.Sel.Name+" than the query the caller ran (a per-attempt context, for instance, is cancelled when the first page returns, and the second page is never fetched)")
		}
		return true
	})
	r.Check(qobj != qryParam && isCopy, lit, "(*Conn).executeQuery next-page query is a private copy made when the page arrives", "*newQry = *qry before scheduling",
		"the follow-up page is scheduled with the caller's own *Query (or no copy is made now): if the caller re-binds, modifies or releases the query before the page is fetched, the next page is requested with other values or options")
	r.Check(pageFromResp, lit, "(*Conn).executeQuery next-page query carries this response's paging state", "newQry.pageState = x.meta.pagingState", "the follow-up query does not carry the paging state of the response just received")
	r.Check(pageCopied, lit, "(*Conn).executeQuery copies the paging state out of the frame buffer", "copyBytes(...)", "the paging state aliases the frame's read buffer, which is recycled")
}

// onceBody is a function run through a sync.Once of a nextIter: a literal or a method passed as a method value.
type onceBody struct {
	once   *types.Var // the Once field
	fi     *FuncInfo  // the function containing the body (for a literal: the function that calls Do)
	body   *ast.BlockStmt
	lit    *ast.FuncLit
	method *FuncInfo
	doIn   *FuncInfo
}

// nextIterOnceBodies finds every <nextIter>.<once field>.Do(f) in the package.
func nextIterOnceBodies(p *Program) []onceBody {
	var out []onceBody
	p.forEachFunc(false, func(fi *FuncInfo) {
		info := fi.Pkg.TypesInfo
		ast.Inspect(fi.Decl.Body, func(x ast.Node) bool {
			call, ok := x.(*ast.CallExpr)
			if !ok || !isCallTo(info, call, "sync.(*Once).Do") || len(call.Args) != 1 {
				return true
			}
			rx := recvExpr(call)
			if rx == nil || !p.isFieldOf(info, rx, "nextIter") {
				return true
			}
			ob := onceBody{once: fieldOf(info, rx), doIn: fi}
			switch a := ast.Unparen(call.Args[0]).(type) {
			case *ast.FuncLit:
				ob.fi, ob.body, ob.lit = fi, a.Body, a
			case *ast.SelectorExpr:
				if fn, isFn := info.Uses[a.Sel].(*types.Func); isFn {
					if m := p.FuncOf(fn); m != nil && m.Decl.Body != nil {
						ob.fi, ob.body, ob.method = m, m.Decl.Body, m
					}
				}
			}
			if ob.body != nil {
				out = append(out, ob)
			}
			return true
		})
	})
	return out
}

func c15r3(p *Program, r *Report) {
	n := 0
	bodies := nextIterOnceBodies(p)
	// the page slot: the *Iter field(s) of nextIter
	pageFields := p.fieldsTyped("nextIter", func(t types.Type) bool {
		pt, ok := t.(*types.Pointer)
		return ok && typeNameOf(pt.Elem()) == "Iter"
	})
	isPage := func(info *types.Info, e ast.Expr) bool {
		fv := fieldOf(info, e)
		for _, f := range pageFields {
			if fv != nil && fv == f {
				return true
			}
		}
		return false
	}
	// a method run through a Once must not be callable any other way
	onlyThroughOnce := func(m *FuncInfo) bool {
		ok := true
		p.forEachFunc(false, func(fi *FuncInfo) {
			info := fi.Pkg.TypesInfo
			ast.Inspect(fi.Decl.Body, func(x ast.Node) bool {
				switch y := x.(type) {
				case *ast.CallExpr:
					if calleeOf(info, y) == m.Obj {
						ok = false
					}
					if isCallTo(info, y, "sync.(*Once).Do") {
						return false // the method value handed to Do
					}
				case *ast.SelectorExpr:
					if info.Uses[y.Sel] == types.Object(m.Obj) {
						if pc, isCall := p.Parent(y).(*ast.CallExpr); !isCall || ast.Unparen(pc.Fun) != ast.Expr(y) {
							ok = false // another method value
						}
					}
				}
				return true
			})
		})
		return ok
	}
	var storeOnce *types.Var
	p.forEachFunc(false, func(fi *FuncInfo) {
		info := fi.Pkg.TypesInfo
		ast.Inspect(fi.Decl.Body, func(x ast.Node) bool {
			as, ok := x.(*ast.AssignStmt)
			if !ok {
				return true
			}
			for _, l := range as.Lhs {
				if !isPage(info, l) {
					continue
				}
				n++
				okOnce := false
				lit, _ := p.enclosingFuncNode(as).(*ast.FuncLit)
				for _, ob := range bodies {
					if lit != nil && ob.lit == lit {
						okOnce, storeOnce = true, ob.once
					}
					if lit == nil && ob.method == fi && onlyThroughOnce(fi) {
						okOnce, storeOnce = true, ob.once
					}
				}
				r.Check(okOnce, as, fi.Name+" stores the fetched page inside once.Do", "the page is fetched at most once", "the nextIter's page is assigned outside its sync.Once: prefetch and the consumer can both fetch the page (rows delivered twice) or see a half-written value")
			}
			return true
		})
	})
	if n == 0 {
		r.Unresolved("the nextIter's page slot is never assigned")
	}
	if fa := r.NeedFunc("(*nextIter).fetchAsync"); fa != nil {
		info := fa.Pkg.TypesInfo
		ok := false
		for _, ob := range bodies {
			if ob.doIn != fa {
				continue
			}
			if ob.method != nil && !onlyThroughOnce(ob.method) {
				continue
			}
			ast.Inspect(ob.body, func(x ast.Node) bool {
				if gs, isGo := x.(*ast.GoStmt); isGo && isCallTo(info, gs.Call, "(*nextIter).fetch") && (storeOnce == nil || ob.once != storeOnce) {
					ok = true
				}
				return true
			})
		}
		r.Check(ok, fa.Decl, "(*nextIter).fetchAsync spawns fetch once", "go n.fetch() inside oncea.Do", "fetchAsync does not start the prefetch exactly once through its own sync.Once")
	}
	if f := r.NeedFunc("(*nextIter).fetch"); f != nil {
		info := f.Pkg.TypesInfo
		// the query executed is the nextIter's own
		ok := true
		type unit struct {
			fi   *FuncInfo
			body ast.Node
		}
		units := []unit{{f, f.Decl.Body}}
		for _, ob := range bodies {
			if ob.doIn == f && ob.method != nil {
				units = append(units, unit{ob.method, ob.body})
			}
		}
		for _, u := range units {
			ast.Inspect(u.body, func(x ast.Node) bool {
				c, isCall := x.(*ast.CallExpr)
				if !isCall || !strings.HasSuffix(calleeName(info, c), ".executeQuery") {
					return true
				}
				last := c.Args[len(c.Args)-1]
				if _, re := p.resolveValue(u.fi, last, 0); !(p.isFieldOf(info, re, "nextIter") && typeNameOf(info.TypeOf(re)) == "Query") {
					ok = false
				}
				return true
			})
		}
		r.Check(ok, f.Decl, "(*nextIter).fetch executes the stored next-page query", "n.qry", "fetch executes a query other than the one stored for this page")
	}
}

func c15r4(p *Program, r *Report) {
	// consumers funnel through Scan
	for _, name := range []string{"(*Iter).MapScan", "(*Iter).SliceMap", "(*Iter).rowMap"} {
		fi := r.NeedFunc(name)
		if fi == nil {
			continue
		}
		info := fi.Pkg.TypesInfo
		scans, reads := false, false
		ast.Inspect(fi.Decl.Body, func(x ast.Node) bool {
			if c, ok := x.(*ast.CallExpr); ok {
				switch calleeName(info, c) {
				case "(*Iter).Scan":
					scans = true
				case "(*Iter).readColumn", "(*framer).readBytesInternal", "(*framer).readBytes":
					reads = true
				}
			}
			return true
		})
		r.Check(scans && !reads, fi.Decl, name+" reads rows only through Iter.Scan", "calls Scan, never the cell reader", name+" reads cells itself instead of going through Iter.Scan: page switching and position accounting are bypassed")
	}
	for _, w := range []struct{ fn, recvField string }{{"(*Iter).Scan", ""}, {"(*iterScanner).Next", "iter"}} {
		fi := r.NeedFunc(w.fn)
		if fi == nil {
			continue
		}
		g := p.GraphOf(fi)
		info := g.Info
		facts := g.GuardFacts()
		// the fetch call site
		var fetch *ast.CallExpr
		ast.Inspect(fi.Decl.Body, func(x ast.Node) bool {
			if c, ok := x.(*ast.CallExpr); ok && isCallTo(info, c, "(*nextIter).fetch") {
				fetch = c
			}
			return true
		})
		if fetch == nil {
			r.Bad(fi.Decl, w.fn+" switches pages", w.fn+" never fetches the next page")
			continue
		}
		f, _ := facts.Before(fetch)
		exhausted, hasNext := false, false
		for atom, v := range f.m {
			if strings.Contains(atom, ".pos < ") && strings.Contains(atom, ".numRows") && !v {
				exhausted = true
			}
			if strings.HasSuffix(atom, ".next == nil") && !v {
				hasNext = true
			}
		}
		r.Check(exhausted && hasNext, fetch, w.fn+" fetches the next page only when the current one is exhausted and a next page exists", "pos >= numRows && next != nil", "the page switch is not guarded by `pos >= numRows && next != nil`: rows are skipped or a nil page is fetched")
		// after the fetch the function re-enters itself (recursion) or loops
		stmt := p.enclosing(fetch, fi.Decl, func(m ast.Node) bool { _, ok := m.(*ast.AssignStmt); return ok })
		reenter := false
		if as, ok := stmt.(*ast.AssignStmt); ok {
			if i, list := p.stmtIndex(as); i >= 0 && i+1 < len(list) {
				switch nx := list[i+1].(type) {
				case *ast.ReturnStmt:
					if len(nx.Results) == 1 {
						if c, ok := ast.Unparen(nx.Results[0]).(*ast.CallExpr); ok && isCallTo(info, c, w.fn) {
							reenter = true
						}
					}
				case *ast.BranchStmt:
					if nx.Tok == token.CONTINUE {
						reenter = true
					}
				}
			}
			// or: the switch is (up to plain copies of the new page into other variables) the last step of the body
			// of an unconditional loop, whose next iteration runs the checks again
			if i, list := p.stmtIndex(as); i >= 0 && !reenter {
				if blk, isBlk := p.Parent(as).(*ast.BlockStmt); isBlk {
					if loop, isFor := p.Parent(blk).(*ast.ForStmt); isFor && loop.Cond == nil && loop.Post == nil && loop.Body == blk {
						plain := true
						for _, rest := range list[i+1:] {
							ra, isAs := rest.(*ast.AssignStmt)
							if !isAs || len(callsIn(ra)) > 0 {
								plain = false
							}
						}
						reenter = plain
					}
				}
			}
		}
		r.Check(reenter, fetch, w.fn+" re-enters its own logic on the fetched page", "return "+strings.TrimPrefix(w.fn, "(*")+"(...) right after the switch",
			"after switching to the fetched page the function does not re-run its own checks on it: an empty page that announces more pages ends the iteration early (remaining rows lost) and a failed fetch is not examined")
		// position advanced exactly once per delivered row
		ef := g.Events(func(st Step) []string {
			if st.Kind == StNode {
				if inc, ok := st.Node.(*ast.IncDecStmt); ok && inc.Tok == token.INC && p.isField(info, inc.X, "Iter", "pos") {
					return []string{"advance"}
				}
			}
			return nil
		})
		nret := 0
		for _, e := range g.Exits() {
			rs, ok := e.Node.(*ast.ReturnStmt)
			if !ok || len(rs.Results) != 1 {
				continue
			}
			v, ok := info.Types[rs.Results[0]]
			if !ok || v.Value == nil || v.Value.String() != "true" {
				continue
			}
			nret++
			s, _ := ef.ExitState(e)
			r.Check(s.Must["advance"] && s.Max["advance"] == 1, rs, w.fn+" advances the position exactly once per delivered row", "pos++ once on the path to `return true`", "a row is delivered without advancing the position exactly once: a row is delivered twice or skipped")
		}
		if nret == 0 {
			// single exit through a result variable (`ok := rowErr == nil; if ok { pos++ }; return ok`): on every
			// path on which the returned boolean is true the position was advanced (path-sensitive facts, the
			// increment leaves a mark); the count per path is bounded by the event analysis above
			g.markNodes = map[ast.Node]string{}
			ast.Inspect(fi.Decl.Body, func(x ast.Node) bool {
				if inc, ok := x.(*ast.IncDecStmt); ok && inc.Tok == token.INC && p.isField(info, inc.X, "Iter", "pos") {
					g.markNodes[inc] = "advance"
				}
				return true
			})
			var resNames []string
			for _, e := range g.Exits() {
				if rs, ok := e.Node.(*ast.ReturnStmt); ok && len(rs.Results) == 1 {
					if id, isId := ast.Unparen(rs.Results[0]).(*ast.Ident); isId && info.Types[rs.Results[0]].Value == nil {
						resNames = append(resNames, id.Name)
					}
				}
			}
			psol := g.GuardFactsPSAbout(func(atom string) bool {
				if strings.HasPrefix(atom, "§") {
					return true
				}
				for _, nm := range resNames {
					if mentions(atom, nm) {
						return true
					}
				}
				return strings.Contains(atom, "rr") || strings.Contains(atom, "== nil")
			})
			defer func(g *Graph) { g.markNodes = nil }(g)
			for _, e := range g.Exits() {
				rs, ok := e.Node.(*ast.ReturnStmt)
				if !ok || len(rs.Results) != 1 {
					continue
				}
				id, isId := ast.Unparen(rs.Results[0]).(*ast.Ident)
				if !isId || info.Types[rs.Results[0]].Value != nil {
					continue
				}
				ps, reach := psol.Before(rs)
				if !reach {
					continue
				}
				s, _ := ef.ExitState(e)
				okAll, nTrue := true, 0
				for _, f := range ps {
					cond, _ := expandBoolLocals(g, id, 0, f.stale)
					v, known := f.Known(cond)
					if !known {
						v, known = f.Known(id)
					}
					if !known {
						okAll = false
						continue
					}
					if v {
						nTrue++
						if !f.m["§advance"] {
							okAll = false
						}
					}
				}
				if nTrue == 0 {
					continue
				}
				nret++
				r.Check(okAll && s.Max["advance"] <= 1, rs, w.fn+" advances the position exactly once per delivered row", "pos++ on every path on which "+id.Name+" is true", "a row is delivered without advancing the position exactly once: a row is delivered twice or skipped")
			}
		}
		if nret == 0 {
			r.Unresolved("%s: no `return true`", w.fn)
		}
	}
	_ = types.Typ
}

// c15r5: Scan returns false both at the end of the result and when a page fetch or a decode failed; the failure is
// left in iter.err. A helper that loops `for iter.Scan(...)` and then returns a nil error must have looked at
// iter.err after the loop (directly, through Close or checkErrAndNotFound): otherwise a failed follow-up page yields
// a silently truncated result.
func c15r5(p *Program, r *Report) {
	n := 0
	p.forEachFunc(false, func(fi *FuncInfo) {
		if fi.Pkg != p.Root || fi.Decl.Recv == nil || fi.Decl.Body == nil {
			return
		}
		info := fi.Pkg.TypesInfo
		if rt := info.TypeOf(fi.Decl.Recv.List[0].Type); rt == nil || typeNameOf(rt) != "Iter" {
			return
		}
		if len(fi.Decl.Recv.List[0].Names) != 1 {
			return
		}
		recv := fi.Decl.Recv.List[0].Names[0].Name
		var loop *ast.ForStmt
		ast.Inspect(fi.Decl.Body, func(x ast.Node) bool {
			if f, ok := x.(*ast.ForStmt); ok && loop == nil {
				// the loop asks Scan for the next row in its condition or in its body (`if !iter.Scan(..) { break }`)
				scans := false
				var parts []ast.Node
				if f.Init != nil {
					parts = append(parts, f.Init)
				}
				if f.Cond != nil {
					parts = append(parts, f.Cond)
				}
				if f.Post != nil {
					parts = append(parts, f.Post)
				}
				if f.Body != nil {
					parts = append(parts, f.Body)
				}
				for _, part := range parts {
					inspectNoLit(part, func(y ast.Node) bool {
						if c, isC := y.(*ast.CallExpr); isC && isCallTo(info, c, "(*Iter).Scan") {
							if rc := recvExpr(c); rc != nil && exprStr(rc) == recv {
								scans = true
							}
						}
						return true
					})
				}
				if scans {
					loop = f
				}
			}
			return true
		})
		if loop == nil {
			return
		}
		// the function reports errors at all?
		sig := fi.Obj.Type().(*types.Signature)
		if sig.Results().Len() == 0 || !isErrorType(sig.Results().At(sig.Results().Len()-1).Type()) {
			return
		}
		g := p.GraphOf(fi)
		facts := g.GuardFacts()
		for _, e := range g.Exits() {
			rs, ok := e.Node.(*ast.ReturnStmt)
			if !ok || len(rs.Results) == 0 || rs.Pos() < loop.End() {
				continue
			}
			last := rs.Results[len(rs.Results)-1]
			if !isNil(info, last) {
				continue
			}
			n++
			f, _ := facts.Before(rs)
			v, known := f.KnownStr(recv + ".err == nil")
			r.Check(known && v, rs, fi.Name+" reports success only after iter.err was found nil behind the Scan loop", recv+".err == nil known at the return",
				"a nil error is returned after the Scan loop without "+recv+".err having been examined there: when fetching or decoding a following page fails, the rows read so far are returned as if they were the complete result")
		}
	})
	if n == 0 {
		r.Unresolved("no Iter method that drains the iterator with a Scan loop and returns an error was found")
	}
}

// c15r6: the end of a page is not the end of the result. Iter.Scan and Scanner.Next (with the helpers they are split
// into) and WillSwitchPage own the test `pos >= numRows`, because they follow it by the switch to the next page. Any
// other method of Iter that reads Iter.pos can only mistake a page boundary for the end of the rows.
func c15r6(p *Program, r *Report) {
	posF := p.Field("Iter", "pos")
	owners := map[*FuncInfo]bool{}
	for _, name := range []string{"(*Iter).Scan", "(*iterScanner).Next", "(*Iter).WillSwitchPage"} {
		if fi := p.Func(name); fi != nil {
			for _, u := range p.unitsOf(fi) {
				owners[u] = true
			}
		}
	}
	n := 0
	p.forEachFunc(false, func(fi *FuncInfo) {
		if fi.Pkg != p.Root || fi.Decl.Body == nil {
			return
		}
		info := fi.Pkg.TypesInfo
		reads := false
		var at ast.Node
		inspectNoLit(fi.Decl.Body, func(x ast.Node) bool {
			if sel, ok := x.(*ast.SelectorExpr); ok && fieldOf(info, sel) == posF {
				// a pure store (iter.pos = 0 when a page is installed) is not a read
				if as, isAs := p.Parent(sel).(*ast.AssignStmt); isAs {
					for _, l := range as.Lhs {
						if l == ast.Expr(sel) && as.Tok == token.ASSIGN {
							return true
						}
					}
				}
				reads, at = true, sel
			}
			return true
		})
		if !reads {
			return
		}
		n++
		r.Check(owners[fi], at, fi.Name+" may read the position within the page", "page-switching code (Scan, Scanner.Next, WillSwitchPage and their helpers)",
			fi.Name+" reads Iter.pos, although it does not switch pages: a test on the position treats the end of the current page as the end of the result, so iteration stops after the first page (and a failed fetch of the next page is never reported)")
	})
	if n == 0 {
		r.Unresolved("nothing reads Iter.pos")
	}
}
