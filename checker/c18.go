package main

import (
	"fmt"
	"go/ast"
	"go/parser"
	"go/token"
	"go/types"
	"os"
	"strings"
)

func init() {
	register(&PropertySpec{
		ID: "C18",
		Explanation: "Structural necessary conditions of 'compression is transparent and only used as negotiated': R1 exactly the STARTUP and OPTIONS builders clear the compression bit of the header flags, every other builder passes the framer's flags; R2 finish() compresses iff the compression bit of the flags byte actually written is set, compresses exactly the bytes after the header, replaces them, and patches the length afterwards; " +
			"R3 a framer gets the compression flag iff it has a compressor; readFrame decompresses iff the header flag is set, returns an error when no compressor is configured (nil check dominates Decode) and propagates Decode's error; R4 negotiation: COMPRESSION is put into STARTUP only for an algorithm the server advertised under the configured compressor's name, and on every path where it was not, the connection's compressor is cleared before STARTUP is sent; R5 lz4: Encode writes the big-endian uncompressed length at offset 0 and the block after it, Decode checks for the 4-byte prefix, reads the same field and decompresses the rest." +
			" R7 the length patched into the header is computed from the buffer after its last replacement.",
		NotDecided: "byte identity of decode(encode(x)) for all bodies (behaviour of the snappy / lz4 libraries); size limits of the libraries.",
		Rules: []*Rule{
			{ID: "C18.R1", Floor: 8, Doc: "only STARTUP and OPTIONS clear flagCompress in the header flags", Run: c18r1},
			{ID: "C18.R2", Floor: 4, Doc: "finish(): compress iff the written flags byte has the bit; body after headSize; length patched afterwards", Run: c18r2},
			{ID: "C18.R3", Floor: 4, Doc: "newFramer flag iff compressor; readFrame decompresses iff flag, nil-check, error propagation", Run: c18r3},
			{ID: "C18.R4", Floor: 2, Doc: "negotiation against SUPPORTED; compressor cleared whenever COMPRESSION is not sent", Run: c18r4},
			{ID: "C18.R5", Floor: 5, Doc: "lz4 length-prefix agreement between Encode and Decode; no multiplication of lengths in 32-bit types", Run: c18r5},
			{ID: "C18.R6", Floor: 1, Doc: "finish(): on every path that returns success the header announces compression exactly when the body was replaced by the compressor output", Run: c18r6},
			{ID: "C18.R7", Floor: 1, Doc: "finish(): the length patched into the header is computed from the buffer in its final (compressed) form", Run: finishLength},
			{ID: "C18.R9", Floor: 1, Doc: "every framer of a connection is built with the negotiated compressor (the Conn's field), never with the configured one", Run: c18FramerNegotiated},
			{ID: "C18.R8", Floor: 1, Doc: "the error of reading / decompressing a frame body is the one handed on with the frame: no shadowed or overwritten error in recv, readFrame, finish and their helpers", Run: c18r8},
		},
		NeedsLZ4: true,
	})
}

func c18r1(p *Program, r *Report) {
	n := 0
	p.forEachFunc(false, func(fi *FuncInfo) {
		info := fi.Pkg.TypesInfo
		ast.Inspect(fi.Decl.Body, func(x ast.Node) bool {
			c, ok := x.(*ast.CallExpr)
			if !ok || !isCallTo(info, c, "(*framer).writeHeader") || len(c.Args) != 3 {
				return true
			}
			// header flags: f.flags, f.flags &^ flagCompress, or a one-line helper returning one of them
			classify := func(fn *FuncInfo, e ast.Expr) (clears, plain bool) {
				finfo := fn.Pkg.TypesInfo
				e = ast.Unparen(e)
				// a local holding the flags (plain := f.flags &^ flagCompress)
				if id, isId := e.(*ast.Ident); isId {
					if d := localDef(finfo, fn, id); d != nil {
						e = ast.Unparen(d)
					}
				}
				if call, ok := e.(*ast.CallExpr); ok {
					if f := calleeOf(finfo, call); f != nil {
						if h := p.FuncOf(f); h != nil && h.Decl.Body != nil && len(h.Decl.Body.List) == 1 {
							if rs, ok := h.Decl.Body.List[0].(*ast.ReturnStmt); ok && len(rs.Results) == 1 {
								e = ast.Unparen(rs.Results[0])
								finfo = h.Pkg.TypesInfo
							}
						}
					}
				}
				if b, ok := e.(*ast.BinaryExpr); ok && b.Op == token.AND_NOT && p.isField(finfo, b.X, "framer", "flags") {
					if v, ok := constInt(finfo, b.Y); ok && v == 0x01 {
						clears = true
					}
				}
				if p.isField(finfo, e, "framer", "flags") {
					plain = true
				}
				return
			}
			flagSites := p.effectiveArgs(fi, c, 0, 0)
			for _, site := range p.effectiveArgs(fi, c, 1, 0) {
				n++
				op := exprStr(site.Expr)
				// the flags expression that goes with this opcode: the one at the same call when both were passed
				// through the wrapper, else the (single) flags expression of the writeHeader call
				fe, ffn := c.Args[0], fi
				for _, fs := range flagSites {
					if fs.Call == site.Call {
						fe, ffn = fs.Expr, fs.Fn
					}
				}
				clears, plain := classify(ffn, fe)
				if op == "opStartup" || op == "opOptions" {
					r.Check(clears, site.Call, site.Fn.Name+" "+op+" header clears the compression bit", "f.flags &^ flagCompress", op+" is written with header flags "+exprStr(fe)+": the frame would be compressed although compression is only negotiated by STARTUP itself")
				} else {
					r.Check(plain, site.Call, site.Fn.Name+" "+op+" header uses the framer's flags", "f.flags", op+" is written with header flags "+exprStr(fe)+" instead of the framer's flags: the compression bit no longer follows the negotiation")
				}
			}
			return true
		})
	})
	if n < 8 {
		r.Unresolved("fewer than 8 writeHeader call sites (%d)", n)
	}
}

func c18r4(p *Program, r *Report) {
	startup := r.NeedFunc("(*startupCoordinator).startup")
	if startup == nil {
		return
	}
	// the function that decides the COMPRESSION option: startup itself or the helper the decision was moved into
	fi := startup
	for _, cand := range append([]*FuncInfo{startup}, p.privateCallees(startup)...) {
		found := false
		ast.Inspect(cand.Decl.Body, func(x ast.Node) bool {
			if as, ok := x.(*ast.AssignStmt); ok && len(as.Lhs) == 1 {
				if ix, ok := ast.Unparen(as.Lhs[0]).(*ast.IndexExpr); ok {
					if sv, ok := constString(cand.Pkg.TypesInfo, ix.Index); ok && sv == "COMPRESSION" {
						found = true
					}
				}
			}
			return true
		})
		if found {
			fi = cand
			break
		}
	}
	g := p.GraphOf(fi)
	info := g.Info
	facts := g.GuardFacts()
	isCompKey := func(e ast.Expr) bool {
		ix, ok := ast.Unparen(e).(*ast.IndexExpr)
		if !ok {
			return false
		}
		s, ok := constString(info, ix.Index)
		if !ok || s != "COMPRESSION" {
			return false
		}
		// the options map, not the server's SUPPORTED multimap
		if t := info.TypeOf(ix.X); t != nil {
			if m, ok := t.Underlying().(*types.Map); ok {
				if b, ok := m.Elem().Underlying().(*types.Basic); ok && b.Kind() == types.String {
					return true
				}
			}
		}
		return false
	}
	n := 0
	ast.Inspect(fi.Decl.Body, func(x ast.Node) bool {
		as, ok := x.(*ast.AssignStmt)
		if !ok || len(as.Lhs) != 1 || !isCompKey(as.Lhs[0]) {
			return true
		}
		n++
		// advertisedAt: node sits in a range over the server's COMPRESSION list under equality of the loop variable
		// with the configured compressor's name
		// isCompName: e is the configured compressor's name (directly or through locals)
		isCompName := func(e ast.Expr) bool {
			for depth := 0; depth < 4; depth++ {
				if strings.HasSuffix(p.canonText(fi, e), ".compressor.Name()") {
					return true
				}
				// X.Name() with X a local copy of the compressor field
				if c, isC := ast.Unparen(e).(*ast.CallExpr); isC && len(c.Args) == 0 {
					if sel, isSel := ast.Unparen(c.Fun).(*ast.SelectorExpr); isSel && sel.Sel.Name == "Name" {
						rx := ast.Unparen(sel.X)
						for d2 := 0; d2 < 3; d2++ {
							if strings.HasSuffix(strings.ReplaceAll(exprStr(rx), " ", ""), ".compressor") {
								return true
							}
							rid, isId := rx.(*ast.Ident)
							if !isId || info.Uses[rid] == nil || !singleAssigned(info, fi.Decl.Body, info.Uses[rid]) {
								break
							}
							def := localDefMulti(info, fi, rid)
							if def == nil {
								break
							}
							rx = ast.Unparen(def)
						}
					}
				}
				id, isId := ast.Unparen(e).(*ast.Ident)
				if !isId {
					return false
				}
				d := localDefMulti(info, fi, id)
				if d == nil || info.Uses[id] == nil || !singleAssigned(info, fi.Decl.Body, info.Uses[id]) {
					return false
				}
				e = d
			}
			return false
		}
		// isServerList: e is the server's list of COMPRESSION algorithms (the SUPPORTED multimap entry, or a local
		// bound to it), not the options map being built
		isServerList := func(e ast.Expr) bool {
			src := p.canonText(fi, e)
			if id, ok := ast.Unparen(e).(*ast.Ident); ok && !strings.Contains(src, `["COMPRESSION"]`) {
				if d := localDefMulti(info, fi, id); d != nil {
					if isCompKey(ast.Unparen(d)) {
						return false
					}
					src = p.canonText(fi, d)
				}
			}
			return strings.Contains(src, `["COMPRESSION"]`) && !isCompKey(ast.Unparen(p.expandExpr(fi, e, 0)))
		}
		// advertisedAt: at node an element of the server's COMPRESSION list is known to equal the configured
		// compressor's name (the loop variable of a range over the list, or list[i]); returns that element's text
		advertisedElem := func(node ast.Node) (string, bool) {
			f, _ := facts.Before(p.stmtOf(node, fi))
			if os.Getenv("DBGC18") != "" {
				fmt.Println("DBGC18 facts at", p.Pos(node), f.m)
			}
			for atom, v := range f.m {
				if !v || !strings.Contains(atom, " == ") {
					continue
				}
				parts := strings.SplitN(atom, " == ", 2)
				for i := 0; i < 2; i++ {
					a, b := parts[i], parts[1-i]
					ae, err1 := parser.ParseExpr(a)
					be, err2 := parser.ParseExpr(b)
					if err1 != nil || err2 != nil {
						continue
					}
					// a: an element of the list
					isElem := false
					switch x := ae.(type) {
					case *ast.Ident:
						for cur := p.Parent(node); cur != nil && cur != ast.Node(fi.Decl); cur = p.Parent(cur) {
							if rs, isR := cur.(*ast.RangeStmt); isR && rs.Value != nil && exprStr(rs.Value) == x.Name && isServerList(rs.X) {
								isElem = true
							}
						}
					case *ast.IndexExpr:
						if lid, isId := x.X.(*ast.Ident); isId {
							if real := identNamed(fi, lid.Name); real != nil && isServerList(real) {
								isElem = true
							}
						} else if strings.Contains(strings.ReplaceAll(exprStr(x.X), " ", ""), `["COMPRESSION"]`) {
							if sel, isIx := x.X.(*ast.IndexExpr); isIx {
								if mid, isId := sel.X.(*ast.Ident); isId {
									if real := identNamed(fi, mid.Name); real != nil {
										if t := info.TypeOf(real); t != nil {
											if m, isM := t.Underlying().(*types.Map); isM {
												if _, isSl := m.Elem().Underlying().(*types.Slice); isSl {
													isElem = true
												}
											}
										}
									}
								}
							}
						}
					}
					if !isElem {
						continue
					}
					// b: the compressor's name
					okName := strings.HasSuffix(strings.ReplaceAll(b, " ", ""), ".compressor.Name()")
					if bid, isId := be.(*ast.Ident); isId {
						if real := identNamed(fi, bid.Name); real != nil && isCompName(real) {
							okName = true
						}
					}
					if okName {
						return strings.ReplaceAll(a, " ", ""), true
					}
				}
			}
			return "", false
		}
		advertisedAt := func(node ast.Node) bool {
			_, ok := advertisedElem(node)
			return ok
		}
		okReq := advertisedAt(as)
		how := "inside the loop over the server's COMPRESSION list, under equality with compressor.Name()"
		if !okReq {
			// through a flag: the assignment is under `flag` true and every `flag = true` is in such a loop
			f, _ := facts.Before(as)
			for atom, v := range f.m {
				if !v || strings.ContainsAny(atom, " (.[") {
					continue
				}
				flagName := atom
				nTrue, allAdv := 0, true
				ast.Inspect(fi.Decl.Body, func(m ast.Node) bool {
					a2, ok := m.(*ast.AssignStmt)
					if !ok || len(a2.Lhs) != 1 || len(a2.Rhs) != 1 || exprStr(a2.Lhs[0]) != flagName {
						return true
					}
					switch exprStr(a2.Rhs[0]) {
					case "true":
						nTrue++
						if !advertisedAt(a2) {
							allAdv = false
						}
					case "false":
					default:
						allAdv = false
					}
					return true
				})
				if nTrue > 0 && allAdv {
					okReq = true
					how = "under " + flagName + ", which is set only inside the loop over the server's COMPRESSION list under equality with compressor.Name()"
				}
			}
			if !okReq {
				// through a membership helper: the assignment is under contains(<server list>, <name>) true
				for atom, v := range f.m {
					if !v {
						continue
					}
					var call *ast.CallExpr
					ast.Inspect(fi.Decl.Body, func(m ast.Node) bool {
						if c, ok := m.(*ast.CallExpr); ok && call == nil && strings.ReplaceAll(exprStr(c), " ", "") == strings.ReplaceAll(atom, " ", "") {
							call = c
						}
						return true
					})
					if call == nil || len(call.Args) != 2 {
						continue
					}
					fn := calleeOf(info, call)
					if fn == nil {
						continue
					}
					h := p.FuncOf(fn)
					if h == nil || !isContainsFunc(p, h) {
						continue
					}
					_, listE := p.resolveValue(fi, call.Args[0], 0)
					_, nameE := p.resolveValue(fi, call.Args[1], 0)
					lix, isIx := ast.Unparen(listE).(*ast.IndexExpr)
					if !isIx || isCompKey(lix) {
						continue
					}
					if ks, isK := constString(info, lix.Index); !isK || ks != "COMPRESSION" {
						continue
					}
					if strings.HasSuffix(exprStr(nameE), ".compressor.Name()") {
						okReq = true
						how = "under " + atom + ": the server's COMPRESSION list contains compressor.Name()"
					}
				}
			}
			// the value requested must then be the compressor's name
			if okReq {
				v := exprStr(ast.Unparen(as.Rhs[0]))
				isName := strings.HasSuffix(v, ".compressor.Name()") || isCompName(as.Rhs[0])
				// or the list element that is known to equal the name
				if el, ok := advertisedElem(as); ok && strings.ReplaceAll(v, " ", "") == el {
					isName = true
				}
				if id, ok := ast.Unparen(as.Rhs[0]).(*ast.Ident); ok {
					if d := localDef(info, fi, id); d != nil && strings.HasSuffix(exprStr(d), ".compressor.Name()") && singleAssigned(info, fi.Decl.Body, info.Uses[id]) {
						isName = true
					}
				}
				if !isName {
					okReq = false
				}
			}
		}
		r.Check(okReq, as, fi.Name+" requests only an advertised algorithm with the compressor's name", how,
			"COMPRESSION is put into STARTUP without the server having advertised the configured compressor's name")
		return true
	})
	if n == 0 {
		r.Bad(fi.Decl, "(*startupCoordinator).startup negotiates compression", "startup never requests COMPRESSION")
	}
	// before STARTUP is written: either COMPRESSION was requested or the compressor was cleared (whenever one was configured)
	type st struct{ open bool }
	sol := Solve(g, Lattice[st]{
		Init: st{true}, // a compressor may be configured and nothing was requested yet
		Join: func(a, b st) st { return st{a.open || b.open} },
		Eq:   func(a, b st) bool { return a == b },
		Step: func(s st, step Step) st {
			switch step.Kind {
			case StCond:
				// the condition establishes that no compressor is configured
				var noComp func(e ast.Expr, val bool) bool
				noComp = func(e ast.Expr, val bool) bool {
					e = ast.Unparen(e)
					if u, ok := e.(*ast.UnaryExpr); ok && u.Op == token.NOT {
						return noComp(u.X, !val)
					}
					if b, ok := e.(*ast.BinaryExpr); ok {
						switch b.Op {
						case token.LAND:
							if val {
								return noComp(b.X, true) || noComp(b.Y, true)
							}
							return noComp(b.X, false) && noComp(b.Y, false)
						case token.LOR:
							if !val {
								return noComp(b.X, false) || noComp(b.Y, false)
							}
							return noComp(b.X, true) && noComp(b.Y, true)
						case token.EQL:
							return strings.HasSuffix(p.canonText(fi, b.X), ".compressor") && isNil(info, b.Y) && val
						case token.NEQ:
							return strings.HasSuffix(p.canonText(fi, b.X), ".compressor") && isNil(info, b.Y) && !val
						}
					}
					return false
				}
				if noComp(step.Node.(ast.Expr), step.Val) {
					s.open = false
				}
				// `_, ok := m["COMPRESSION"]` ... ok true: it was requested
				ce, val := ast.Unparen(step.Node.(ast.Expr)), step.Val
				for {
					if u, ok := ce.(*ast.UnaryExpr); ok && u.Op == token.NOT {
						ce, val = ast.Unparen(u.X), !val
						continue
					}
					break
				}
				if id, ok := ce.(*ast.Ident); ok && val {
					if ix := commaOkSource(g, info, id, step.Node); ix != nil && isCompKey(ix) {
						s.open = false
					}
				}
			case StNode:
				for _, l := range assignedLHS(step.Node) {
					if isCompKey(l) {
						s.open = false // COMPRESSION requested on this path
					}
					if strings.HasSuffix(exprStr(l), ".compressor") {
						if as, ok := step.Node.(*ast.AssignStmt); ok && len(as.Rhs) == 1 && isNil(info, as.Rhs[0]) {
							s.open = false
						}
					}
				}
			}
			return s
		},
	})
	nw := 0
	if fi != startup {
		// decided in a helper: the obligation holds at every return of the helper (STARTUP is written after it)
		for _, e := range g.Exits() {
			if e.Kind == ExitPanic {
				continue
			}
			nw++
			s, reach := sol.AtExit(e)
			r.Check(reach && !s.open, e.Node, fi.Name+": compressor cleared whenever COMPRESSION is not requested", "at every return either COMPRESSION was requested or conn.compressor = nil",
				"a path leaves the negotiation with a compressor still configured although COMPRESSION was not requested (e.g. the server advertises only other algorithms): STARTUP negotiates no compression but every later request is compressed")
		}
	}
	ast.Inspect(fi.Decl.Body, func(x ast.Node) bool {
		c, ok := x.(*ast.CallExpr)
		if !ok || !isCallTo(info, c, "(*startupCoordinator).write") {
			return true
		}
		nw++
		s, reach := sol.Before(c)
		r.Check(reach && !s.open, c, "(*startupCoordinator).startup: compressor cleared whenever COMPRESSION is not requested", "on every path to STARTUP either COMPRESSION was requested or conn.compressor = nil",
			"a path reaches STARTUP with a compressor still configured although COMPRESSION was not requested (e.g. the server advertises only other algorithms): STARTUP negotiates no compression but every later request is compressed")
		return true
	})
	if nw == 0 {
		r.Unresolved("startup never writes the STARTUP frame")
	}
}

var lz4Cache = map[string]*Program{}

func c18r5(p *Program, r *Report) {
	key := p.RepoDir + "|" + p.Variant.Name
	lp := lz4Cache[key]
	if lp == nil {
		var err error
		lp, err = LoadLZ4(p.RepoDir, p.Variant)
		if err != nil {
			r.Unresolved("lz4 module: %v", err)
			return
		}
		lz4Cache[key] = lp
	}
	enc := lp.Func("(LZ4Compressor).Encode")
	dec := lp.Func("(LZ4Compressor).Decode")
	if enc == nil || dec == nil {
		r.Unresolved("lz4: Encode/Decode not found")
		return
	}
	einfo := enc.Pkg.TypesInfo
	rr := &Report{Property: r.Property, cur: r.cur, Census: r.Census, prog: lp, seen: r.seen}
	// the output buffer: the variable the function returns a prefix of
	var bufName, retHi string
	var retN int64
	retOK := false
	for _, e := range lp.GraphOf(enc).Exits() {
		if rs, ok := e.Node.(*ast.ReturnStmt); ok && len(rs.Results) == 2 && isNil(einfo, rs.Results[1]) && !isNil(einfo, rs.Results[0]) {
			if b, lo, hi, ok := lp.sliceRegion(enc, rs.Results[0]); ok && lo == 0 {
				bufName, retHi = b, hi
				if sl, ok := ast.Unparen(rs.Results[0]).(*ast.SliceExpr); ok && sl.High != nil {
					if name, k, ok := constPlusIdent(einfo, sl.High); ok && name != "" {
						retN, retOK = k, true
						retHi = name
					}
				}
			}
		}
	}
	if bufName == "" {
		rr.Unresolved("lz4 Encode: the returned buffer is not a prefix of a local buffer")
	}
	var nVar string
	for _, c := range callsIn(enc.Decl.Body) {
		name := calleeName(einfo, c)
		dstArg, valArg := ast.Expr(nil), ast.Expr(nil)
		if len(c.Args) == 2 {
			dstArg, valArg = c.Args[0], c.Args[1]
		}
		if bi, vi, be, ok := lz4PutHelper(lp, einfo, c); ok {
			dstArg, valArg = c.Args[bi], c.Args[vi]
			name = "binary.(littleEndian).PutUint32"
			if be {
				name = "binary.(bigEndian).PutUint32"
			}
		}
		switch name {
		case "binary.(bigEndian).PutUint32":
			b, lo, _, ok := lp.sliceRegion(enc, dstArg)
			val := lp.canonText(enc, valArg)
			rr.Check(ok && b == bufName && lo == 0 && val == "uint32(len(data))", c, "lz4 Encode writes the big-endian uncompressed length at offset 0", "PutUint32(buf[0:], uint32(len(data)))", fmt.Sprintf("Encode does not write the uncompressed length big-endian at the start of the block (destination %s+%d, value %s)", b, lo, val))
		case "binary.(littleEndian).PutUint32":
			rr.Bad(c, "lz4 Encode writes the big-endian uncompressed length at offset 0", "the length prefix is written little-endian")
		case "lz4.(*Compressor).CompressBlock":
			if len(c.Args) == 2 {
				b, lo, _, ok := lp.sliceRegion(enc, c.Args[1])
				rr.Check(ok && b == bufName && lo == 4, c, "lz4 Encode compresses after the 4-byte prefix", "CompressBlock(data, buf[4:])", fmt.Sprintf("the compressed block is placed at %s+%d, not after the 4-byte length", b, lo))
				nVar = resultVarOf(lp, c, 0)
			}
		}
	}
	rr.Check(retOK && retN == 4 && retHi == nVar && nVar != "", enc.Decl, "lz4 Encode returns prefix plus block", "buf[:n+4]", fmt.Sprintf("Encode returns %s[:%s+%d] instead of the 4-byte prefix plus the n compressed bytes", bufName, retHi, retN))
	dg := lp.GraphOf(dec)
	dinfo := dg.Info
	nread := 0
	dataName := "data"
	if po := paramObj(dinfo, dec.Decl.Type, 0); po != nil {
		dataName = po.Name()
	}
	// Decode and the unexported helpers it was split into
	units := []*FuncInfo{dec}
	for _, h := range lp.privateCallees(dec) {
		if h.Pkg == dec.Pkg && h.Decl.Body != nil {
			units = append(units, h)
		}
	}
	for _, u := range units {
		ug := lp.GraphOf(u)
		uinfo := ug.Info
		facts := ug.GuardFacts()
		ast.Inspect(u.Decl.Body, func(x ast.Node) bool {
			c, ok := x.(*ast.CallExpr)
			if !ok {
				return true
			}
			name := calleeName(uinfo, c)
			var srcArg ast.Expr
			if len(c.Args) == 1 {
				srcArg = c.Args[0]
			}
			if si, be, ok := lz4GetHelper(lp, uinfo, c); ok {
				srcArg = c.Args[si]
				name = "binary.(littleEndian).Uint32"
				if be {
					name = "binary.(bigEndian).Uint32"
				}
			}
			switch name {
			case "binary.(bigEndian).Uint32":
				nread++
				f, _ := facts.Before(lp.stmtOf(c, u))
				d := newDBM(ug, f, nil)
				// the bytes read, in terms of this function's variables (for the length check) ...
				b0, lo0, _, okR0 := lp.sliceRegion(u, srcArg)
				dataE := ast.Expr(ast.NewIdent(b0))
				d.noteLen(dataE)
				lt, lk, ok := d.term(lenCall(dataE))
				// ... and in terms of Decode's input (for the offset)
				b, lo, okR := lp.sliceRegionIP(u, srcArg, dec, 0)
				rr.Check(okR0 && okR && b == dataName && lo == 0 && ok && d.le(zeroNode, int(lo0)+4, lt, lk), c, "lz4 Decode reads the length field at offset 0 after checking for 4 bytes", "len(data) >= 4 known", "Decode reads the length prefix without having checked that 4 bytes are present (or not from offset 0)")
			case "binary.(littleEndian).Uint32":
				nread++
				rr.Bad(c, "lz4 Decode reads the length field big-endian", "the length prefix is read little-endian")
			case "lz4.UncompressBlock":
				b, lo, okR := lp.sliceRegionIP(u, c.Args[0], dec, 0)
				rr.Check(len(c.Args) == 2 && okR && b == dataName && lo == 4, c, "lz4 Decode decompresses the bytes after the prefix", "UncompressBlock(data[4:], buf)", fmt.Sprintf("Decode decompresses %s+%d instead of the bytes after the 4-byte prefix", b, lo))
			}
			return true
		})
	}
	if nread == 0 {
		rr.Bad(dec.Decl, "lz4 Decode reads the length prefix", "Decode never reads the uncompressed length")
	}
	// no multiplication / shift of a length in a fixed 32-bit (or narrower) integer type: it wraps for large bodies
	for _, fn := range []*FuncInfo{enc, dec} {
		finfo := fn.Pkg.TypesInfo
		found := false
		ast.Inspect(fn.Decl.Body, func(x ast.Node) bool {
			b, ok := x.(*ast.BinaryExpr)
			if !ok || (b.Op != token.MUL && b.Op != token.SHL) {
				return true
			}
			t := finfo.TypeOf(b)
			if t == nil {
				return true
			}
			bits, _, isInt := intInfo(t)
			if !isInt || bits > 32 || bits == 0 {
				return true
			}
			if _, isConst := constInt(finfo, b); isConst {
				return true
			}
			found = true
			rr.Bad(b, fn.Name+" multiplies a length in a "+t.String(), "the expression "+exprStr(b)+" is computed in "+t.String()+" and wraps for large bodies: a guard built on it rejects valid blocks (or accepts invalid ones)")
			return true
		})
		if !found {
			rr.OK(fn.Decl, fn.Name+" has no narrow-integer length arithmetic", "no multiplication/shift of non-constants in <=32-bit types")
		}
	}
	// error of UncompressBlock returned
	okErr := false
	for _, e := range dg.Exits() {
		if rs, ok := e.Node.(*ast.ReturnStmt); ok && len(rs.Results) == 2 && exprStr(rs.Results[1]) == "err" {
			okErr = true
		}
	}
	rr.Check(okErr, dec.Decl, "lz4 Decode returns the library's error", "err returned", "a corrupt block does not yield an error")
	r.Obls = append(r.Obls, rr.Obls...)
	r.Unres = append(r.Unres, rr.Unres...)
	_ = types.Typ
}

// sliceRegionIP is sliceRegion across the helpers a function was split into: a local bound to a result of a helper
// is the region that helper returns (in terms of the argument it was given), and a parameter of a helper of root
// is the region its (only) caller passes. The base is a variable of root when the translation succeeds.
func (p *Program) sliceRegionIP(fi *FuncInfo, e ast.Expr, root *FuncInfo, depth int) (string, int64, bool) {
	b, lo, _, ok := p.sliceRegion(fi, e)
	if !ok || depth > 3 {
		return b, lo, ok
	}
	info := fi.Pkg.TypesInfo
	id := identNamed(fi, b)
	if id == nil {
		return b, lo, ok
	}
	obj := info.Uses[id]
	// a local bound to the i-th result of a helper
	var call *ast.CallExpr
	ri := -1
	ndef := 0
	ast.Inspect(fi.Decl.Body, func(x ast.Node) bool {
		as, isAs := x.(*ast.AssignStmt)
		if !isAs {
			return true
		}
		for i, l := range as.Lhs {
			lid, isId := l.(*ast.Ident)
			if !isId || (info.Defs[lid] != obj && info.Uses[lid] != obj) {
				continue
			}
			ndef++
			if len(as.Rhs) == 1 && len(as.Lhs) > 1 {
				if c, isC := ast.Unparen(as.Rhs[0]).(*ast.CallExpr); isC {
					call, ri = c, i
				}
			}
		}
		return true
	})
	if call != nil && ndef == 1 {
		if fn := calleeOf(info, call); fn != nil {
			if h := p.FuncOf(fn); h != nil && h.Decl.Body != nil && h.Pkg == fi.Pkg {
				hinfo := h.Pkg.TypesInfo
				stable := p.stableParams(h)
				outB, outLo, have, okAll := "", int64(0), false, true
				inspectNoLit(h.Decl.Body, func(x ast.Node) bool {
					rs, isR := x.(*ast.ReturnStmt)
					if !isR || ri >= len(rs.Results) || isNil(hinfo, rs.Results[ri]) {
						return true
					}
					hb, hlo, hok := p.sliceRegionIP(h, rs.Results[ri], nil, depth+1)
					pid := identNamed(h, hb)
					if !hok || pid == nil {
						okAll = false
						return true
					}
					k, isParam := stable[hinfo.Uses[pid]]
					if !isParam || k < 0 || k >= len(call.Args) {
						okAll = false
						return true
					}
					cb, clo, cok := p.sliceRegionIP(fi, call.Args[k], root, depth+1)
					if !cok || have && (cb != outB || clo+hlo != outLo) {
						okAll = false
						return true
					}
					outB, outLo, have = cb, clo+hlo, true
					return true
				})
				if have && okAll {
					return outB, lo + outLo, true
				}
				return b, lo, false
			}
		}
	}
	// a parameter of a helper: what its only caller passes
	if root != nil && fi != root && fi.Obj != nil && !fi.Obj.Exported() {
		if k, isParam := p.stableParams(fi)[obj]; isParam && k >= 0 {
			var sites []argSite
			for _, caller := range p.SortedFuncs() {
				if caller.Decl.Body == nil || caller.Pkg != fi.Pkg {
					continue
				}
				for _, cc := range callsIn(caller.Decl.Body) {
					if fn := calleeOf(caller.Pkg.TypesInfo, cc); fn != nil && p.FuncOf(fn) == fi && k < len(cc.Args) {
						sites = append(sites, argSite{caller, cc, cc.Args[k]})
					}
				}
			}
			if len(sites) == 1 && !p.usedAsValue(fi) {
				cb, clo, cok := p.sliceRegionIP(sites[0].Fn, sites[0].Expr, root, depth+1)
				return cb, lo + clo, cok
			}
			return b, lo, false
		}
	}
	return b, lo, ok
}

// isContainsFunc: h(list []string, s string) bool returns true exactly when some element of list equals s: every
// `return true` sits in a loop over the list under an equality of the element with s, the other returns are false.
func isContainsFunc(p *Program, h *FuncInfo) bool {
	if h.Decl.Body == nil || h.Decl.Type.Params == nil {
		return false
	}
	info := h.Pkg.TypesInfo
	listObj, strObj := paramObj(info, h.Decl.Type, 0), paramObj(info, h.Decl.Type, 1)
	if listObj == nil || strObj == nil || !neverAssigned(info, h.Decl.Body, listObj) || !neverAssigned(info, h.Decl.Body, strObj) {
		return false
	}
	ok, nTrue, nFalse := true, 0, 0
	inspectNoLit(h.Decl.Body, func(x ast.Node) bool {
		rs, isR := x.(*ast.ReturnStmt)
		if !isR || len(rs.Results) != 1 {
			return true
		}
		tv, has := info.Types[rs.Results[0]]
		if !has || tv.Value == nil {
			ok = false
			return true
		}
		if tv.Value.String() == "false" {
			nFalse++
			return true
		}
		nTrue++
		// enclosing if: elem == s ; enclosing loop over list
		ifs, _ := p.enclosing(rs, h.Decl, func(m ast.Node) bool { _, is := m.(*ast.IfStmt); return is }).(*ast.IfStmt)
		var loopElem string
		loopOK := false
		for cur := ast.Node(rs); cur != nil && cur != ast.Node(h.Decl); cur = p.Parent(cur) {
			switch l := cur.(type) {
			case *ast.RangeStmt:
				if isIdentOf(info, l.X, listObj) {
					loopOK = true
					if l.Value != nil {
						loopElem = exprStr(l.Value)
					} else if l.Key != nil {
						loopElem = exprStr(l.X) + "[" + exprStr(l.Key) + "]"
					}
				}
			case *ast.ForStmt:
				if b, isB := ast.Unparen(l.Cond).(*ast.BinaryExpr); isB && b.Op == token.LSS {
					if lc, isL := ast.Unparen(b.Y).(*ast.CallExpr); isL && exprStr(lc.Fun) == "len" && len(lc.Args) == 1 && isIdentOf(info, lc.Args[0], listObj) {
						loopOK = true
						loopElem = listObj.Name() + "[" + exprStr(b.X) + "]"
					}
				}
			}
		}
		if ifs == nil || !loopOK || !posWithin(ifs.Body, rs.Pos()) {
			ok = false
			return true
		}
		c := strings.ReplaceAll(exprStr(ifs.Cond), " ", "")
		if c != loopElem+"=="+strObj.Name() && c != strObj.Name()+"=="+loopElem {
			ok = false
		}
		return true
	})
	return ok && nTrue > 0 && nFalse > 0
}

// lz4PutHelper: the call is to a function of the module whose whole effect is storing one uint32 parameter into the
// first four bytes of a []byte parameter (hand-written shifts or encoding/binary); returns the two parameter indices.
func lz4PutHelper(lp *Program, info *types.Info, c *ast.CallExpr) (bufIdx, valIdx int, bigEndian, ok bool) {
	fn := calleeOf(info, c)
	if fn == nil {
		return
	}
	h := lp.FuncOf(fn)
	if h == nil || h.Decl.Body == nil || h.Decl.Recv != nil {
		return
	}
	hinfo := h.Pkg.TypesInfo
	enc, isEnc := encodingOf(hinfo, h.Decl.Body.List, nil)
	if !isEnc || enc.Width != 4 || !strings.Contains(enc.How, "indexed") && !strings.Contains(enc.How, "binary.") {
		return
	}
	if strings.Contains(enc.How, "neither") {
		return
	}
	bufIdx, valIdx = -1, -1
	for i := 0; ; i++ {
		o := paramObj(hinfo, h.Decl.Type, i)
		if o == nil {
			break
		}
		if o.Name() == enc.Value {
			valIdx = i
		}
		if sl, isS := o.Type().Underlying().(*types.Slice); isS && isByteType(sl.Elem()) {
			if bufIdx >= 0 {
				return 0, 0, false, false
			}
			bufIdx = i
		}
	}
	if bufIdx < 0 || valIdx < 0 || len(c.Args) <= bufIdx || len(c.Args) <= valIdx {
		return 0, 0, false, false
	}
	// the stores go to the parameter itself
	bo := paramObj(hinfo, h.Decl.Type, bufIdx)
	for _, st := range indexStores(hinfo, h.Decl.Body) {
		if st.Buf != bo.Name() {
			return 0, 0, false, false
		}
	}
	for _, cc := range callsIn(h.Decl.Body) {
		nm := calleeName(hinfo, cc)
		if _, is := binaryPut[nm]; is || binaryPutLE[nm] > 0 {
			if !isIdentOf(hinfo, cc.Args[0], bo) {
				return 0, 0, false, false
			}
		}
	}
	return bufIdx, valIdx, enc.BigEndian, true
}

// lz4GetHelper: the call is to a function of the module that returns the four leading bytes of its []byte parameter
// decoded as one integer.
func lz4GetHelper(lp *Program, info *types.Info, c *ast.CallExpr) (srcIdx int, bigEndian, ok bool) {
	fn := calleeOf(info, c)
	if fn == nil {
		return
	}
	h := lp.FuncOf(fn)
	if h == nil || h.Decl.Body == nil || h.Decl.Recv != nil {
		return
	}
	hinfo := h.Pkg.TypesInfo
	var rets []*ast.ReturnStmt
	inspectNoLit(h.Decl.Body, func(x ast.Node) bool {
		if rs, is := x.(*ast.ReturnStmt); is {
			rets = append(rets, rs)
		}
		return true
	})
	if len(rets) != 1 || len(rets[0].Results) != 1 {
		return
	}
	d, isD := decodingOf(hinfo, rets[0].Results[0])
	if !isD || d.Width != 4 || d.Offset != 0 {
		return
	}
	for i := 0; ; i++ {
		o := paramObj(hinfo, h.Decl.Type, i)
		if o == nil {
			return 0, false, false
		}
		if o.Name() == d.Base && len(c.Args) > i && neverAssigned(hinfo, h.Decl.Body, o) {
			return i, d.BigEndian, true
		}
	}
}
