package main

import (
	"go/ast"
	"go/constant"
	"go/token"
	"go/types"
	"strings"

	"golang.org/x/tools/go/types/typeutil"
)

func exprStr(e ast.Expr) string {
	if e == nil {
		return ""
	}
	return types.ExprString(ast.Unparen(e))
}

// calleeOf resolves the static callee of a call (function or method, through type info).
func calleeOf(info *types.Info, call *ast.CallExpr) *types.Func {
	fn, _ := typeutil.Callee(info, call).(*types.Func)
	return fn
}

// calleeName returns the qualified name of the callee: "(*Conn).exec", "streams.(*IDGenerator).Clear",
// "sync.(*Mutex).Lock", "binary.bigEndian.Uint32", "" for dynamic calls; builtins as "builtin.close".
func calleeName(info *types.Info, call *ast.CallExpr) string {
	switch fun := ast.Unparen(call.Fun).(type) {
	case *ast.Ident:
		if b, ok := info.Uses[fun].(*types.Builtin); ok {
			return "builtin." + b.Name()
		}
	}
	fn := calleeOf(info, call)
	if fn == nil {
		return ""
	}
	if t := forwardOf[fn]; t != nil {
		fn = t
	}
	return funcQualNameAny(fn)
}

// funcQualNameAny is funcQualName but qualifies foreign packages by package name.
// Interface methods are named "Iface.Method" (root package) or "pkg.Iface.Method".
func funcQualNameAny(fn *types.Func) string {
	if fn.Pkg() == nil {
		if sig, ok := fn.Type().(*types.Signature); ok && sig.Recv() != nil {
			return typeNameOf(sig.Recv().Type()) + "." + fn.Name() // error.Error
		}
		return fn.Name()
	}
	path := fn.Pkg().Path()
	sig := fn.Type().(*types.Signature)
	local := path == rootPath || strings.HasPrefix(path, rootPath+"/")
	if recv := sig.Recv(); recv != nil && types.IsInterface(recv.Type()) {
		name := typeNameOf(recv.Type())
		if local {
			return pkgShort(path) + name + "." + fn.Name()
		}
		return fn.Pkg().Name() + "." + name + "." + fn.Name()
	}
	if local {
		return funcQualName(fn)
	}
	if recv := sig.Recv(); recv != nil {
		t := recv.Type()
		ptr := false
		if pt, ok := t.(*types.Pointer); ok {
			t, ptr = pt.Elem(), true
		}
		name := "?"
		switch nt := t.(type) {
		case *types.Named:
			name = nt.Obj().Name()
		case *types.Alias:
			name = nt.Obj().Name()
		}
		if ptr {
			return fn.Pkg().Name() + ".(*" + name + ")." + fn.Name()
		}
		return fn.Pkg().Name() + ".(" + name + ")." + fn.Name()
	}
	return fn.Pkg().Name() + "." + fn.Name()
}

// recvExpr returns the receiver expression of a method call x.m(...), else nil.
func recvExpr(call *ast.CallExpr) ast.Expr {
	if sel, ok := ast.Unparen(call.Fun).(*ast.SelectorExpr); ok {
		return sel.X
	}
	return nil
}

// callsIn lists the call expressions in n in evaluation-ish order (arguments before the call),
// not descending into function literals (except a literal that is directly deferred/invoked when into=true).
func callsIn(n ast.Node) []*ast.CallExpr {
	var out []*ast.CallExpr
	var walk func(x ast.Node)
	walk = func(x ast.Node) {
		inspectNoLit(x, func(y ast.Node) bool {
			if c, ok := y.(*ast.CallExpr); ok && y != x {
				walk(c)
				return false
			}
			return true
		})
		if c, ok := x.(*ast.CallExpr); ok {
			out = append(out, c)
		}
	}
	if c, ok := n.(*ast.CallExpr); ok {
		// children first
		inspectNoLit(c, func(y ast.Node) bool {
			if cc, ok := y.(*ast.CallExpr); ok && cc != c {
				walk(cc)
				return false
			}
			return true
		})
		out = append(out, c)
		return out
	}
	inspectNoLit(n, func(y ast.Node) bool {
		if c, ok := y.(*ast.CallExpr); ok {
			walk(c)
			return false
		}
		return true
	})
	return out
}

// funcLitsIn lists function literals directly inside n (not nested in other literals).
func funcLitsIn(n ast.Node) []*ast.FuncLit {
	var out []*ast.FuncLit
	ast.Inspect(n, func(x ast.Node) bool {
		if l, ok := x.(*ast.FuncLit); ok && x != n {
			out = append(out, l)
			return false
		}
		return true
	})
	return out
}

// constInt returns the constant integer value of e, if any.
func constInt(info *types.Info, e ast.Expr) (int64, bool) {
	tv, ok := info.Types[e]
	if !ok || tv.Value == nil {
		return 0, false
	}
	v := constant.ToInt(tv.Value)
	if v.Kind() != constant.Int {
		return 0, false
	}
	i, exact := constant.Int64Val(v)
	if !exact {
		if u, ok := constant.Uint64Val(v); ok {
			return int64(u), true
		}
		return 0, false
	}
	return i, true
}

func constUint(info *types.Info, e ast.Expr) (uint64, bool) {
	tv, ok := info.Types[e]
	if !ok || tv.Value == nil {
		return 0, false
	}
	v := constant.ToInt(tv.Value)
	if v.Kind() != constant.Int {
		return 0, false
	}
	if u, ok := constant.Uint64Val(v); ok {
		return u, true
	}
	if i, ok := constant.Int64Val(v); ok {
		return uint64(i), true
	}
	return 0, false
}

func constString(info *types.Info, e ast.Expr) (string, bool) {
	tv, ok := info.Types[e]
	if !ok || tv.Value == nil || tv.Value.Kind() != constant.String {
		return "", false
	}
	return constant.StringVal(tv.Value), true
}

// objOf returns the object an identifier or selector denotes.
func objOf(info *types.Info, e ast.Expr) types.Object {
	switch x := ast.Unparen(e).(type) {
	case *ast.Ident:
		if o := info.Uses[x]; o != nil {
			return o
		}
		return info.Defs[x]
	case *ast.SelectorExpr:
		if s := info.Selections[x]; s != nil {
			return s.Obj()
		}
		return info.Uses[x.Sel]
	}
	return nil
}

// fieldOf returns the struct field a selector expression denotes (nil otherwise).
func fieldOf(info *types.Info, e ast.Expr) *types.Var {
	sel, ok := ast.Unparen(e).(*ast.SelectorExpr)
	if !ok {
		return nil
	}
	if s := info.Selections[sel]; s != nil && s.Kind() == types.FieldVal {
		if v, ok := s.Obj().(*types.Var); ok {
			return v
		}
	}
	return nil
}

// isNil reports whether e is the predeclared nil.
func isNil(info *types.Info, e ast.Expr) bool {
	id, ok := ast.Unparen(e).(*ast.Ident)
	if !ok {
		return false
	}
	_, isNil := info.Uses[id].(*types.Nil)
	return isNil
}

// rootIdent returns the leftmost identifier of a selector/index/star chain.
func rootIdent(e ast.Expr) *ast.Ident {
	for {
		switch x := ast.Unparen(e).(type) {
		case *ast.Ident:
			return x
		case *ast.SelectorExpr:
			e = x.X
		case *ast.IndexExpr:
			e = x.X
		case *ast.StarExpr:
			e = x.X
		case *ast.SliceExpr:
			e = x.X
		case *ast.UnaryExpr:
			if x.Op == token.AND {
				e = x.X
				continue
			}
			return nil
		case *ast.CallExpr:
			return nil
		default:
			return nil
		}
	}
}

// assignedLHS returns the lvalues written by a CFG node (assignment, inc/dec, range, var spec).
func assignedLHS(n ast.Node) []ast.Expr {
	switch s := n.(type) {
	case *ast.AssignStmt:
		return s.Lhs
	case *ast.IncDecStmt:
		return []ast.Expr{s.X}
	case *ast.RangeStmt:
		var out []ast.Expr
		if s.Key != nil {
			out = append(out, s.Key)
		}
		if s.Value != nil {
			out = append(out, s.Value)
		}
		return out
	case *ast.ValueSpec:
		var out []ast.Expr
		for _, id := range s.Names {
			out = append(out, id)
		}
		return out
	}
	return nil
}

// enclosing returns the nearest ancestor of n (strictly above) satisfying pred, staying inside fn.
func (p *Program) enclosing(n ast.Node, fn ast.Node, pred func(ast.Node) bool) ast.Node {
	for cur := p.Parent(n); cur != nil; cur = p.Parent(cur) {
		if pred(cur) {
			return cur
		}
		if cur == fn {
			return nil
		}
	}
	return nil
}

// enclosingFuncNode returns the innermost FuncLit/FuncDecl containing n.
func (p *Program) enclosingFuncNode(n ast.Node) ast.Node {
	for cur := p.Parent(n); cur != nil; cur = p.Parent(cur) {
		switch cur.(type) {
		case *ast.FuncLit, *ast.FuncDecl:
			return cur
		}
	}
	return nil
}

// enclosingDecl returns the FuncInfo of the declaration containing n.
func (p *Program) enclosingDecl(n ast.Node) *FuncInfo {
	for cur := n; cur != nil; cur = p.Parent(cur) {
		if fd, ok := cur.(*ast.FuncDecl); ok {
			for _, pk := range p.Pkgs {
				if obj, ok := pk.TypesInfo.Defs[fd.Name].(*types.Func); ok {
					return p.byObj[obj]
				}
			}
		}
	}
	return nil
}

// inLoop reports whether n is inside a for/range statement within fn.
func (p *Program) inLoop(n ast.Node, fn ast.Node) bool {
	return p.enclosing(n, fn, func(x ast.Node) bool {
		switch x.(type) {
		case *ast.ForStmt, *ast.RangeStmt:
			return true
		}
		return false
	}) != nil
}

// terminates reports whether a statement list always leaves the enclosing
// sequence (return / panic / goto / continue / break as last statement).
func (p *Program) terminates(info *types.Info, list []ast.Stmt) bool {
	if len(list) == 0 {
		return false
	}
	switch s := list[len(list)-1].(type) {
	case *ast.ReturnStmt:
		return true
	case *ast.BranchStmt:
		return s.Tok != token.FALLTHROUGH
	case *ast.ExprStmt:
		if c, ok := s.X.(*ast.CallExpr); ok {
			return !p.mayReturn(info)(c)
		}
	case *ast.BlockStmt:
		return p.terminates(info, s.List)
	case *ast.IfStmt:
		if s.Else == nil {
			return false
		}
		var elseList []ast.Stmt
		switch e := s.Else.(type) {
		case *ast.BlockStmt:
			elseList = e.List
		default:
			elseList = []ast.Stmt{e}
		}
		return p.terminates(info, s.Body.List) && p.terminates(info, elseList)
	}
	return false
}

// namedOf unwraps pointers and returns the named type.
func namedOf(t types.Type) *types.Named {
	for {
		switch x := t.(type) {
		case *types.Pointer:
			t = x.Elem()
		case *types.Named:
			return x
		case *types.Alias:
			t = types.Unalias(x)
		default:
			return nil
		}
	}
}

func typeNameOf(t types.Type) string {
	if n := namedOf(t); n != nil {
		return n.Obj().Name()
	}
	return t.String()
}

// implementsError reports whether t (or *t) implements the error interface.
func implementsError(t types.Type) bool {
	errT := types.Universe.Lookup("error").Type().Underlying().(*types.Interface)
	return types.Implements(t, errT)
}

// expandExpr returns e with every identifier that names a local, single-assignment, side-effect-free definition
// replaced by that definition (recursively): `body := f.buf[f.headSize:]; Encode(body)` is judged as
// `Encode(f.buf[f.headSize:])`. New parent nodes carry no type information; leaves keep theirs.
func (p *Program) expandExpr(fi *FuncInfo, e ast.Expr, depth int) ast.Expr {
	if depth > 6 || e == nil {
		return e
	}
	info := fi.Pkg.TypesInfo
	switch x := e.(type) {
	case *ast.ParenExpr:
		return &ast.ParenExpr{X: p.expandExpr(fi, x.X, depth+1)}
	case *ast.Ident:
		obj := info.Uses[x]
		v, ok := obj.(*types.Var)
		if !ok || v.IsField() || v.Parent() == nil || v.Parent() == fi.Pkg.Types.Scope() {
			return e
		}
		// parameters are not expanded
		if fi.Obj != nil {
			sig := fi.Obj.Type().(*types.Signature)
			for i := 0; i < sig.Params().Len(); i++ {
				if sig.Params().At(i) == v {
					return e
				}
			}
		}
		if !singleAssigned(info, fi.Decl.Body, obj) {
			return e
		}
		d := localDef(info, fi, x)
		if d == nil || !pureExpr(info, d) {
			return e
		}
		return &ast.ParenExpr{X: p.expandExpr(fi, d, depth+1)}
	case *ast.BinaryExpr:
		return &ast.BinaryExpr{X: p.expandExpr(fi, x.X, depth+1), Op: x.Op, OpPos: x.OpPos, Y: p.expandExpr(fi, x.Y, depth+1)}
	case *ast.UnaryExpr:
		return &ast.UnaryExpr{Op: x.Op, OpPos: x.OpPos, X: p.expandExpr(fi, x.X, depth+1)}
	case *ast.IndexExpr:
		return &ast.IndexExpr{X: p.expandExpr(fi, x.X, depth+1), Lbrack: x.Lbrack, Index: p.expandExpr(fi, x.Index, depth+1), Rbrack: x.Rbrack}
	case *ast.SliceExpr:
		return &ast.SliceExpr{X: p.expandExpr(fi, x.X, depth+1), Low: p.expandExpr(fi, x.Low, depth+1), High: p.expandExpr(fi, x.High, depth+1), Max: p.expandExpr(fi, x.Max, depth+1), Slice3: x.Slice3}
	case *ast.SelectorExpr:
		return &ast.SelectorExpr{X: p.expandExpr(fi, x.X, depth+1), Sel: x.Sel}
	case *ast.CallExpr:
		n := &ast.CallExpr{Fun: x.Fun, Lparen: x.Lparen, Ellipsis: x.Ellipsis, Rparen: x.Rparen}
		for _, a := range x.Args {
			n.Args = append(n.Args, p.expandExpr(fi, a, depth+1))
		}
		return n
	}
	return e
}

// pureExpr: evaluating e has no side effect and does not depend on calls other than conversions, len and cap.
func pureExpr(info *types.Info, e ast.Expr) bool {
	pure := true
	ast.Inspect(e, func(n ast.Node) bool {
		switch x := n.(type) {
		case *ast.CallExpr:
			if tv, ok := info.Types[x.Fun]; ok && tv.IsType() {
				return true
			}
			if f := exprStr(x.Fun); f == "len" || f == "cap" {
				return true
			}
			pure = false
		case *ast.UnaryExpr:
			if x.Op == token.ARROW {
				pure = false
			}
		case *ast.FuncLit:
			pure = false
		}
		return true
	})
	return pure
}

// canonText renders e with local copies expanded, without spaces and redundant parentheses.
func (p *Program) canonText(fi *FuncInfo, e ast.Expr) string {
	s := exprStr(p.expandExpr(fi, e, 0))
	s = strings.ReplaceAll(s, " ", "")
	// drop parentheses around simple operands: (f.buf[1]) -> f.buf[1]
	for {
		changed := false
		for i := 0; i < len(s); i++ {
			if s[i] != '(' {
				continue
			}
			// find matching paren
			depth, j := 0, i
			for ; j < len(s); j++ {
				if s[j] == '(' {
					depth++
				} else if s[j] == ')' {
					depth--
					if depth == 0 {
						break
					}
				}
			}
			if j >= len(s) {
				break
			}
			inner := s[i+1 : j]
			simple := !strings.ContainsAny(inner, "+-*/%&|^<>=! ,")
			prevIdent := i > 0 && (isIdentChar(s[i-1]) || s[i-1] == ']' || s[i-1] == ')')
			if simple && !prevIdent {
				s = s[:i] + inner + s[j+1:]
				changed = true
				break
			}
		}
		if !changed {
			break
		}
	}
	return s
}

// sliceRegion resolves a byte-slice expression (through local copies) to its base variable and constant lower
// bound: buf[4:] and `block := buf[prefixSize:]` are both (buf, 4). hi is the canonical text of the upper
// bound ("" when open).
func (p *Program) sliceRegion(fi *FuncInfo, e ast.Expr) (base string, lo int64, hi string, ok bool) {
	info := fi.Pkg.TypesInfo
	e = ast.Unparen(p.expandExpr(fi, e, 0))
	for {
		pe, isP := e.(*ast.ParenExpr)
		if !isP {
			break
		}
		e = ast.Unparen(pe.X)
	}
	switch x := e.(type) {
	case *ast.Ident:
		return x.Name, 0, "", true
	case *ast.SelectorExpr:
		return exprStr(x), 0, "", true
	case *ast.SliceExpr:
		b, l0, _, okB := p.sliceRegion(fi, x.X)
		if !okB {
			return "", 0, "", false
		}
		if x.Low != nil {
			k, isK := constInt(info, ast.Unparen(stripParens(x.Low)))
			if !isK {
				return "", 0, "", false
			}
			l0 += k
		}
		h := ""
		if x.High != nil {
			h = strings.ReplaceAll(exprStr(x.High), " ", "")
		}
		return b, l0, h, true
	}
	return "", 0, "", false
}

func stripParens(e ast.Expr) ast.Expr {
	for {
		pe, ok := e.(*ast.ParenExpr)
		if !ok {
			return e
		}
		e = pe.X
	}
}

// constPlusIdent: e is <ident> + <const> (either order, constants folded): returns the identifier and the sum.
func constPlusIdent(info *types.Info, e ast.Expr) (string, int64, bool) {
	e = stripParens(e)
	if id, ok := e.(*ast.Ident); ok {
		if k, isK := constInt(info, id); isK {
			return "", k, true
		}
		return id.Name, 0, true
	}
	if k, ok := constInt(info, e); ok {
		return "", k, true
	}
	if b, ok := e.(*ast.BinaryExpr); ok && b.Op == token.ADD {
		n1, k1, ok1 := constPlusIdent(info, b.X)
		n2, k2, ok2 := constPlusIdent(info, b.Y)
		if ok1 && ok2 && (n1 == "" || n2 == "") {
			return n1 + n2, k1 + k2, true
		}
	}
	return "", 0, false
}

// expandLocalsAny is expandExpr without the purity requirement: every single-assignment local is replaced by its
// defining expression, also when that calls functions. Only for rules that look at the shape of a computation whose
// operands are values of an immutable object (a time.Time), where evaluation order does not matter.
func (p *Program) expandLocalsAny(fi *FuncInfo, e ast.Expr, depth int) ast.Expr {
	if depth > 6 || e == nil {
		return e
	}
	info := fi.Pkg.TypesInfo
	switch x := e.(type) {
	case *ast.ParenExpr:
		return &ast.ParenExpr{X: p.expandLocalsAny(fi, x.X, depth+1)}
	case *ast.Ident:
		v, ok := info.Uses[x].(*types.Var)
		if !ok || v.IsField() || v.Parent() == nil || v.Parent() == fi.Pkg.Types.Scope() {
			return e
		}
		if !singleAssigned(info, fi.Decl.Body, v) {
			return e
		}
		d := localDef(info, fi, x)
		if d == nil {
			return e
		}
		return &ast.ParenExpr{X: p.expandLocalsAny(fi, d, depth+1)}
	case *ast.BinaryExpr:
		return &ast.BinaryExpr{X: p.expandLocalsAny(fi, x.X, depth+1), Op: x.Op, OpPos: x.OpPos, Y: p.expandLocalsAny(fi, x.Y, depth+1)}
	case *ast.UnaryExpr:
		return &ast.UnaryExpr{Op: x.Op, OpPos: x.OpPos, X: p.expandLocalsAny(fi, x.X, depth+1)}
	case *ast.CallExpr:
		n := &ast.CallExpr{Fun: x.Fun, Lparen: x.Lparen, Ellipsis: x.Ellipsis, Rparen: x.Rparen}
		for _, a := range x.Args {
			n.Args = append(n.Args, p.expandLocalsAny(fi, a, depth+1))
		}
		return n
	}
	return e
}

// derefType strips one pointer level.
func derefType(t types.Type) types.Type {
	if t == nil {
		return types.Typ[types.Invalid]
	}
	if pt, ok := t.Underlying().(*types.Pointer); ok {
		return pt.Elem()
	}
	return t
}
