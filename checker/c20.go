package main

import (
	"go/ast"
	"go/parser"
	"go/token"
	"go/types"
	"regexp"
	"sort"
	"strings"
)

func init() {
	register(&PropertySpec{
		ID: "C20",
		Explanation: "Structural necessary conditions of 'TLS verification and credential disclosure are exactly as documented': R1 for each of the six rows of the documented table (both copies must agree) a path-sensitive constant propagation of setupTLSConfig with the row's inputs yields the row's InsecureSkipVerify result at every return; R2 every store to a field of a *tls.Config targets a config created (literal / Clone) in the same function on every path; " +
			"R3 ServerName is set only under !InsecureSkipVerify && ServerName==\"\" from the dialled address; R4 failures of reading/parsing CA and key-pair files return non-nil errors, which connConfig and NewSession propagate; R5 PasswordAuthenticator.Challenge returns a token only after approve() accepted the server's authenticator class, and approve falls back to the default list only when the custom list is empty; R6 a session is authenticated unless the server said READY: startup returns nil only for READY, authenticateHandshake refuses a missing authenticator first and returns nil only on AUTH_SUCCESS." +
			" R2 also covers fields of the *tls.Config embedded in SslOptions (promoted selectors); R7 the default dialer hands WrapTLS the host's name (HostnameAndPort) for the ServerName, not the address it dialled." +
			" R4 also: a success return that did not load the client key pair knows both CertPath and KeyPath to be empty.",
		NotDecided: "the SASL PLAIN byte layout of the token (value-level); behaviour of crypto/tls itself; certificate contents; what user-supplied authenticators disclose.",
		Rules: []*Rule{
			{ID: "C20.R1", Floor: 7, Doc: "documented TLS table (doc.go, conn.go, setupTLSConfig comment) agrees and is implemented: constant propagation per row", Run: c20r1},
			{ID: "C20.R2", Floor: 4, Doc: "stores to *tls.Config fields only on configs created in the same function", Run: c20r2},
			{ID: "C20.R3", Floor: 1, Doc: "ServerName set only when verifying without an explicit name, from the dialled address", Run: c20r3},
			{ID: "C20.R4", Floor: 5, Doc: "CA / key-pair file errors are returned and propagated", Run: c20r4},
			{ID: "C20.R5", Floor: 2, Doc: "password token only after approve(); default list only when the custom list is empty", Run: c20r5},
			{ID: "C20.R6", Floor: 3, Doc: "no unauthenticated session: nil only for READY / AUTH_SUCCESS; missing authenticator refused first", Run: c20r6},
			{ID: "C20.R9", Floor: 1, Doc: "every defaultHostDialer the connection configuration builds carries the TLS configuration derived from SslOpts", Run: c20DialerKeepsTLS},
			{ID: "C20.R8", Floor: 1, Doc: "a CA file that was read is always handed to AppendCertsFromPEM before setupTLSConfig succeeds", Run: c20r8},
			{ID: "C20.R7", Floor: 1, Doc: "the name the server certificate is verified against is the host's name (HostnameAndPort), not the address that was dialled", Run: c20r7},
		},
	})
}

type tlsRow struct {
	cfgNil, isv, ehv, verify bool
}

var tlsRowRe = regexp.MustCompile(`(Config is nil|false|true)\s*\|\s*(false|true)\s*\|\s*(do not verify host|verify host)`)

func parseTLSTables(p *Program) map[string][]tlsRow {
	out := map[string][]tlsRow{}
	for _, f := range p.Root.Syntax {
		for _, cg := range f.Comments {
			var rows []tlsRow
			for _, c := range cg.List {
				m := tlsRowRe.FindStringSubmatch(c.Text)
				if m == nil {
					continue
				}
				rows = append(rows, tlsRow{cfgNil: m[1] == "Config is nil", isv: m[1] == "true", ehv: m[2] == "true", verify: m[3] == "verify host"})
			}
			if len(rows) > 0 {
				out[p.Pos(cg)] = rows
			}
		}
	}
	return out
}

// tri-state booleans for the constant propagation
type tri int

const (
	triUnknown tri = iota
	triFalse
	triTrue
)

func triOf(b bool) tri {
	if b {
		return triTrue
	}
	return triFalse
}

func (t tri) not() tri {
	switch t {
	case triTrue:
		return triFalse
	case triFalse:
		return triTrue
	}
	return triUnknown
}

// tlsInterp interprets setupTLSConfig for one table row. The abstract store maps source expressions to tri values:
// "<opts>.Config==nil", "<opts>.EnableHostVerification", "<opts>.Config.InsecureSkipVerify" and, for local configs,
// "<var>.InsecureSkipVerify".
type tlsInterp struct {
	p     *Program
	depth int
	cret  []tri // helper mode: InsecureSkipVerify of the *tls.Config returned at each return reached
	info  *types.Info
	store map[string]tri
	rets  []tri // InsecureSkipVerify of the returned config at each non-error return reached
	bad   []string
	cfgOf map[string]string // local var -> "fresh" | "clone:<src>"
}

func (ti *tlsInterp) eval(e ast.Expr) tri {
	e = ast.Unparen(e)
	switch x := e.(type) {
	case *ast.Ident:
		if x.Name == "true" {
			return triTrue
		}
		if x.Name == "false" {
			return triFalse
		}
		if v, ok := ti.store[x.Name]; ok {
			return v
		}
	case *ast.UnaryExpr:
		if x.Op == token.NOT {
			return ti.eval(x.X).not()
		}
	case *ast.BinaryExpr:
		switch x.Op {
		case token.LAND:
			l, r := ti.eval(x.X), ti.eval(x.Y)
			if l == triFalse || r == triFalse {
				return triFalse
			}
			if l == triTrue && r == triTrue {
				return triTrue
			}
			return triUnknown
		case token.LOR:
			l, r := ti.eval(x.X), ti.eval(x.Y)
			if l == triTrue || r == triTrue {
				return triTrue
			}
			if l == triFalse && r == triFalse {
				return triFalse
			}
			return triUnknown
		case token.EQL, token.NEQ:
			var v tri = triUnknown
			if isNil(ti.info, x.Y) {
				v = ti.store[exprStr(x.X)+"==nil"]
			} else if isNil(ti.info, x.X) {
				v = ti.store[exprStr(x.Y)+"==nil"]
			} else {
				l, r := ti.eval(x.X), ti.eval(x.Y)
				if l != triUnknown && r != triUnknown {
					v = triOf(l == r)
				}
			}
			if x.Op == token.NEQ {
				return v.not()
			}
			return v
		}
	case *ast.SelectorExpr:
		if v, ok := ti.store[exprStr(x)]; ok {
			return v
		}
	}
	return triUnknown
}

// exec interprets a statement list; returns false when all paths returned.
func (ti *tlsInterp) exec(stmts []ast.Stmt) bool {
	for _, s := range stmts {
		switch x := s.(type) {
		case *ast.DeclStmt:
			// var ( name = value ... ): like an assignment
			if gd, isGD := x.Decl.(*ast.GenDecl); isGD && gd.Tok == token.VAR {
				for _, sp := range gd.Specs {
					if vs, isVS := sp.(*ast.ValueSpec); isVS && len(vs.Names) == len(vs.Values) {
						ti.helperWrites(x)
						for i, nm := range vs.Names {
							ti.assign(nm, vs.Values[i])
						}
					}
				}
			}
		case *ast.AssignStmt:
			for i, l := range x.Lhs {
				if i >= len(x.Rhs) {
					break
				}
				ti.assign(l, x.Rhs[i])
			}
		case *ast.IfStmt:
			if x.Init != nil {
				ti.helperWrites(x.Init)
				ti.exec([]ast.Stmt{x.Init})
			}
			c := ti.eval(x.Cond)
			switch c {
			case triTrue:
				if !ti.exec(x.Body.List) {
					return false
				}
			case triFalse:
				if x.Else != nil {
					var l []ast.Stmt
					if b, ok := x.Else.(*ast.BlockStmt); ok {
						l = b.List
					} else {
						l = []ast.Stmt{x.Else}
					}
					if !ti.exec(l) {
						return false
					}
				}
			default:
				// unknown condition: both branches, on copies of the store; must agree on the tracked values afterwards
				save := ti.snapshot()
				contT := ti.exec(x.Body.List)
				afterT := ti.snapshot()
				ti.restore(save)
				contE := true
				if x.Else != nil {
					var l []ast.Stmt
					if b, ok := x.Else.(*ast.BlockStmt); ok {
						l = b.List
					} else {
						l = []ast.Stmt{x.Else}
					}
					contE = ti.exec(l)
				}
				afterE := ti.snapshot()
				switch {
				case contT && contE:
					ti.restore(mergeStores(afterT, afterE))
				case contT:
					ti.restore(afterT)
				case contE:
					ti.restore(afterE)
				default:
					return false
				}
			}
		case *ast.ReturnStmt:
			if len(x.Results) == 2 && isNil(ti.info, x.Results[1]) {
				ti.rets = append(ti.rets, ti.configISV(x.Results[0]))
			}
			if len(x.Results) == 1 && isTLSConfigPtr(ti.info.TypeOf(x.Results[0])) {
				ti.cret = append(ti.cret, ti.configISV(x.Results[0]))
			}
			return false
		case *ast.ExprStmt, *ast.IncDecStmt:
			ti.helperWrites(s)
		default:
			// loops/switches: not expected in the decision part; any write to a tracked value inside makes it unknown
			ast.Inspect(s, func(n ast.Node) bool {
				if as, ok := n.(*ast.AssignStmt); ok {
					for _, l := range as.Lhs {
						if strings.HasSuffix(exprStr(l), ".InsecureSkipVerify") {
							ti.store[exprStr(l)] = triUnknown
						}
					}
				}
				return true
			})
		}
	}
	return true
}

// configISV: the InsecureSkipVerify of the config expression e (a variable, or a helper call that returns one).
func (ti *tlsInterp) configISV(e ast.Expr) tri {
	if v, ok := ti.configValue(ast.Unparen(e)); ok {
		return v
	}
	return ti.store[exprStr(e)+".InsecureSkipVerify"]
}

// configValue: the InsecureSkipVerify of a config-producing expression: a helper call, a literal, a Clone().
func (ti *tlsInterp) configValue(r ast.Expr) (tri, bool) {
	// helper(...): a function of this package that builds / returns the config
	if c, ok := r.(*ast.CallExpr); ok {
		if v, handled := ti.callConfig(c); handled {
			return v, true
		}
	}
	// &tls.Config{InsecureSkipVerify: e}
	if u, ok := r.(*ast.UnaryExpr); ok && u.Op == token.AND {
		if cl, ok := ast.Unparen(u.X).(*ast.CompositeLit); ok {
			v := triFalse // zero value
			for _, el := range cl.Elts {
				if kv, ok := el.(*ast.KeyValueExpr); ok && exprStr(kv.Key) == "InsecureSkipVerify" {
					v = ti.eval(kv.Value)
				}
			}
			return v, true
		}
	}
	// X.Clone()
	if c, ok := r.(*ast.CallExpr); ok {
		if sel, ok := ast.Unparen(c.Fun).(*ast.SelectorExpr); ok && sel.Sel.Name == "Clone" {
			return ti.store[exprStr(sel.X)+".InsecureSkipVerify"], true
		}
	}
	return triUnknown, false
}

// callConfig interprets a call of a function of this package that returns a *tls.Config: its body is
// interpreted with the caller's knowledge about the arguments.
func (ti *tlsInterp) callConfig(c *ast.CallExpr) (tri, bool) {
	if ti.p == nil || ti.depth > 2 {
		return triUnknown, false
	}
	fn := calleeOf(ti.info, c)
	if fn == nil {
		return triUnknown, false
	}
	callee := ti.p.FuncOf(fn)
	if callee == nil || callee.Pkg != ti.p.Root || callee.Decl.Body == nil {
		return triUnknown, false
	}
	sub := &tlsInterp{p: ti.p, depth: ti.depth + 1, info: ti.info, store: map[string]tri{}}
	k := 0
	for _, pf := range callee.Decl.Type.Params.List {
		for _, pn := range pf.Names {
			if k < len(c.Args) {
				a := exprStr(ast.Unparen(c.Args[k]))
				for key, v := range ti.store {
					if key == a || strings.HasPrefix(key, a+".") || strings.HasPrefix(key, a+"==") {
						sub.store[pn.Name+strings.TrimPrefix(key, a)] = v
					}
				}
			}
			k++
		}
	}
	sub.exec(callee.Decl.Body.List)
	if len(sub.cret) == 0 {
		return triUnknown, false
	}
	v := sub.cret[0]
	for _, o := range sub.cret[1:] {
		if o != v {
			v = triUnknown
		}
	}
	return v, true
}

func (ti *tlsInterp) snapshot() map[string]tri {
	m := map[string]tri{}
	for k, v := range ti.store {
		m[k] = v
	}
	return m
}

func (ti *tlsInterp) restore(m map[string]tri) { ti.store = m }

func mergeStores(a, b map[string]tri) map[string]tri {
	m := map[string]tri{}
	for k, v := range a {
		if b[k] == v {
			m[k] = v
		} else {
			m[k] = triUnknown
		}
	}
	return m
}

func (ti *tlsInterp) assign(l, r ast.Expr) {
	ls := exprStr(l)
	// a field promoted through an embedded *tls.Config: spell the path out
	if sel, ok := ast.Unparen(l).(*ast.SelectorExpr); ok && sel.Sel.Name == "InsecureSkipVerify" {
		if s := ti.info.Selections[sel]; s != nil && len(s.Index()) > 1 && !isTLSConfigPtr(ti.info.TypeOf(sel.X)) {
			ls = exprStr(sel.X) + ".Config.InsecureSkipVerify"
		}
	}
	r = ast.Unparen(r)
	if strings.HasSuffix(ls, ".InsecureSkipVerify") {
		ti.store[ls] = ti.eval(r)
		return
	}
	id, ok := ast.Unparen(l).(*ast.Ident)
	if !ok {
		return
	}
	if t := ti.info.TypeOf(l); t != nil {
		if b, isB := t.Underlying().(*types.Basic); isB && b.Kind() == types.Bool {
			ti.store[id.Name] = ti.eval(r) // a boolean local
			return
		}
	}
	if typeNameOf(ti.info.TypeOf(l)) != "Config" {
		return
	}
	if v, ok := ti.configValue(r); ok {
		ti.store[id.Name+".InsecureSkipVerify"] = v
		return
	}
	// var = other var / expression of type *tls.Config
	if v, ok := ti.store[exprStr(r)+".InsecureSkipVerify"]; ok {
		ti.store[id.Name+".InsecureSkipVerify"] = v
		return
	}
	ti.store[id.Name+".InsecureSkipVerify"] = triUnknown
}

func c20r1(p *Program, r *Report) {
	tables := parseTLSTables(p)
	var keys []string
	for k := range tables {
		keys = append(keys, k)
	}
	sort.Strings(keys)
	if len(keys) < 2 {
		r.Unresolved("expected the documented TLS table in doc.go and conn.go, found %d copies", len(keys))
		return
	}
	canon := func(rows []tlsRow) string {
		var s []string
		for _, x := range rows {
			s = append(s, strings.Join([]string{b2s(x.cfgNil), b2s(x.isv), b2s(x.ehv), b2s(x.verify)}, ","))
		}
		sort.Strings(s)
		return strings.Join(s, ";")
	}
	ref := tables[keys[0]]
	for _, k := range keys {
		r.Check(len(tables[k]) == 6 && canon(tables[k]) == canon(ref), nil, "documented TLS table at "+strings.Split(k, ":")[0]+" has six rows and agrees with the other copies", "same six rows",
			"the copies of the documented SslOptions/InsecureSkipVerify table disagree (or a row is missing): "+k)
	}
	fi := r.NeedFunc("setupTLSConfig")
	if fi == nil {
		return
	}
	info := fi.Pkg.TypesInfo
	opts := "sslOpts"
	if po := paramObj(info, fi.Decl.Type, 0); po != nil {
		opts = po.Name()
	}
	for _, row := range ref {
		ti := &tlsInterp{p: p, info: info, store: map[string]tri{
			opts + ".Config==nil":               triOf(row.cfgNil),
			opts + ".EnableHostVerification":    triOf(row.ehv),
			opts + ".Config.InsecureSkipVerify": triOf(row.isv),
			opts + ".CaPath==nil":               triFalse,
		}}
		ti.exec(fi.Decl.Body.List)
		name := "setupTLSConfig row Config=" + ifs(row.cfgNil, "nil", "{InsecureSkipVerify:"+b2s(row.isv)+"}") + " EnableHostVerification=" + b2s(row.ehv)
		want := triOf(!row.verify)
		ok := len(ti.rets) > 0
		got := ""
		for _, v := range ti.rets {
			if v != want {
				ok = false
			}
			got += map[tri]string{triUnknown: "unknown", triFalse: "verify", triTrue: "skip-verify"}[v] + " "
		}
		r.Check(ok, fi.Decl, name, "every successful return has InsecureSkipVerify="+b2s(!row.verify)+" ("+ifs(row.verify, "verify host", "do not verify host")+")",
			"for this row of the documented table the returned config has InsecureSkipVerify: "+got+"- documented result: "+ifs(row.verify, "verify host", "do not verify host"))
	}
}

func b2s(b bool) string {
	if b {
		return "true"
	}
	return "false"
}

func isTLSConfigPtr(t types.Type) bool {
	pt, ok := t.(*types.Pointer)
	if !ok {
		return false
	}
	nt := namedOf(pt.Elem())
	return nt != nil && nt.Obj().Name() == "Config" && nt.Obj().Pkg() != nil && nt.Obj().Pkg().Path() == "crypto/tls"
}

// freshConfigs solves, for fi, which local *tls.Config variables hold a config created by the driver (literal,
// Clone, or a helper of this package that returns such a config) on every path.
func freshConfigs(p *Program, fi *FuncInfo, depth int) *Solution[strset] {
	g := p.GraphOf(fi)
	info := g.Info
	return Solve(g, Lattice[strset]{
		Init: strset{}, Join: func(a, b strset) strset { return a.intersect(b) }, Eq: func(a, b strset) bool { return a.eq(b) },
		Step: func(s strset, st Step) strset {
			if st.Kind != StNode {
				return s
			}
			as, ok := st.Node.(*ast.AssignStmt)
			if !ok || len(as.Lhs) != len(as.Rhs) {
				if vs, ok := st.Node.(*ast.ValueSpec); ok {
					for _, nm := range vs.Names {
						s = s.without(nm.Name)
					}
				}
				return s
			}
			for i, l := range as.Lhs {
				id, ok := l.(*ast.Ident)
				if !ok {
					continue
				}
				if t := info.TypeOf(l); t == nil || !isTLSConfigPtr(t) {
					continue
				}
				if isFreshConfigExpr(p, info, as.Rhs[i], depth) {
					s = s.with(id.Name)
				} else {
					s = s.without(id.Name)
				}
			}
			return s
		},
	})
}

func isFreshConfigExpr(p *Program, info *types.Info, e ast.Expr, depth int) bool {
	rhs := ast.Unparen(e)
	if u, ok := rhs.(*ast.UnaryExpr); ok && u.Op == token.AND {
		_, isLit := ast.Unparen(u.X).(*ast.CompositeLit)
		return isLit
	}
	c, ok := rhs.(*ast.CallExpr)
	if !ok {
		return false
	}
	if calleeName(info, c) == "tls.(*Config).Clone" {
		return true
	}
	// a helper of this package every return of which is a fresh config
	if fn := calleeOf(info, c); fn != nil && depth < 2 {
		if h := p.FuncOf(fn); h != nil && h.Pkg == p.Root && h.Decl.Body != nil {
			hf := freshConfigs(p, h, depth+1)
			nret, all := 0, true
			for _, ex := range p.GraphOf(h).Exits() {
				rs, isR := ex.Node.(*ast.ReturnStmt)
				if !isR || len(rs.Results) == 0 || !isTLSConfigPtr(h.Pkg.TypesInfo.TypeOf(rs.Results[0])) {
					continue
				}
				if isNil(h.Pkg.TypesInfo, rs.Results[0]) {
					continue
				}
				nret++
				s, _ := hf.Before(rs)
				id, isId := ast.Unparen(rs.Results[0]).(*ast.Ident)
				if !(isId && s[id.Name]) && !isFreshConfigExpr(p, h.Pkg.TypesInfo, rs.Results[0], depth+1) {
					all = false
				}
			}
			return nret > 0 && all
		}
	}
	return false
}

func c20r2(p *Program, r *Report) {
	n := 0
	p.forEachFunc(false, func(fi *FuncInfo) {
		info := fi.Pkg.TypesInfo
		var stores []*ast.AssignStmt
		ast.Inspect(fi.Decl.Body, func(x ast.Node) bool {
			as, ok := x.(*ast.AssignStmt)
			if !ok {
				return true
			}
			for _, l := range as.Lhs {
				if sel, ok := ast.Unparen(l).(*ast.SelectorExpr); ok {
					if t := info.TypeOf(sel.X); t != nil && isTLSConfigPtr(t) && fieldOf(info, sel) != nil {
						stores = append(stores, as)
					} else if isTLSConfigField(fieldOf(info, sel)) {
						stores = append(stores, as) // promoted through an embedded *tls.Config
					}
				}
			}
			return true
		})
		if len(stores) == 0 {
			return
		}
		fresh := freshConfigs(p, fi, 0)
		for _, as := range stores {
			for _, l := range as.Lhs {
				sel, ok := ast.Unparen(l).(*ast.SelectorExpr)
				if !ok {
					continue
				}
				if !isTLSConfigPtr(info.TypeOf(sel.X)) {
					if isTLSConfigField(fieldOf(info, sel)) {
						n++
						r.Bad(as, fi.Name+" writes "+exprStr(l), "a field of the *tls.Config embedded in "+exprStr(sel.X)+" is written: that is the caller's own (possibly shared) configuration - verification settings leak between clusters and into the application's config")
					}
					continue
				}
				n++
				s, _ := fresh.Before(as)
				id, isId := ast.Unparen(sel.X).(*ast.Ident)
				okFresh := isId && s[id.Name]
				if !okFresh && isId && fi.Obj != nil && !fi.Obj.Exported() {
					// a parameter of a private helper: every caller hands over a config it created itself
					sig := fi.Obj.Type().(*types.Signature)
					for pi := 0; pi < sig.Params().Len(); pi++ {
						if sig.Params().At(pi) != info.Uses[id] || !neverAssigned(info, fi.Decl.Body, info.Uses[id]) {
							continue
						}
						nsite, all := 0, !p.usedAsValue(fi)
						for _, caller := range p.SortedFuncs() {
							if caller.Decl.Body == nil {
								continue
							}
							var cf *Solution[strset]
							for _, c := range callsIn(caller.Decl.Body) {
								if fn := calleeOf(caller.Pkg.TypesInfo, c); fn == nil || p.FuncOf(fn) != fi || pi >= len(c.Args) {
									continue
								}
								nsite++
								if cf == nil {
									cf = freshConfigs(p, caller, 0)
								}
								cs, _ := cf.Before(p.stmtOf(c, caller))
								aid, isA := ast.Unparen(c.Args[pi]).(*ast.Ident)
								if !(isA && cs[aid.Name]) && !isFreshConfigExpr(p, caller.Pkg.TypesInfo, c.Args[pi], 0) {
									all = false
								}
							}
						}
						okFresh = nsite > 0 && all
					}
				}
				r.Check(okFresh, as, fi.Name+" writes "+exprStr(l), "the config was created (literal or Clone) in this function on every path, or by every caller of this helper",
					"a field of a *tls.Config that was not created in this function is written: the caller's own (shared) configuration is modified - verification settings leak between connections and into the application's config")
			}
		}
	})
	if n == 0 {
		r.Unresolved("no store to a *tls.Config field found")
	}
}

func c20r3(p *Program, r *Report) {
	n := 0
	p.forEachFunc(false, func(fi *FuncInfo) {
		info := fi.Pkg.TypesInfo
		ast.Inspect(fi.Decl.Body, func(x ast.Node) bool {
			as, ok := x.(*ast.AssignStmt)
			if !ok || len(as.Lhs) != 1 {
				return true
			}
			sel, ok := ast.Unparen(as.Lhs[0]).(*ast.SelectorExpr)
			if !ok || sel.Sel.Name != "ServerName" || !isTLSConfigPtr(info.TypeOf(sel.X)) {
				return true
			}
			n++
			ifStmt, _ := p.enclosing(as, fi.Decl, func(m ast.Node) bool { _, ok := m.(*ast.IfStmt); return ok }).(*ast.IfStmt)
			condOK := false
			if ifStmt != nil && posWithin(ifStmt.Body, as.Pos()) {
				var atoms []string
				var split func(e ast.Expr)
				split = func(e ast.Expr) {
					e = ast.Unparen(e)
					if b, ok := e.(*ast.BinaryExpr); ok && b.Op == token.LAND {
						split(b.X)
						split(b.Y)
						return
					}
					atoms = append(atoms, exprStr(e))
				}
				split(ifStmt.Cond)
				hasISV, hasName := false, false
				for _, a := range atoms {
					if strings.HasPrefix(a, "!") && strings.HasSuffix(a, ".InsecureSkipVerify") {
						hasISV = true
					}
					if strings.HasSuffix(a, `.ServerName == ""`) {
						hasName = true
					}
				}
				condOK = hasISV && hasName
			}
			if !condOK {
				// the same guard as early return: known facts at the assignment
				f, _ := p.GraphOf(fi).GuardFacts().Before(as)
				noSkip, noName := false, false
				for atom, v := range f.m {
					if strings.HasSuffix(atom, ".InsecureSkipVerify") && !v {
						noSkip = true
					}
					if (strings.HasSuffix(atom, `.ServerName == ""`) || strings.HasPrefix(atom, `"" == `) && strings.HasSuffix(atom, ".ServerName")) && v {
						noName = true
					}
				}
				condOK = noSkip && noName
			}
			r.Check(condOK, as, fi.Name+" sets ServerName only when verifying without an explicit name", `under !InsecureSkipVerify && ServerName == ""`,
				"ServerName is assigned without the guard !InsecureSkipVerify && ServerName == \"\": an explicit name is overwritten, or verification state is ignored")
			// value derives from the address parameter (directly, or through one local definition)
			fromAddr := false
			isStrParam := func(e ast.Expr) bool {
				root := rootIdent(e)
				if root == nil {
					return false
				}
				v, ok := info.Uses[root].(*types.Var)
				if !ok {
					return false
				}
				sig := fi.Obj.Type().(*types.Signature)
				for i := 0; i < sig.Params().Len(); i++ {
					if sig.Params().At(i) == v && types.Identical(v.Type(), types.Typ[types.String]) {
						return true
					}
				}
				return false
			}
			// derived: the address parameter, a slice of it, or a string helper of this package applied to it
			derived := func(e ast.Expr) bool {
				e = ast.Unparen(e)
				if isStrParam(e) {
					return true
				}
				if c, ok := e.(*ast.CallExpr); ok {
					if fn := calleeOf(info, c); fn != nil {
						if h := p.FuncOf(fn); h != nil && h.Pkg == p.Root {
							for _, a := range c.Args {
								if isStrParam(a) {
									return true
								}
							}
						}
					}
				}
				return false
			}
			if derived(as.Rhs[0]) {
				fromAddr = true
			} else if id, ok := ast.Unparen(as.Rhs[0]).(*ast.Ident); ok {
				ndef, nok := 0, 0
				ast.Inspect(fi.Decl.Body, func(m ast.Node) bool {
					if a2, ok := m.(*ast.AssignStmt); ok && len(a2.Lhs) == len(a2.Rhs) {
						for i2, l2 := range a2.Lhs {
							if lid, isId := l2.(*ast.Ident); isId && (info.Defs[lid] == info.Uses[id] || info.Uses[lid] == info.Uses[id]) {
								ndef++
								if derived(a2.Rhs[i2]) {
									nok++
								}
							}
						}
					}
					return true
				})
				fromAddr = ndef > 0 && ndef == nok
			}
			r.Check(fromAddr, as, fi.Name+" derives ServerName from the dialled address", "host part of the addr parameter", "the server name used for verification is not derived from the address being dialled")
			return true
		})
	})
	if n == 0 {
		r.Unresolved("no assignment to tls.Config.ServerName")
	}
}

// errorReturnsOnFailure: for the call c (assigned via AssignStmt or if-init) with an error result checked by
// `if err != nil`, the error branch returns a non-nil last result.
func errorBranchReturnsErr(p *Program, fi *FuncInfo, c *ast.CallExpr) (bool, string) {
	info := fi.Pkg.TypesInfo
	// the variable the call's error is bound to
	errName := ""
	if fn := calleeOf(info, c); fn != nil {
		if sig, isSig := fn.Type().(*types.Signature); isSig && sig.Results().Len() > 0 {
			errName = resultVarOf(p, c, sig.Results().Len()-1)
		}
	}
	if errName == "" || errName == "_" {
		return false, "the error result is never checked"
	}
	def := p.stmtOf(c, fi)
	// errNil: what the branch condition e, having come out val, says about errName == nil (1 nil, -1 not nil, 0 nothing)
	var errNil func(e ast.Expr, val bool) int
	errNil = func(e ast.Expr, val bool) int {
		e = ast.Unparen(e)
		switch x := e.(type) {
		case *ast.UnaryExpr:
			if x.Op == token.NOT {
				return errNil(x.X, !val)
			}
		case *ast.BinaryExpr:
			switch x.Op {
			case token.LAND:
				if val {
					if k := errNil(x.X, true); k != 0 {
						return k
					}
					return errNil(x.Y, true)
				}
			case token.LOR:
				if !val {
					if k := errNil(x.X, false); k != 0 {
						return k
					}
					return errNil(x.Y, false)
				}
			case token.EQL, token.NEQ:
				var o ast.Expr
				if isNil(info, x.Y) {
					o = x.X
				} else if isNil(info, x.X) {
					o = x.Y
				}
				if id, isId := ast.Unparen(o).(*ast.Ident); o != nil && isId && id.Name == errName {
					if val == (x.Op == token.EQL) {
						return 1
					}
					return -1
				}
			}
		}
		return 0
	}
	// 0: not yet called / error known nil, 1: the call's error may be non-nil and has not been reported,
	// 2: it was overwritten while pending
	g := p.GraphOf(fi)
	sol := Solve(g, Lattice[int]{
		Join: func(a, b int) int {
			if a > b {
				return a
			}
			return b
		},
		Eq: func(a, b int) bool { return a == b },
		Step: func(s int, st Step) int {
			switch st.Kind {
			case StCond:
				if s == 1 && errNil(st.Node.(ast.Expr), st.Val) == 1 {
					return 0
				}
			case StNode:
				if st.Node == ast.Node(def) {
					if s == 2 {
						return 2
					}
					return 1
				}
				if s == 1 {
					for _, l := range assignedLHS(st.Node) {
						if id, isId := l.(*ast.Ident); isId && id.Name == errName {
							return 2
						}
					}
				}
			}
			return s
		},
	})
	checked := false
	ast.Inspect(fi.Decl.Body, func(n ast.Node) bool {
		if ifs, isIf := n.(*ast.IfStmt); isIf && errNil(ifs.Cond, true) != 0 {
			checked = true
		}
		return true
	})
	if !checked {
		return false, "the error result is never checked"
	}
	ok, why := true, ""
	nexit := 0
	for _, e := range g.Exits() {
		if e.Kind == ExitPanic {
			continue
		}
		s, reach := sol.Before(e.Node)
		if e.Node == nil {
			s, reach = sol.AtExit(e)
		}
		if !reach || s == 0 {
			continue
		}
		nexit++
		if s == 2 {
			ok, why = false, "the error is overwritten before it is examined"
			continue
		}
		rs, isRet := e.Node.(*ast.ReturnStmt)
		if !isRet || len(rs.Results) == 0 {
			ok, why = false, "a path ends without returning the error"
			continue
		}
		if isNil(info, rs.Results[len(rs.Results)-1]) {
			ok, why = false, "the error branch returns a nil error"
		}
	}
	if nexit == 0 {
		return false, "the error branch does not return"
	}
	return ok, why
}

func c20r4(p *Program, r *Report) {
	fi := r.NeedFunc("setupTLSConfig")
	if fi == nil {
		return
	}
	info := fi.Pkg.TypesInfo
	n := 0
	top := fi
	for _, fi := range p.unitsOf(top) {
		fi := fi
		// a helper's error must in turn be returned by setupTLSConfig
		if fi != top {
			for _, c := range callsIn(top.Decl.Body) {
				if fn := calleeOf(info, c); fn != nil && p.FuncOf(fn) == fi {
					sig := fn.Type().(*types.Signature)
					if sig.Results().Len() > 0 && isErrorType(sig.Results().At(sig.Results().Len()-1).Type()) {
						ok, why := errorBranchReturnsErr(p, top, c)
						r.Check(ok, c, "setupTLSConfig reports a failing "+fi.Name, "error returned", "a failure of "+fi.Name+" is not returned as an error ("+why+"): the session connects without the CA / client certificate the user configured")
					}
				}
			}
		}
		ast.Inspect(fi.Decl.Body, func(x ast.Node) bool {
			c, ok := x.(*ast.CallExpr)
			if !ok {
				return true
			}
			switch name := calleeName(info, c); name {
			case "ioutil.ReadFile", "os.ReadFile", "tls.LoadX509KeyPair":
				n++
				ok, why := errorBranchReturnsErr(p, fi, c)
				r.Check(ok, c, "setupTLSConfig reports a failing "+name, "error returned", "a failure of "+name+" is not returned as an error ("+why+"): the session connects without the CA / client certificate the user configured")
			case "x509.(*CertPool).AppendCertsFromPEM":
				n++
				// `if !pool.AppendCertsFromPEM(pem) { return nil, err }`
				okRet := false
				returnsErr := func(ifs *ast.IfStmt) bool {
					if len(ifs.Body.List) == 0 {
						return false
					}
					rs, ok := ifs.Body.List[len(ifs.Body.List)-1].(*ast.ReturnStmt)
					return ok && len(rs.Results) >= 1 && !isNil(info, rs.Results[len(rs.Results)-1])
				}
				if u, ok := p.Parent(c).(*ast.UnaryExpr); ok && u.Op == token.NOT {
					if ifs, ok := p.Parent(u).(*ast.IfStmt); ok && ast.Unparen(ifs.Cond) == ast.Expr(u) && returnsErr(ifs) {
						okRet = true
					}
				}
				// `ok := pool.AppendCertsFromPEM(pem)` ... `if !ok { return err }` (ok assigned once)
				if as, ok := p.Parent(c).(*ast.AssignStmt); ok && len(as.Lhs) == 1 && len(as.Rhs) == 1 {
					if bid, isId := as.Lhs[0].(*ast.Ident); isId && info.Defs[bid] != nil && singleAssigned(info, fi.Decl.Body, info.Defs[bid]) {
						ast.Inspect(fi.Decl.Body, func(m ast.Node) bool {
							if ifs, isIf := m.(*ast.IfStmt); isIf && (ifs.Init == ast.Stmt(as) || ifs.Pos() > as.End()) {
								if u, isU := ast.Unparen(ifs.Cond).(*ast.UnaryExpr); isU && u.Op == token.NOT && isIdentOf(info, u.X, info.Defs[bid]) && returnsErr(ifs) {
									okRet = true
								}
							}
							return true
						})
					}
				}
				r.Check(okRet, c, "setupTLSConfig reports an unparsable CA file", "error returned when no certificate could be parsed", "an unparsable CA file is silently ignored: connections are verified against the system roots only")
			}
			return true
		})
	}
	if n < 3 {
		r.Unresolved("setupTLSConfig: expected ReadFile, AppendCertsFromPEM and LoadX509KeyPair calls, found %d", n)
	}
	// a half-configured client certificate (only one of CertPath / KeyPath) must end in LoadX509KeyPair's error: every
	// success return that was reached without loading the pair knows both paths to be empty
	if fi := r.NeedFunc("setupTLSConfig"); fi != nil {
		for _, u := range p.unitsOf(fi) {
			uinfo := u.Pkg.TypesInfo
			hasLoad := false
			for _, c := range callsIn(u.Decl.Body) {
				if calleeName(uinfo, c) == "tls.LoadX509KeyPair" {
					hasLoad = true
				}
			}
			if !hasLoad {
				continue
			}
			ug := p.GraphOf(u)
			ef := ug.Events(func(st Step) []string {
				if st.Kind != StNode {
					return nil
				}
				for _, c := range callsIn(st.Node) {
					if calleeName(uinfo, c) == "tls.LoadX509KeyPair" {
						return []string{"load"}
					}
				}
				return nil
			})
			ug.markNodes = map[ast.Node]string{}
			for _, c := range callsIn(u.Decl.Body) {
				if calleeName(uinfo, c) == "tls.LoadX509KeyPair" {
					ug.markNodes[p.stmtOf(c, u)] = "loaded"
				}
			}
			ug.factsCache, ug.factsPSCache = nil, nil
			ps := ug.GuardFactsPSAbout(func(atom string) bool {
				return strings.HasPrefix(atom, "§") || strings.Contains(atom, "CertPath") || strings.Contains(atom, "KeyPath") || !strings.Contains(atom, " ") && !strings.Contains(atom, ".")
			})
			defer func(g *Graph) { g.markNodes = nil }(ug)
			ug.factsCache, ug.factsPSCache = nil, nil
			for _, e := range ug.Exits() {
				rs, ok := e.Node.(*ast.ReturnStmt)
				if !ok || len(rs.Results) == 0 || !isNil(uinfo, rs.Results[len(rs.Results)-1]) {
					continue
				}
				s, okS := ef.ExitState(e)
				if !okS || s.Must["load"] {
					continue
				}
				ds, _ := ps.Before(rs)
				okBoth := len(ds) > 0
				for _, f := range ds {
					if s2 := f.m["§loaded"]; s2 {
						continue
					}
					cert, key := false, false
					for atom, v := range f.m {
						a := strings.ReplaceAll(atom, " ", "")
						if v && (strings.HasSuffix(a, `.CertPath==""`) || strings.HasPrefix(a, `""==`) && strings.HasSuffix(a, ".CertPath")) {
							cert = true
						}
						if v && (strings.HasSuffix(a, `.KeyPath==""`) || strings.HasPrefix(a, `""==`) && strings.HasSuffix(a, ".KeyPath")) {
							key = true
						}
					}
					// disjuncts that did load the pair are fine (they come from the other branch)
					if !(cert && key) && !factsAfterLoad(f) {
						okBoth = false
					}
				}
				r.Check(okBoth, rs, u.Name+" skips the client certificate only when neither CertPath nor KeyPath is set", "both known empty on every path that does not load the pair",
					"a success return is reached without LoadX509KeyPair on a path where CertPath or KeyPath may be set: with only one of the two configured the session connects over TLS without the client certificate the user asked for, instead of reporting the error")
			}
		}
	}
	for _, link := range []struct{ caller, callee string }{{"connConfig", "setupTLSConfig"}, {"NewSession", "connConfig"}} {
		cf := r.NeedFunc(link.caller)
		if cf == nil {
			continue
		}
		found := false
		// the call may sit in a private helper of the caller (cfg.hostDialer()): the error is then handed up along
		// every call on the way
		units := p.unitsOf(cf)
		holds := map[*FuncInfo]bool{}
		for _, u := range units {
			uinfo := u.Pkg.TypesInfo
			ast.Inspect(u.Decl.Body, func(x ast.Node) bool {
				c, ok := x.(*ast.CallExpr)
				if !ok || !isCallTo(uinfo, c, link.callee) {
					return true
				}
				found = true
				holds[u] = true
				ok2, why := errorBranchReturnsErr(p, u, c)
				r.Check(ok2, c, u.Name+" propagates the error of "+link.callee, "returned to the caller", u.Name+" drops the error of "+link.callee+" ("+why+")")
				return true
			})
		}
		for changed := true; changed; {
			changed = false
			for _, u := range units {
				uinfo := u.Pkg.TypesInfo
				for _, c := range callsIn(u.Decl.Body) {
					h := p.FuncOf(calleeOf(uinfo, c))
					if h == nil || !holds[h] || h == u {
						continue
					}
					if !holds[u] {
						holds[u] = true
						changed = true
					}
				}
			}
		}
		for _, u := range units {
			uinfo := u.Pkg.TypesInfo
			for _, c := range callsIn(u.Decl.Body) {
				h := p.FuncOf(calleeOf(uinfo, c))
				if h == nil || !holds[h] || h == u || h.Name == link.callee {
					continue
				}
				ok2, why := errorBranchReturnsErr(p, u, c)
				r.Check(ok2, c, u.Name+" propagates the error of "+link.callee+" (through "+h.Name+")", "returned to the caller", u.Name+" drops the error "+h.Name+" hands up from "+link.callee+" ("+why+")")
			}
		}
		if !found {
			r.Unresolved("%s does not call %s", link.caller, link.callee)
		}
	}
}

func c20r5(p *Program, r *Report) {
	fi := r.NeedFunc("(PasswordAuthenticator).Challenge")
	if fi == nil {
		return
	}
	g := p.GraphOf(fi)
	info := g.Info
	facts := g.GuardFacts()
	n := 0
	for _, e := range g.Exits() {
		rs, ok := e.Node.(*ast.ReturnStmt)
		if !ok || len(rs.Results) != 3 || isNil(info, rs.Results[0]) {
			continue
		}
		n++
		f, _ := facts.Before(rs)
		approved := false
		for atom, v := range f.m {
			if v && strings.HasPrefix(atom, "approve(") {
				approved = true
			}
			// a boolean local that holds the verdict
			if v && approved == false {
				ast.Inspect(fi.Decl.Body, func(m ast.Node) bool {
					if id, isId := m.(*ast.Ident); isId && id.Name == atom {
						if obj := info.Uses[id]; obj != nil && singleAssigned(info, fi.Decl.Body, obj) {
							if d := localDef(info, fi, id); d != nil {
								if dc, isC := ast.Unparen(d).(*ast.CallExpr); isC && isCallTo(info, dc, "approve") {
									approved = true
								}
							}
						}
					}
					return !approved
				})
			}
		}
		r.Check(approved, rs, "(PasswordAuthenticator).Challenge returns credentials only to an approved authenticator", "dominated by approve(class, allowed) == true",
			"a response token (user name and password) is returned on a path where approve() did not accept the server's authenticator class: credentials are sent to any authenticator a (possibly rogue) server names")
	}
	if n == 0 {
		r.Unresolved("Challenge never returns a token")
	}
	// approve: default list only when the custom list is empty; true only on equality
	ap := r.NeedFunc("approve")
	if ap == nil {
		return
	}
	ag := p.GraphOf(ap)
	ainfo := ag.Info
	afacts := ag.GuardFacts()
	listParam := paramObj(ainfo, ap.Decl.Type, 1)
	classParam := paramObj(ainfo, ap.Decl.Type, 0)
	nfb := 0
	emptyKnown := func(n ast.Node) bool {
		f, ok := afacts.Before(p.stmtOf(n, ap))
		if !ok || listParam == nil {
			return false
		}
		// the caller's list, or a local that starts as a copy of it
		names := []string{listParam.Name()}
		ast.Inspect(ap.Decl.Body, func(x ast.Node) bool {
			if as, ok := x.(*ast.AssignStmt); ok && len(as.Lhs) == len(as.Rhs) {
				for i, rhs := range as.Rhs {
					if isIdentOf(ainfo, rhs, listParam) {
						if id, isId := as.Lhs[i].(*ast.Ident); isId && id.Name != "_" {
							names = append(names, id.Name)
						}
					}
				}
			}
			return true
		})
		for _, nm := range names {
			lenE := &ast.CallExpr{Fun: ast.NewIdent("len"), Args: []ast.Expr{ast.NewIdent(nm)}}
			if v, known := f.Known(&ast.BinaryExpr{X: lenE, Op: token.EQL, Y: &ast.BasicLit{Kind: token.INT, Value: "0"}}); known && v {
				return true
			}
			if v, known := f.Known(&ast.BinaryExpr{X: &ast.BasicLit{Kind: token.INT, Value: "0"}, Op: token.LSS, Y: lenE}); known && !v {
				return true
			}
			if v, known := f.KnownStr(nm + " == nil"); known && v {
				return true
			}
		}
		return false
	}
	// the built-in list (a package-level variable) is consulted only where the caller's list is known to be empty
	ast.Inspect(ap.Decl.Body, func(x ast.Node) bool {
		id, ok := x.(*ast.Ident)
		if !ok {
			return true
		}
		v, isVar := ainfo.Uses[id].(*types.Var)
		if !isVar || v.Pkg() == nil || v.Parent() != v.Pkg().Scope() {
			return true
		}
		nfb++
		if !emptyKnown(id) && c20DefaultFirst(p, ap, ag, id, listParam) {
			r.OK(id, "approve starts from the built-in list and replaces it with the caller's list unless that is empty", "every read of the local is after the replacement or under len(list) == 0")
			return true
		}
		r.Check(emptyKnown(id), id, "approve falls back to the built-in list only when the caller's list is empty", "under len(list) == 0", "the caller's allow-list is replaced by the built-in default although it is not empty (or unconditionally)")
		return true
	})
	// what approve may answer true for: an equality of the class with an entry, or membership of the class in a set
	isClass := func(e ast.Expr) bool { return classParam != nil && isIdentOf(ainfo, e, classParam) }
	var membership func(e ast.Expr, depth int) bool
	membership = func(e ast.Expr, depth int) bool {
		e = ast.Unparen(e)
		if tv, has := ainfo.Types[e]; has && tv.Value != nil {
			return tv.Value.String() == "false"
		}
		switch x := e.(type) {
		case *ast.BinaryExpr:
			switch x.Op {
			case token.EQL:
				return isClass(x.X) != isClass(x.Y)
			case token.LOR, token.LAND:
				return membership(x.X, depth) && membership(x.Y, depth)
			case token.GEQ, token.GTR, token.NEQ:
				// a search helper: index(list, class) >= 0 / > -1 / != -1, where the helper returns a position only
				// under an equality of an element with its class argument and a negative constant otherwise
				c, isC := ast.Unparen(x.X).(*ast.CallExpr)
				k, isK := constInt(ainfo, x.Y)
				if !isC || !isK || !(x.Op == token.GEQ && k == 0 || x.Op != token.GEQ && k == -1) {
					return false
				}
				fn := calleeOf(ainfo, c)
				if fn == nil {
					return false
				}
				h := p.FuncOf(fn)
				if h == nil || h.Decl.Body == nil {
					return false
				}
				// which parameter receives the class
				var hClass types.Object
				for i, a := range c.Args {
					if isClass(a) {
						hClass = paramObj(h.Pkg.TypesInfo, h.Decl.Type, i)
					}
				}
				if hClass == nil {
					return false
				}
				hg := p.GraphOf(h)
				hf := hg.GuardFacts()
				pos, neg, other := 0, 0, 0
				for _, he := range hg.Exits() {
					hrs, isRet := he.Node.(*ast.ReturnStmt)
					if !isRet || len(hrs.Results) != 1 {
						if he.Kind != ExitPanic {
							other++
						}
						continue
					}
					if v, isConst := constInt(h.Pkg.TypesInfo, hrs.Results[0]); isConst {
						if v < 0 {
							neg++
						} else {
							other++
						}
						continue
					}
					f, _ := hf.Before(hrs)
					eq := false
					for atom, val := range f.m {
						if val && strings.Contains(atom, " == ") && mentions(atom, hClass.Name()) {
							eq = true
						}
					}
					if eq {
						pos++
					} else {
						other++
					}
				}
				return pos > 0 && neg > 0 && other == 0
			}
		case *ast.Ident:
			if depth > 3 {
				return false
			}
			obj := ainfo.Uses[x]
			if obj == nil {
				return false
			}
			ndef, okAll := 0, true
			ast.Inspect(ap.Decl.Body, func(y ast.Node) bool {
				as, isAs := y.(*ast.AssignStmt)
				if !isAs {
					return true
				}
				for i, l := range as.Lhs {
					lid, isId := l.(*ast.Ident)
					if !isId || (ainfo.Defs[lid] != obj && ainfo.Uses[lid] != obj) {
						continue
					}
					ndef++
					switch {
					case len(as.Lhs) == 2 && len(as.Rhs) == 1 && i == 1:
						// _, ok := set[class]
						ix, isIx := ast.Unparen(as.Rhs[0]).(*ast.IndexExpr)
						if !isIx || !isClass(ix.Index) {
							okAll = false
						} else if _, isMap := ainfo.TypeOf(ix.X).Underlying().(*types.Map); !isMap {
							okAll = false
						}
					case len(as.Lhs) == len(as.Rhs):
						if !membership(as.Rhs[i], depth+1) {
							okAll = false
						}
					default:
						okAll = false
					}
				}
				return true
			})
			return ndef > 0 && okAll
		}
		return false
	}
	for _, e := range ag.Exits() {
		rs, ok := e.Node.(*ast.ReturnStmt)
		if !ok || len(rs.Results) != 1 {
			continue
		}
		if v, ok := ainfo.Types[rs.Results[0]]; ok && v.Value != nil {
			if v.Value.String() != "true" {
				continue
			}
			f, _ := afacts.Before(rs)
			eq := false
			for atom, val := range f.m {
				if val && strings.Contains(atom, " == ") && classParam != nil && mentions(atom, classParam.Name()) {
					eq = true
				}
			}
			r.Check(eq, rs, "approve accepts only a class equal to a list entry", "return true dominated by authenticator == entry", "approve returns true without an equality match against the allow-list")
			continue
		}
		r.Check(membership(rs.Results[0], 0), rs, "approve accepts only a class equal to a list entry", "the answer is an equality with / membership of the class in the list", "approve returns true without an equality match against the allow-list")
	}
	_ = nfb
}

func c20r6(p *Program, r *Report) {
	inCaseOf := func(fi *FuncInfo, n ast.Node) string {
		cc, _ := p.enclosing(n, fi.Decl, func(m ast.Node) bool { _, ok := m.(*ast.CaseClause); return ok }).(*ast.CaseClause)
		if cc == nil || len(cc.List) == 0 {
			return ""
		}
		return exprStr(cc.List[0])
	}
	if fi := r.NeedFunc("(*startupCoordinator).startup"); fi != nil {
		info := fi.Pkg.TypesInfo
		n := 0
		ast.Inspect(fi.Decl.Body, func(x ast.Node) bool {
			rs, ok := x.(*ast.ReturnStmt)
			if !ok || len(rs.Results) != 1 {
				return true
			}
			if isNil(info, rs.Results[0]) {
				n++
				r.Check(inCaseOf(fi, rs) == "*readyFrame", rs, "(*startupCoordinator).startup succeeds only on READY", "return nil inside case *readyFrame", "startup returns success for a frame other than READY: a server demanding authentication yields an unauthenticated session")
			}
			if inCaseOf(fi, rs) == "*authenticateFrame" {
				c, isCall := ast.Unparen(rs.Results[0]).(*ast.CallExpr)
				r.Check(isCall && isCallTo(info, c, "(*startupCoordinator).authenticateHandshake"), rs, "(*startupCoordinator).startup answers AUTHENTICATE with the handshake", "returns the handshake's result", "an AUTHENTICATE frame does not lead to the authentication handshake")
			}
			return true
		})
		if n == 0 {
			r.Unresolved("startup never returns nil")
		}
	}
	if fi := r.NeedFunc("(*startupCoordinator).authenticateHandshake"); fi != nil {
		info := fi.Pkg.TypesInfo
		// first statement refuses a nil authenticator
		okFirst := false
		// the first statement that is not a call-free binding of a local
		first := 0
		for first < len(fi.Decl.Body.List) {
			as, isAs := fi.Decl.Body.List[first].(*ast.AssignStmt)
			if !isAs || as.Tok != token.DEFINE || len(callsIn(as)) > 0 {
				break
			}
			first++
		}
		isAuth := func(e ast.Expr) bool {
			if p.isField(info, e, "Conn", "auth") {
				return true
			}
			if id, isId := ast.Unparen(e).(*ast.Ident); isId {
				if obj := info.Uses[id]; obj != nil && singleAssigned(info, fi.Decl.Body, obj) {
					if d := localDef(info, fi, id); d != nil && p.isField(info, d, "Conn", "auth") {
						return true
					}
				}
			}
			return false
		}
		if first < len(fi.Decl.Body.List) {
			if ifs, ok := fi.Decl.Body.List[first].(*ast.IfStmt); ok {
				if b, ok := ast.Unparen(ifs.Cond).(*ast.BinaryExpr); ok && b.Op == token.EQL && isNil(info, b.Y) && isAuth(b.X) {
					if len(ifs.Body.List) > 0 {
						if rs, ok := ifs.Body.List[len(ifs.Body.List)-1].(*ast.ReturnStmt); ok && len(rs.Results) == 1 && !isNil(info, rs.Results[0]) {
							okFirst = true
						}
					}
				}
			}
		}
		r.Check(okFirst, fi.Decl, "(*startupCoordinator).authenticateHandshake refuses a client without authenticator first", "auth == nil returns an error before anything is sent", "a server demanding authentication from a client configured without credentials is not refused up front")
		ast.Inspect(fi.Decl.Body, func(x ast.Node) bool {
			rs, ok := x.(*ast.ReturnStmt)
			if !ok || len(rs.Results) != 1 {
				return true
			}
			isSuccessCall := false
			if c, ok := ast.Unparen(rs.Results[0]).(*ast.CallExpr); ok && calleeName(info, c) == "Authenticator.Success" {
				isSuccessCall = true
			}
			if isNil(info, rs.Results[0]) || isSuccessCall {
				okCase := inCaseOf(fi, rs) == "*authSuccessFrame"
				if !okCase {
					// success mediated by a flag: the return is reached only where a boolean field is known to be set,
					// and that field is set to true only inside case *authSuccessFrame (anywhere in the package)
					f, _ := p.GraphOf(fi).GuardFacts().Before(rs)
					for atom, v := range f.m {
						if !v || strings.ContainsAny(atom, " ()[]") || !strings.Contains(atom, ".") {
							continue
						}
						e, err := parser.ParseExpr(atom)
						if err != nil {
							continue
						}
						sel, isSel := e.(*ast.SelectorExpr)
						rid, isId := ast.Expr(nil), false
						if isSel {
							rid, isId = sel.X, true
						}
						if !isSel || !isId {
							continue
						}
						root, isRoot := rid.(*ast.Ident)
						if !isRoot {
							continue
						}
						real := identNamed(fi, root.Name)
						if real == nil {
							continue
						}
						var flag *types.Var
						if st, isSt := derefType(info.TypeOf(real)).Underlying().(*types.Struct); isSt {
							for i := 0; i < st.NumFields(); i++ {
								if st.Field(i).Name() == sel.Sel.Name {
									flag = st.Field(i)
								}
							}
						}
						if flag == nil {
							continue
						}
						nTrue, allInCase := 0, true
						p.forEachFunc(false, func(u *FuncInfo) {
							if u.Pkg != p.Root || u.Decl.Body == nil {
								return
							}
							uinfo := u.Pkg.TypesInfo
							ast.Inspect(u.Decl.Body, func(y ast.Node) bool {
								switch z := y.(type) {
								case *ast.AssignStmt:
									for i, l := range z.Lhs {
										if fieldOf(uinfo, l) != flag {
											continue
										}
										if i < len(z.Rhs) && len(z.Lhs) == len(z.Rhs) && exprStr(z.Rhs[i]) == "false" {
											continue
										}
										if i < len(z.Rhs) && len(z.Lhs) == len(z.Rhs) && exprStr(z.Rhs[i]) == "true" && inCaseOf(u, z) == "*authSuccessFrame" {
											nTrue++
											continue
										}
										allInCase = false
									}
								case *ast.KeyValueExpr:
									if kid, isK := z.Key.(*ast.Ident); isK && uinfo.Uses[kid] == types.Object(flag) && exprStr(z.Value) != "false" {
										allInCase = false
									}
								case *ast.UnaryExpr:
									if z.Op == token.AND && fieldOf(uinfo, z.X) == flag {
										allInCase = false
									}
								}
								return true
							})
						})
						if nTrue > 0 && allInCase {
							okCase = true
						}
					}
				}
				r.Check(okCase, rs, "(*startupCoordinator).authenticateHandshake succeeds only on AUTH_SUCCESS", "inside case *authSuccessFrame", "the handshake reports success for a frame other than AUTH_SUCCESS")
			}
			return true
		})
	}
}

// helperWrites: a config handed to a function of this package that assigns its InsecureSkipVerify is unknown
// afterwards.
func (ti *tlsInterp) helperWrites(n ast.Node) {
	if ti.p == nil {
		return
	}
	for _, c := range callsIn(n) {
		fn := calleeOf(ti.info, c)
		if fn == nil {
			continue
		}
		callee := ti.p.FuncOf(fn)
		if callee == nil || callee.Pkg != ti.p.Root || callee.Decl.Body == nil {
			continue
		}
		writes := false
		ast.Inspect(callee.Decl.Body, func(m ast.Node) bool {
			if as, ok := m.(*ast.AssignStmt); ok {
				for _, l := range as.Lhs {
					if strings.HasSuffix(exprStr(l), ".InsecureSkipVerify") {
						writes = true
					}
				}
			}
			return true
		})
		if !writes {
			continue
		}
		for _, a := range c.Args {
			if isTLSConfigPtr(ti.info.TypeOf(a)) {
				ti.store[exprStr(ast.Unparen(a))+".InsecureSkipVerify"] = triUnknown
			}
		}
	}
}

// c20r7: tlsConfigForAddr derives tls.Config.ServerName from the address WrapTLS is given. The default dialer must
// hand it the host's name as the user knows it (HostnameAndPort: the configured host name when there is one), not
// the connect address it dialled: with the IP there, a certificate issued for the host name is rejected and one that
// merely lists the IP is accepted.
func c20r7(p *Program, r *Report) {
	fi := r.NeedFunc("(*defaultHostDialer).DialHost")
	if fi == nil {
		return
	}
	n := 0
	for _, u := range p.unitsOf(fi) {
		info := u.Pkg.TypesInfo
		for _, c := range callsIn(u.Decl.Body) {
			if !isCallTo(info, c, "WrapTLS") || len(c.Args) != 4 {
				continue
			}
			n++
			_, addr := p.resolveValue(u, c.Args[2], 0)
			ok := false
			if ac, isCall := ast.Unparen(addr).(*ast.CallExpr); isCall && strings.HasSuffix(calleeName(info, ac), ".HostnameAndPort") {
				ok = true
			}
			r.Check(ok, c, u.Name+" verifies the certificate against the host's name", "WrapTLS(..., host.HostnameAndPort(), ...)",
				"WrapTLS is given "+exprStr(addr)+" as the address the server name is taken from, not host.HostnameAndPort(): the certificate is checked against the dialled IP instead of the host name the user configured")
		}
	}
	if n == 0 {
		r.Unresolved("DialHost does not call WrapTLS")
	}
}

// isTLSConfigField: fv is a field of crypto/tls.Config.
func isTLSConfigField(fv *types.Var) bool {
	if fv == nil || fv.Pkg() == nil || fv.Pkg().Path() != "crypto/tls" {
		return false
	}
	cfg := fv.Pkg().Scope().Lookup("Config")
	if cfg == nil {
		return false
	}
	st, ok := cfg.Type().Underlying().(*types.Struct)
	if !ok {
		return false
	}
	for i := 0; i < st.NumFields(); i++ {
		if st.Field(i) == fv {
			return true
		}
	}
	return false
}

// factsAfterLoad: the disjunct comes from the branch that loaded the key pair (its error was tested).
func factsAfterLoad(f Facts) bool {
	for atom := range f.m {
		if strings.HasPrefix(atom, "§loaded") {
			return true
		}
	}
	return false
}

// c20DefaultFirst accepts the form `L := builtin; if len(param) != 0 { L = param }`: the use of the built-in list is
// the whole right-hand side of an assignment to a local L, and at every read of L either L has since been replaced by
// the caller's list or the caller's list is known to be empty (path-sensitive facts, one mark for the replacement).
func c20DefaultFirst(p *Program, ap *FuncInfo, ag *Graph, use *ast.Ident, listParam types.Object) bool {
	info := ag.Info
	if listParam == nil {
		return false
	}
	as, ok := p.Parent(use).(*ast.AssignStmt)
	if !ok || len(as.Lhs) != len(as.Rhs) {
		return false
	}
	var local types.Object
	for i, rhs := range as.Rhs {
		if ast.Unparen(rhs) == ast.Expr(use) {
			if id, isId := as.Lhs[i].(*ast.Ident); isId {
				if local = info.Defs[id]; local == nil {
					local = info.Uses[id]
				}
			}
		}
	}
	lv, isVar := local.(*types.Var)
	if !isVar || lv.Parent() == lv.Pkg().Scope() || lv.IsField() {
		return false
	}
	taken := false
	ast.Inspect(ap.Decl.Body, func(x ast.Node) bool {
		if u, isU := x.(*ast.UnaryExpr); isU && u.Op == token.AND {
			if id, isId := ast.Unparen(u.X).(*ast.Ident); isId && info.Uses[id] == local {
				taken = true
			}
		}
		return true
	})
	if taken {
		return false
	}
	ag.markNodes = map[ast.Node]string{}
	defer func() { ag.markNodes = nil }()
	lhsIdents := map[*ast.Ident]bool{}
	ast.Inspect(ap.Decl.Body, func(x ast.Node) bool {
		a, isA := x.(*ast.AssignStmt)
		if !isA {
			return true
		}
		for i, l := range a.Lhs {
			id, isId := l.(*ast.Ident)
			if !isId || (info.Uses[id] != local && info.Defs[id] != local) {
				continue
			}
			lhsIdents[id] = true
			if len(a.Lhs) == len(a.Rhs) && isIdentOf(info, a.Rhs[i], listParam) {
				ag.markNodes[a] = "custom"
			}
		}
		return true
	})
	pn := listParam.Name()
	ps := ag.GuardFactsPSAbout(func(atom string) bool { return strings.HasPrefix(atom, "§") || mentions(atom, pn) })
	emptyIn := func(f Facts) bool {
		lenE := &ast.CallExpr{Fun: ast.NewIdent("len"), Args: []ast.Expr{ast.NewIdent(pn)}}
		if v, known := f.Known(&ast.BinaryExpr{X: lenE, Op: token.EQL, Y: &ast.BasicLit{Kind: token.INT, Value: "0"}}); known && v {
			return true
		}
		if v, known := f.Known(&ast.BinaryExpr{X: &ast.BasicLit{Kind: token.INT, Value: "0"}, Op: token.LSS, Y: lenE}); known && !v {
			return true
		}
		if v, known := f.KnownStr(pn + " == nil"); known && v {
			return true
		}
		return false
	}
	okAll, reads := true, 0
	ast.Inspect(ap.Decl.Body, func(x ast.Node) bool {
		id, isId := x.(*ast.Ident)
		if !isId || info.Uses[id] != local || lhsIdents[id] {
			return true
		}
		reads++
		node, found := ag.cfgNodeOf(id)
		if !found {
			okAll = false
			return true
		}
		ds, has := ps.Before(node)
		if !has {
			return true // unreachable
		}
		if len(ds) == 0 {
			okAll = false
		}
		for _, f := range ds {
			if !f.m["§custom"] && !emptyIn(f) {
				okAll = false
			}
		}
		return true
	})
	return okAll && reads > 0
}

// c20r8: whatever was read from the CA file goes through AppendCertsFromPEM (whose refusal is an error, C20.R4) on
// every path to a success return: an empty or skipped file must not silently leave the session with the system roots.
func c20r8(p *Program, r *Report) {
	top := r.NeedFunc("setupTLSConfig")
	if top == nil {
		return
	}
	units := p.unitsOf(top)
	has := func(u *FuncInfo, names ...string) bool {
		for _, c := range callsIn(u.Decl.Body) {
			cn := calleeName(u.Pkg.TypesInfo, c)
			for _, nm := range names {
				if cn == nm {
					return true
				}
			}
		}
		return false
	}
	reads := func(u *FuncInfo) bool { return has(u, "ioutil.ReadFile", "os.ReadFile") }
	appends := func(u *FuncInfo) bool { return has(u, "x509.(*CertPool).AppendCertsFromPEM") }
	n := 0
	for _, u := range units {
		info := u.Pkg.TypesInfo
		kind := func(nd ast.Node) (rd, ap bool) {
			for _, c := range callsIn(nd) {
				switch calleeName(info, c) {
				case "ioutil.ReadFile", "os.ReadFile":
					rd = true
				case "x509.(*CertPool).AppendCertsFromPEM":
					ap = true
				default:
					if fn := calleeOf(info, c); fn != nil {
						if h := p.FuncOf(fn); h != nil && h != u && h.Decl.Body != nil {
							for _, x := range units {
								if x == h {
									if reads(h) && !appends(h) {
										rd = true
									}
									if appends(h) && !reads(h) {
										ap = true
									}
								}
							}
						}
					}
				}
			}
			return
		}
		anyRead, anyAppend := false, false
		inspectNoLit(u.Decl.Body, func(x ast.Node) bool {
			if st, isS := x.(ast.Stmt); isS {
				if _, isBlock := st.(*ast.BlockStmt); !isBlock {
					rd, ap := kind(st)
					anyRead = anyRead || rd
					anyAppend = anyAppend || ap
				}
			}
			return true
		})
		if !anyRead || !anyAppend {
			continue
		}
		g := p.GraphOf(u)
		sol := Solve(g, Lattice[int]{
			Join: func(a, b int) int {
				if a > b {
					return a
				}
				return b
			},
			Eq: func(a, b int) bool { return a == b },
			Step: func(st int, step Step) int {
				if step.Kind != StNode {
					return st
				}
				rd, ap := kind(step.Node)
				if ap {
					return 0
				}
				if rd {
					return 1
				}
				return st
			},
		})
		for _, e := range g.Exits() {
			rs, isRet := e.Node.(*ast.ReturnStmt)
			if e.Kind == ExitPanic {
				continue
			}
			var st int
			var ok bool
			var at ast.Node = u.Decl
			if isRet {
				// failures are not the concern here
				if len(rs.Results) > 0 && isErrorType(info.TypeOf(rs.Results[len(rs.Results)-1])) && !isNil(info, rs.Results[len(rs.Results)-1]) {
					continue
				}
				st, ok = sol.Before(rs)
				at = rs
			} else {
				st, ok = sol.AtExit(e)
			}
			if !ok {
				continue
			}
			n++
			r.Check(st == 0, at, u.Name+" parses the CA file it read before it succeeds", "AppendCertsFromPEM on every path from ReadFile to a success return",
				"a path from reading the CA file to a success return does not hand the bytes to AppendCertsFromPEM: a CA file without a usable certificate (e.g. an empty one) is silently accepted and the session verifies against the system roots")
		}
	}
	// the pool that receives the certificates is the one the returned config verifies against: the receiver of
	// AppendCertsFromPEM is <config>.RootCAs itself, or a local that is the same pool as <config>.RootCAs at every
	// success return (taken from the field and not replaced since, or stored into the field afterwards)
	for _, u := range units {
		info := u.Pkg.TypesInfo
		for _, c := range callsIn(u.Decl.Body) {
			if calleeName(info, c) != "x509.(*CertPool).AppendCertsFromPEM" {
				continue
			}
			rx := recvExpr(c)
			if rx == nil {
				continue
			}
			if sel, isSel := ast.Unparen(rx).(*ast.SelectorExpr); isSel && sel.Sel.Name == "RootCAs" {
				n++
				r.OK(c, u.Name+" adds the CA certificates to the pool of the config", exprStr(rx))
				continue
			}
			id, isId := ast.Unparen(rx).(*ast.Ident)
			if !isId {
				continue
			}
			obj := info.Uses[id]
			isRootCAs := func(e ast.Expr) bool {
				sel, ok := ast.Unparen(e).(*ast.SelectorExpr)
				return ok && sel.Sel.Name == "RootCAs"
			}
			g := p.GraphOf(u)
			sol := Solve(g, Lattice[int]{
				Join: func(a, b int) int {
					if a < b {
						return a
					}
					return b
				},
				Eq: func(a, b int) bool { return a == b },
				Step: func(st int, step Step) int {
					if step.Kind != StNode {
						return st
					}
					as, ok := step.Node.(*ast.AssignStmt)
					if !ok || len(as.Lhs) != len(as.Rhs) {
						return st
					}
					for i, l := range as.Lhs {
						switch {
						case isIdentOf(info, l, obj) && isRootCAs(as.Rhs[i]):
							st = 1
						case isIdentOf(info, l, obj):
							st = 0
						case isRootCAs(l) && isIdentOf(info, as.Rhs[i], obj):
							st = 1
						case isRootCAs(l):
							st = 0
						}
					}
					return st
				},
			})
			n++
			okAll, exits := true, 0
			for _, e := range g.Exits() {
				rs, isRet := e.Node.(*ast.ReturnStmt)
				if !isRet || rs.Pos() < c.Pos() {
					continue
				}
				if len(rs.Results) > 0 && isErrorType(info.TypeOf(rs.Results[len(rs.Results)-1])) && !isNil(info, rs.Results[len(rs.Results)-1]) {
					continue
				}
				exits++
				if st, has := sol.Before(rs); !has || st != 1 {
					// the pool is handed back to the caller, which stores it: pool, err = helper(cfg.RootCAs)
					handedBack := false
					for ri, res := range rs.Results {
						if !isIdentOf(info, res, obj) {
							continue
						}
						sites, good := 0, 0
						for _, cu := range units {
							cinfo := cu.Pkg.TypesInfo
							ast.Inspect(cu.Decl.Body, func(y ast.Node) bool {
								as, isA := y.(*ast.AssignStmt)
								if !isA || len(as.Rhs) != 1 {
									return true
								}
								cc, isC := ast.Unparen(as.Rhs[0]).(*ast.CallExpr)
								if !isC {
									return true
								}
								if fn := calleeOf(cinfo, cc); fn == nil || p.FuncOf(fn) != u {
									return true
								}
								sites++
								if ri < len(as.Lhs) && isRootCAs(as.Lhs[ri]) {
									good++
								}
								return true
							})
						}
						if sites > 0 && sites == good {
							handedBack = true
						}
					}
					if !handedBack {
						okAll = false
					}
				}
			}
			r.Check(okAll && exits > 0, c, u.Name+" adds the CA certificates to the pool of the config", "the local pool is <config>.RootCAs at every success return",
				"the certificates of the CA file are added to a pool that is not (on every path) the RootCAs of the config that is returned: the file is read and parsed and then not used, and the session verifies against the system roots")
		}
	}
	if n == 0 {
		r.Unresolved("no unit of setupTLSConfig both reads a file and appends certificates")
	}
}
