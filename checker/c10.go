package main

import (
	"fmt"
	"go/ast"
	"go/token"
	"go/types"
	"sort"
	"strings"
)

func init() {
	register(&PropertySpec{
		ID: "C10",
		Explanation: "Structural necessary conditions of 'replica sets equal Cassandra's placement': R1 in every placement strategy a node is appended to a token's replica list only after a negative membership test on a per-token set (directly, or via a skipped list that only holds such nodes): no node twice; R2 the ring lookups (replicasFor, GetHostForToken) index only after the empty check and the wrap-around, proven by the bounds prover; " +
			"R3 replication-factor parsing returns success only for non-negative numbers; R4 the ring walk of every strategy covers all ring positions (bounded by the number of tokens, indexed modulo it), not the number of hosts; R5 the strategy is chosen by class name and unsupported/invalid options yield no strategy rather than a wrong one." +
			" R8 the all-racks-seen test that lets the skipped hosts into a replica list is evaluated on the rack set that already contains the current host's rack; R9 ring lookups binary-search the whole ring and replace a result past the end by entry 0 only." +
			" R8 also: the seen-rack count is compared with the number of racks of this datacenter (the length of another rack set); R10 newTokenRing puts every host's tokens on the ring unconditionally, the ring is rebuilt before the replica maps are recomputed from it, and updateReplicas carries the other keyspaces over under their own names.",
		NotDecided: "equality with Cassandra's placement (rack preference, per-DC counts, owner-first order) for every ring; reachability of the remaining sanity panics in networkTopology.replicaMap (they hold by invariants a local analysis cannot prove).",
		Rules: []*Rule{
			{ID: "C10.R1", Floor: 3, Doc: "replica appended only after a negative per-token membership test (no node twice)", Run: c10r1},
			{ID: "C10.R2", Floor: 2, Doc: "ring lookups index after the empty check and wrap-around", Run: c10r2},
			{ID: "C10.R3", Floor: 1, Doc: "replication factor parsing: success returns are non-negative", Run: c10r3},
			{ID: "C10.R4", Floor: 2, Doc: "ring walks cover all ring positions (j < len(tokens), index modulo len(tokens))", Run: c10r4},
			{ID: "C10.R5", Floor: 3, Doc: "strategy selection by class; invalid options give no strategy", Run: c10r5},
			{ID: "C10.R6", Floor: 2, Doc: "NetworkTopologyStrategy: in every block, hosts appended to the replica list and additions to the per-DC replica count balance", Run: c10r6},
			{ID: "C10.R7", Floor: 2, Doc: "the replica list stored for a token range is built in that range's own iteration (fresh list filled by the walk from that token), never taken from a cache or an outer variable", Run: c10r7},
			{ID: "C10.R8", Floor: 1, Doc: "NetworkTopologyStrategy: the all-racks-seen test that lets the skipped hosts in is made on the rack set that already contains the current host's rack", Run: c10r8},
			{ID: "C10.R9", Floor: 4, Doc: "ring lookups: binary search over the whole ring, result used as found or wrapped to index 0", Run: c10r9},
			{ID: "C10.R10", Floor: 3, Doc: "ring construction and replica-map maintenance: every host's tokens enter the ring whatever its state; the ring is rebuilt before the replica maps are recomputed from it; other keyspaces' maps are carried over under their own names", Run: c10r10},
			{ID: "C10.R12", Floor: 1, Doc: "a keyspace whose replica map cannot be recomputed does not keep its old map: updateReplicas carries over the other keyspaces only (=C11.R12)", Run: c11r12},
			{ID: "C10.R13", Floor: 1, Doc: "a peers row without tokens is not a valid peer: the placement strategies only see hosts that own ranges", Run: c10PeersHaveTokens},
			{ID: "C10.R11", Floor: 1, Doc: "placement walk: every host stored in a list during an iteration is entered into the seen set before the walk moves on", Run: c10r11},
		},
	})
}

// replicaMapImpls returns the replicaMap implementations.
func replicaMapImpls(p *Program) []*FuncInfo {
	var out []*FuncInfo
	for _, fi := range p.SortedFuncs() {
		if fi.Obj.Name() == "replicaMap" && fi.Decl.Body != nil && fi.Decl.Recv != nil && fi.Pkg == p.Root {
			out = append(out, fi)
		}
	}
	return out
}

// unitsOf: fi and the private helpers it was split into (transitively, three levels).
func (p *Program) unitsOf(fi *FuncInfo) []*FuncInfo {
	out := []*FuncInfo{fi}
	seen := map[*FuncInfo]bool{fi: true}
	var add func(f *FuncInfo, depth int)
	add = func(f *FuncInfo, depth int) {
		if depth > 3 {
			return
		}
		for _, c := range p.privateCallees(f) {
			if !seen[c] {
				seen[c] = true
				out = append(out, c)
				add(c, depth+1)
			}
		}
	}
	add(fi, 0)
	return out
}

// listResult classifies result idx of a helper that returns a slice: "fresh" (a list created by the helper:
// make / literal / nil and appends to itself), "param:k" (parameter k, possibly extended by appends), "" otherwise.
func (p *Program) listResult(callee *FuncInfo, idx int) string {
	if callee.Decl.Body == nil || callee.Obj == nil {
		return ""
	}
	info := callee.Pkg.TypesInfo
	sig := callee.Obj.Type().(*types.Signature)
	kind := ""
	ok := true
	n := 0
	classify := func(obj types.Object) string {
		for i := 0; i < sig.Params().Len(); i++ {
			if sig.Params().At(i) == obj {
				// the parameter may only be re-bound to appends of itself
				good := true
				ast.Inspect(callee.Decl.Body, func(y ast.Node) bool {
					if as, isAs := y.(*ast.AssignStmt); isAs {
						for j, l := range as.Lhs {
							if lid, isId := l.(*ast.Ident); isId && info.Uses[lid] == obj {
								if j >= len(as.Rhs) {
									good = false
									continue
								}
								c, isC := ast.Unparen(as.Rhs[j]).(*ast.CallExpr)
								if !isC || exprStr(c.Fun) != "append" || len(c.Args) == 0 || !isIdentOf(info, c.Args[0], obj) {
									good = false
								}
							}
						}
					}
					return true
				})
				if good {
					return "param:" + itoa(i)
				}
				return ""
			}
		}
		// a local: every definition creates or extends it
		good, ndef := true, 0
		ast.Inspect(callee.Decl.Body, func(y ast.Node) bool {
			switch st := y.(type) {
			case *ast.AssignStmt:
				for j, l := range st.Lhs {
					lid, isId := l.(*ast.Ident)
					if !isId || (info.Defs[lid] != obj && info.Uses[lid] != obj) {
						continue
					}
					ndef++
					if len(st.Rhs) != len(st.Lhs) {
						good = false
						continue
					}
					switch v := ast.Unparen(st.Rhs[j]).(type) {
					case *ast.CallExpr:
						f := exprStr(v.Fun)
						if !(f == "make" || f == "append" && len(v.Args) > 0 && isIdentOf(info, v.Args[0], obj)) {
							good = false
						}
					case *ast.CompositeLit:
					case *ast.Ident:
						if v.Name != "nil" {
							good = false
						}
					default:
						good = false
					}
				}
			case *ast.ValueSpec:
				for _, vn := range st.Names {
					if info.Defs[vn] == obj {
						ndef++
						if len(st.Values) != 0 {
							good = false
						}
					}
				}
			}
			return true
		})
		if good && ndef > 0 {
			return "fresh"
		}
		return ""
	}
	inspectNoLit(callee.Decl.Body, func(x ast.Node) bool {
		rs, isR := x.(*ast.ReturnStmt)
		if !isR {
			return true
		}
		n++
		var e ast.Expr
		if len(rs.Results) == sig.Results().Len() && idx < len(rs.Results) {
			e = ast.Unparen(rs.Results[idx])
		} else if len(rs.Results) == 0 && sig.Results().At(idx).Name() != "" {
			e = ast.NewIdent(sig.Results().At(idx).Name())
			ok = false // named results: not needed so far
			return true
		} else {
			ok = false
			return true
		}
		id, isId := e.(*ast.Ident)
		if !isId {
			ok = false
			return true
		}
		if id.Name == "nil" {
			return true
		}
		k := classify(info.Uses[id])
		if k == "" || kind != "" && kind != k {
			ok = false
		}
		kind = k
		return true
	})
	if !ok || n == 0 {
		return ""
	}
	return kind
}

func c10r1(p *Program, r *Report) {
	impls := replicaMapImpls(p)
	if len(impls) < 2 {
		r.Unresolved("expected 2 replicaMap implementations, found %d", len(impls))
	}
	for _, impl := range impls {
		n := 0
		units := p.unitsOf(impl)
		// deduped: host expressions known absent from a per-token set at the time they were tested
		dedupOf := map[*FuncInfo]*Solution[strset]{}
		for _, fi := range units {
			g := p.GraphOf(fi)
			info := g.Info
			dedupOf[fi] = Solve(g, Lattice[strset]{
				Init: strset{}, Join: func(a, b strset) strset { return a.intersect(b) }, Eq: func(a, b strset) bool { return a.eq(b) },
				Step: func(s strset, st Step) strset {
					switch st.Kind {
					case StCond:
						ce, val := ast.Unparen(st.Node.(ast.Expr)), st.Val
						for {
							if u, ok := ce.(*ast.UnaryExpr); ok && u.Op == token.NOT {
								ce, val = ast.Unparen(u.X), !val
								continue
							}
							break
						}
						var ix *ast.IndexExpr
						switch x := ce.(type) {
						case *ast.IndexExpr: // seen[h]
							ix = x
						case *ast.Ident: // _, ok := seen[h]
							ix = commaOkSource(g, info, x, st.Node)
						}
						if ix != nil && !val {
							if m, ok := info.TypeOf(ix.X).Underlying().(*types.Map); ok && strings.Contains(m.Key().String(), "HostInfo") {
								s = s.with(exprStr(ix.Index))
							}
						}
					case StNode:
						for _, l := range assignedLHS(st.Node) {
							if _, isIx := ast.Unparen(l).(*ast.IndexExpr); isIx {
								continue
							}
							ls := exprStr(l)
							for k := range s {
								if mentions(k, ls) {
									s = s.without(k)
								}
							}
						}
					}
					return s
				},
			})
		}
		// hostDeduped: host expression e, evaluated at statement `at` of unit u, passed the membership test: in u itself,
		// or e is a parameter of u (never re-bound) and every call of u inside the implementation passes such a host
		var hostDeduped func(u *FuncInfo, at ast.Node, e ast.Expr, depth int) bool
		hostDeduped = func(u *FuncInfo, at ast.Node, e ast.Expr, depth int) bool {
			if s, _ := dedupOf[u].Before(at); s[exprStr(e)] {
				return true
			}
			id, isId := ast.Unparen(e).(*ast.Ident)
			if !isId || depth > 2 || u.Obj == nil || u == impl {
				return false
			}
			uinfo := u.Pkg.TypesInfo
			sig := u.Obj.Type().(*types.Signature)
			for i := 0; i < sig.Params().Len(); i++ {
				if sig.Params().At(i) != uinfo.Uses[id] || !neverAssigned(uinfo, u.Decl.Body, uinfo.Uses[id]) {
					continue
				}
				nsite, all := 0, true
				for _, caller := range units {
					for _, c := range callsIn(caller.Decl.Body) {
						if fn := calleeOf(caller.Pkg.TypesInfo, c); fn != nil && p.FuncOf(fn) == u && i < len(c.Args) {
							nsite++
							if !hostDeduped(caller, p.stmtOf(c, caller), c.Args[i], depth+1) {
								all = false
							}
						}
					}
				}
				return nsite > 0 && all && !p.usedAsValue(u)
			}
			return false
		}
		// isHostList: a []*HostInfo variable or field path
		isHostList := func(info *types.Info, e ast.Expr) bool {
			if !isFieldPath(e) {
				return false
			}
			t := info.TypeOf(e)
			return t != nil && strings.Contains(t.String(), "[]*") && strings.Contains(t.String(), "HostInfo")
		}
		// listKey: map-of-lists bases are tracked per unit for locals and per field for fields (all units together)
		listKey := func(u *FuncInfo, base ast.Expr) string {
			if f := fieldOf(u.Pkg.TypesInfo, base); f != nil {
				return fmt.Sprintf("field:%s@%d", f.Name(), f.Pos())
			}
			return u.Name + ":" + exprStr(base)
		}
		dedupLists := map[string]bool{} // map-of-slices that only ever receive deduped hosts
		for _, fi := range units {
			info := fi.Pkg.TypesInfo
			// pass 1: appends into map-of-slices (skipped lists)
			ast.Inspect(fi.Decl.Body, func(x ast.Node) bool {
				as, ok := x.(*ast.AssignStmt)
				if !ok || len(as.Lhs) != 1 || len(as.Rhs) != 1 {
					return true
				}
				c, ok := ast.Unparen(as.Rhs[0]).(*ast.CallExpr)
				if !ok || calleeName(info, c) != "builtin.append" || len(c.Args) != 2 || c.Ellipsis.IsValid() {
					return true
				}
				if ix, ok := ast.Unparen(as.Lhs[0]).(*ast.IndexExpr); ok && exprStr(c.Args[0]) == exprStr(as.Lhs[0]) {
					key := listKey(fi, ix.X)
					if hostDeduped(fi, as, c.Args[1], 0) {
						if _, seen := dedupLists[key]; !seen {
							dedupLists[key] = true
						}
					} else {
						dedupLists[key] = false
					}
				}
				return true
			})
		}
		for _, fi := range units {
			fi := fi
			info := fi.Pkg.TypesInfo
			// listIsDeduped: e (in unit u) denotes a list that only holds hosts which passed the membership test
			var listIsDeduped func(u *FuncInfo, e ast.Expr, depth int) (bool, string)
			listIsDeduped = func(u *FuncInfo, e ast.Expr, depth int) (bool, string) {
				e = ast.Unparen(e)
				uinfo := u.Pkg.TypesInfo
				if ix, isIx := e.(*ast.IndexExpr); isIx && dedupLists[listKey(u, ix.X)] {
					return true, exprStr(ix.X)
				}
				if sl, isSl := e.(*ast.SliceExpr); isSl {
					return listIsDeduped(u, sl.X, depth+1)
				}
				id, isId := e.(*ast.Ident)
				if !isId || depth > 3 {
					return false, ""
				}
				if def := localDef(uinfo, u, id); def != nil {
					return listIsDeduped(u, def, depth+1)
				}
				// a parameter of a helper: every call site passes such a list
				if u.Obj != nil {
					sig := u.Obj.Type().(*types.Signature)
					for i := 0; i < sig.Params().Len(); i++ {
						if sig.Params().At(i) != uinfo.Uses[id] {
							continue
						}
						nsite, all, from := 0, true, ""
						for _, caller := range units {
							for _, c := range callsIn(caller.Decl.Body) {
								if fn := calleeOf(caller.Pkg.TypesInfo, c); fn != nil && p.FuncOf(fn) == u && i < len(c.Args) {
									nsite++
									okA, w := listIsDeduped(caller, c.Args[i], depth+1)
									if !okA {
										all = false
									}
									from = w
								}
							}
						}
						return nsite > 0 && all, from
					}
				}
				return false, ""
			}
			ast.Inspect(fi.Decl.Body, func(x ast.Node) bool {
				as, ok := x.(*ast.AssignStmt)
				if !ok || len(as.Lhs) != 1 || len(as.Rhs) != 1 {
					return true
				}
				c, ok := ast.Unparen(as.Rhs[0]).(*ast.CallExpr)
				if !ok || calleeName(info, c) != "builtin.append" || len(c.Args) < 2 {
					return true
				}
				if !isHostList(info, as.Lhs[0]) || exprStr(c.Args[0]) != exprStr(as.Lhs[0]) {
					return true
				}
				n++
				name := fi.Name + " appends " + exprStr(c.Args[1]) + " to the replica list"
				arg := c.Args[1]
				ok2 := hostDeduped(fi, as, arg, 0)
				why := "dominated by a negative membership test on " + exprStr(arg)
				if !ok2 {
					// element of a list that only holds deduped hosts: sh := skippedHosts[k]; skippedHosts := skipped[dc]
					src := arg
					if c.Ellipsis.IsValid() {
						if sl, isSl := ast.Unparen(arg).(*ast.SliceExpr); isSl {
							src = sl.X
						}
					} else if id, isId := ast.Unparen(arg).(*ast.Ident); isId {
						if def := localDef(info, fi, id); def != nil {
							if ix, isIx := ast.Unparen(def).(*ast.IndexExpr); isIx {
								src = ix.X
							}
						}
					}
					if ix, isIx := ast.Unparen(arg).(*ast.IndexExpr); isIx && !c.Ellipsis.IsValid() {
						src = ix.X
					}
					if okL, from := listIsDeduped(fi, src, 0); okL {
						ok2 = true
						why = "taken from " + from + ", which only receives hosts that passed the membership test"
					}
				}
				r.Check(ok2, as, name, why, "a node is appended to a token's replica list without a preceding negative membership test on a per-token set: with virtual nodes the same node is listed twice (and displaces a real replica; the token-aware policy offers it twice)")
				return true
			})
		}
		if n == 0 {
			r.Unresolved("%s: no append to a replica list", impl.Name)
		}
	}
}

// localDef returns the single defining right-hand side of local variable id in fi (nil if not exactly one).
func localDef(info *types.Info, fi *FuncInfo, id *ast.Ident) ast.Expr {
	obj := info.Uses[id]
	var def ast.Expr
	cnt := 0
	ast.Inspect(fi.Decl.Body, func(n ast.Node) bool {
		if as, ok := n.(*ast.AssignStmt); ok && len(as.Lhs) == len(as.Rhs) {
			for i, l := range as.Lhs {
				if lid, ok := l.(*ast.Ident); ok && (info.Defs[lid] == obj || info.Uses[lid] == obj && as.Tok == token.ASSIGN) && lid != id {
					def = as.Rhs[i]
					cnt++
				}
			}
		}
		// var name = value
		if vs, ok := n.(*ast.ValueSpec); ok && len(vs.Names) == len(vs.Values) {
			for i, nm := range vs.Names {
				if obj != nil && info.Defs[nm] == obj && nm != id {
					def = vs.Values[i]
					cnt++
				}
			}
		}
		return true
	})
	if cnt == 0 {
		return nil
	}
	return def
}

func c10r2(p *Program, r *Report) {
	for _, name := range []string{"(tokenRingReplicas).replicasFor", "(*tokenRing).GetHostForToken"} {
		fi := r.NeedFunc(name)
		if fi == nil {
			continue
		}
		n := 0
		inspectNoLit(fi.Decl.Body, func(x ast.Node) bool {
			ix, ok := x.(*ast.IndexExpr)
			if !ok {
				return true
			}
			if _, isMap := fi.Pkg.TypesInfo.TypeOf(ix.X).Underlying().(*types.Map); isMap {
				return true
			}
			n++
			ok2, why := dischargeBounds(p, BoundsOb{Fn: fi, Node: ix, Kind: "index"})
			r.Check(ok2, ix, constructKey(fi, ix), why, "ring lookup indexes without the empty check / wrap-around having established the bound: "+why+" (lookup of a token above the last ring token, or on an empty ring, panics)")
			return true
		})
		if n == 0 {
			r.Unresolved("%s: no index expression", name)
		}
	}
}

func c10r3(p *Program, r *Report) {
	fi := r.NeedFunc("getReplicationFactorFromOpts")
	if fi == nil {
		return
	}
	g := p.GraphOf(fi)
	info := g.Info
	facts := g.GuardFacts()
	n := 0
	for _, e := range g.Exits() {
		rs, ok := e.Node.(*ast.ReturnStmt)
		if !ok || len(rs.Results) != 2 || !isNil(info, rs.Results[1]) {
			continue
		}
		n++
		f, _ := facts.Before(rs)
		d := newDBM(g, f, nil)
		okNN := d.nonNeg(rs.Results[0])
		// value parsed from a string must have been checked for a conversion error
		r.Check(okNN, rs, "getReplicationFactorFromOpts success return "+exprStr(rs.Results[0])+" is non-negative", "value >= 0 known", "a negative replication factor is accepted: the replica walk allocates with a negative capacity (panic) or never terminates early")
		if id, isId := ast.Unparen(rs.Results[0]).(*ast.Ident); isId {
			if def := localDef(info, fi, id); def != nil {
				if c, isCall := ast.Unparen(def).(*ast.CallExpr); isCall && strings.HasPrefix(calleeName(info, c), "strconv.") {
					okErr := false
					for atom, v := range f.m {
						if v && atom == "err == nil" {
							okErr = true
						}
					}
					r.Check(okErr, rs, "getReplicationFactorFromOpts success return after a parse error check", "err == nil known", "a string that is not a number is accepted as replication factor 0")
				}
			}
		}
	}
	if n == 0 {
		r.Unresolved("getReplicationFactorFromOpts: no success return")
	}
}

func c10r4(p *Program, r *Report) {
	for _, impl := range replicaMapImpls(p) {
		found := false
		for _, fi := range p.unitsOf(impl) {
			fi := fi
			info := fi.Pkg.TypesInfo
			ast.Inspect(fi.Decl.Body, func(x ast.Node) bool {
				fs, ok := x.(*ast.ForStmt)
				if !ok || fs.Cond == nil {
					return true
				}
				// the inner walk: a for loop nested in another loop (or moved into a helper of its own)
				if fi == impl && !p.inLoop(fs, fi.Decl) {
					return true
				}
				// does it index a []hostToken?
				var tokIdx *ast.IndexExpr
				ast.Inspect(fs.Body, func(m ast.Node) bool {
					if ix, ok := m.(*ast.IndexExpr); ok && tokIdx == nil {
						if t := info.TypeOf(ix.X); t != nil && strings.Contains(t.String(), "hostToken") {
							tokIdx = ix
						}
					}
					return true
				})
				if tokIdx == nil {
					return true
				}
				found = true
				tokens := exprStr(tokIdx.X)
				// names for the ring size: len(tokens) and locals bound once to it
				sizes := map[string]bool{"len(" + tokens + ")": true}
				ast.Inspect(fi.Decl.Body, func(m ast.Node) bool {
					if as, ok := m.(*ast.AssignStmt); ok && len(as.Lhs) == 1 && len(as.Rhs) == 1 && exprStr(as.Rhs[0]) == "len("+tokens+")" {
						if lid, isId := as.Lhs[0].(*ast.Ident); isId && info.Defs[lid] != nil && singleAssigned(info, fi.Decl.Body, info.Defs[lid]) {
							sizes[lid.Name] = true
						}
					}
					return true
				})
				if tid, isId := ast.Unparen(tokIdx.X).(*ast.Ident); isId && !neverAssigned(info, fs, info.Uses[tid]) {
					sizes = map[string]bool{"len(" + tokens + ")": true}
				}
				// loop variable
				loopVar := ""
				if as, ok := fs.Init.(*ast.AssignStmt); ok && len(as.Lhs) == 1 {
					loopVar = exprStr(as.Lhs[0])
				}
				var atoms []string
				var split func(e ast.Expr)
				split = func(e ast.Expr) {
					e = ast.Unparen(e)
					if b, ok := e.(*ast.BinaryExpr); ok && b.Op == token.LAND {
						split(b.X)
						split(b.Y)
						return
					}
					atoms = append(atoms, exprStr(e))
				}
				split(fs.Cond)
				bounded := false
				for _, a := range atoms {
					for sz := range sizes {
						if a == loopVar+" < "+sz {
							bounded = true
						}
					}
				}
				r.Check(bounded, fs, fi.Name+" ring walk covers every ring position", "bounded by "+loopVar+" < len("+tokens+")",
					"the clockwise walk is not bounded by the number of ring positions (len("+tokens+")): with virtual nodes it stops before enough distinct nodes were seen (replica lists too short) or runs past the ring")
				// index stays inside the ring: modulo len(tokens) or explicit wrap
				idx := exprStr(tokIdx.Index)
				wrapOK := false
				for sz := range sizes {
					if strings.Contains(idx, "% "+sz) {
						wrapOK = true
					}
				}
				if !wrapOK {
					if id, ok := ast.Unparen(tokIdx.Index).(*ast.Ident); ok {
						// p := i + j; if p >= len(tokens) { p -= len(tokens) }
						ast.Inspect(fs.Body, func(m ast.Node) bool {
							if ifs, ok := m.(*ast.IfStmt); ok {
								for sz := range sizes {
									if exprStr(ifs.Cond) == id.Name+" >= "+sz {
										wrapOK = true
									}
								}
							}
							return true
						})
					}
				}
				if !wrapOK {
					// the position is computed by a helper that wraps at the size it is given
					if hc, ok := ast.Unparen(tokIdx.Index).(*ast.CallExpr); ok {
						if fn := calleeOf(info, hc); fn != nil {
							if h := p.FuncOf(fn); h != nil && h.Pkg == p.Root {
								if k, isWrap := wrapsAtParam(h); isWrap && k < len(hc.Args) && sizes[exprStr(hc.Args[k])] {
									wrapOK = true
								}
							}
						}
					}
				}
				r.Check(wrapOK, tokIdx, fi.Name+" ring walk wraps around", "index reduced modulo len("+tokens+")", "the walk index is not wrapped at the end of the ring")
				return true
			})
		}
		if !found {
			r.Unresolved("%s: no ring walk loop found", impl.Name)
		}
	}
}

func c10r5(p *Program, r *Report) {
	fi := r.NeedFunc("getStrategy")
	if fi == nil {
		return
	}
	info := fi.Pkg.TypesInfo
	classes := map[string]string{"SimpleStrategy": "simpleStrategy", "NetworkTopologyStrategy": "networkTopology"}
	tr := newReadTracer(p)
	tr.prims = map[string]string{}
	tr.noAuto = func(string) bool { return true }
	// the arms may have been moved into functions of their own: they belong to the decision
	units := []*FuncInfo{fi}
	for _, h := range p.privateCallees(fi) {
		if h.Decl.Recv == nil && h.Name != "getReplicationFactorFromOpts" {
			tr.inline[h.Name] = true
			units = append(units, h)
		}
	}
	got := map[string]map[string]bool{}
	otherStrategy := ""
	for _, st := range tr.run(fi, 4) {
		if st.retStmt == nil || len(st.retStmt.Results) != 1 {
			continue
		}
		lits := trueLits(st, "strings.Contains")
		typ := "nil"
		res, rinfo := st.retStmt.Results[0], info
		if c, isCall := ast.Unparen(res).(*ast.CallExpr); isCall && tr.inline[calleeName(info, c)] && len(st.retExprs) == 1 {
			// `return helper(...)`: what the helper returned on this path
			res, rinfo = st.retExprs[0], p.Func(calleeName(info, c)).Pkg.TypesInfo
		}
		if !isNil(rinfo, res) {
			typ = typeNameOf(rinfo.TypeOf(res))
		}
		cls := ""
		for _, l := range lits {
			if _, known := classes[l]; known {
				cls = l
			}
		}
		if cls == "" {
			if typ != "nil" {
				otherStrategy = typ
			}
			continue
		}
		if got[cls] == nil {
			got[cls] = map[string]bool{}
		}
		got[cls][typ] = true
	}
	for class, typ := range classes {
		if len(got[class]) == 0 {
			r.Bad(fi.Decl, "getStrategy handles "+class, "no case for "+class)
			continue
		}
		okType := got[class][typ]
		for t := range got[class] {
			if t != typ && t != "nil" {
				okType = false
			}
		}
		r.Check(okType, fi.Decl, "getStrategy "+class+" -> "+typ, "class name selects its strategy", "keyspaces with class "+class+" are not given the "+typ+" placement")
	}
	if otherStrategy != "" {
		r.Bad(fi.Decl, "getStrategy gives no strategy for other classes", "a keyspace whose class is neither SimpleStrategy nor NetworkTopologyStrategy is given a "+otherStrategy)
	}
	// a replication-factor parse error never yields a strategy with a made-up factor: error branches return nil / continue
	n := 0
	for _, u := range units {
		ast.Inspect(u.Decl.Body, func(x ast.Node) bool {
			ifs, ok := x.(*ast.IfStmt)
			if !ok {
				return true
			}
			call, trueErr := p.errCheckOf(info, ifs.Cond)
			if call == nil || !isCallTo(info, call, "getReplicationFactorFromOpts") || !trueErr {
				return true
			}
			n++
			last := ifs.Body.List[len(ifs.Body.List)-1]
			okStop := false
			switch s := last.(type) {
			case *ast.ReturnStmt:
				okStop = len(s.Results) == 1 && isNil(info, s.Results[0])
			case *ast.BranchStmt:
				okStop = s.Tok == token.CONTINUE
			}
			r.Check(okStop, ifs, "getStrategy does not use an unparsable replication factor", "error branch returns no strategy / skips the datacenter", "a replication factor that failed to parse is still used")
			return true
		})
	}
	if n == 0 {
		r.Unresolved("getStrategy never checks getReplicationFactorFromOpts' error")
	}
}

// c10r6: per-DC bookkeeping of networkTopology.replicaMap. In every statement block the hosts appended to the
// replica list (1 per single append, a symbolic amount per counting loop / variadic append) must equal the
// additions to the per-DC count (x++, x := count + 1, x += k).
func c10r6(p *Program, r *Report) {
	fi := r.NeedFunc("(*networkTopology).replicaMap")
	if fi == nil {
		return
	}
	info := fi.Pkg.TypesInfo
	isReplicaAppend := func(as *ast.AssignStmt) (*ast.CallExpr, bool) {
		if len(as.Lhs) != 1 || len(as.Rhs) != 1 {
			return nil, false
		}
		c, ok := ast.Unparen(as.Rhs[0]).(*ast.CallExpr)
		if !ok || calleeName(info, c) != "builtin.append" || len(c.Args) < 2 {
			return nil, false
		}
		if !isFieldPath(as.Lhs[0]) || exprStr(c.Args[0]) != exprStr(as.Lhs[0]) {
			return nil, false
		}
		if t := info.TypeOf(as.Lhs[0]); t == nil || !strings.Contains(t.String(), "[]*") || !strings.Contains(t.String(), "HostInfo") {
			return nil, false
		}
		return c, true
	}
	isCountExpr := func(e ast.Expr) bool { // replicasInDC[dc]
		ix, ok := ast.Unparen(e).(*ast.IndexExpr)
		if !ok {
			return false
		}
		m, ok := info.TypeOf(ix.X).Underlying().(*types.Map)
		return ok && types.Identical(m.Elem(), types.Typ[types.Int]) && types.Identical(m.Key(), types.Typ[types.String])
	}
	// the walk loop: the innermost loop whose body appends to the replica list outside a nested counting loop
	var walk *ast.ForStmt
	ast.Inspect(fi.Decl.Body, func(x ast.Node) bool {
		f, ok := x.(*ast.ForStmt)
		if !ok {
			return true
		}
		for _, c := range callsIn(f.Body) {
			if calleeName(info, c) == "builtin.delete" {
				_ = c
			}
		}
		hasCount := false
		ast.Inspect(f.Body, func(y ast.Node) bool {
			if ix, ok := y.(*ast.IndexExpr); ok && isCountExpr(ix) {
				hasCount = true
			}
			return true
		})
		if hasCount && walk == nil {
			walk = f
		}
		return true
	})
	var walkNode ast.Node
	var walkBody []ast.Stmt
	if walk != nil {
		walkNode, walkBody = walk, walk.Body.List
	} else {
		// the step of the walk was moved into a helper that a loop of replicaMap calls once per ring position
		for _, u := range p.unitsOf(fi)[1:] {
			writesCount := false
			ast.Inspect(u.Decl.Body, func(y ast.Node) bool {
				switch z := y.(type) {
				case *ast.AssignStmt:
					for _, l := range z.Lhs {
						if isCountExpr(l) {
							writesCount = true
						}
					}
				case *ast.IncDecStmt:
					if isCountExpr(z.X) {
						writesCount = true
					}
				}
				return true
			})
			appends := false
			ast.Inspect(u.Decl.Body, func(y ast.Node) bool {
				if as, ok := y.(*ast.AssignStmt); ok {
					if _, ok := isReplicaAppend(as); ok {
						appends = true
					}
				}
				return true
			})
			if !writesCount || !appends {
				continue
			}
			calledInLoop := false
			ast.Inspect(fi.Decl.Body, func(y ast.Node) bool {
				if es, ok := y.(*ast.ExprStmt); ok {
					if c, ok := es.X.(*ast.CallExpr); ok && calleeOf(info, c) == u.Obj && p.inLoop(es, fi.Decl) {
						calledInLoop = true
					}
				}
				return true
			})
			if calledInLoop && walkNode == nil {
				walkNode, walkBody = u.Decl, u.Decl.Body.List
			}
		}
	}
	if walkNode == nil {
		r.Unresolved("networkTopology.replicaMap: the clockwise walk loop that counts replicas per datacenter was not found")
		return
	}
	// affine forms over symbols: "" (constant), "C" (the count at the start of the iteration), loop counters
	type lin map[string]int
	add := func(a, b lin, sign int) lin {
		n := lin{}
		for k, v := range a {
			n[k] = v
		}
		for k, v := range b {
			n[k] += sign * v
		}
		for k, v := range n {
			if v == 0 {
				delete(n, k)
			}
		}
		return n
	}
	str := func(a lin) string {
		var ks []string
		for k := range a {
			ks = append(ks, k)
		}
		sort.Strings(ks)
		var parts []string
		for _, k := range ks {
			if k == "" {
				parts = append(parts, itoa(a[k]))
			} else {
				parts = append(parts, itoa(a[k])+"*"+k)
			}
		}
		if len(parts) == 0 {
			return "0"
		}
		return strings.Join(parts, " + ")
	}
	type pstate struct {
		env   map[string]lin // int locals
		app   lin            // hosts appended in this iteration
		count lin            // current value of replicasInDC[dc]
		done  bool
		unk   string
		rets  []lin // values of a helper's return statement (nil entry: not an affine integer)
		isRet bool
	}
	clone := func(s *pstate) *pstate {
		n := &pstate{env: map[string]lin{}, app: add(s.app, nil, 1), count: add(s.count, nil, 1), done: s.done, unk: s.unk, isRet: s.isRet, rets: s.rets}
		for k, v := range s.env {
			n.env[k] = add(v, nil, 1)
		}
		return n
	}
	var evalLin func(s *pstate, e ast.Expr) (lin, bool)
	evalLin = func(s *pstate, e ast.Expr) (lin, bool) {
		e = ast.Unparen(e)
		if k, ok := constInt(info, e); ok {
			if k == 0 {
				return lin{}, true
			}
			return lin{"": int(k)}, true
		}
		if isCountExpr(e) {
			return s.count, true
		}
		switch x := e.(type) {
		case *ast.Ident:
			if v, ok := s.env[x.Name]; ok {
				return v, true
			}
		case *ast.BinaryExpr:
			a, ok1 := evalLin(s, x.X)
			b, ok2 := evalLin(s, x.Y)
			if ok1 && ok2 {
				switch x.Op {
				case token.ADD:
					return add(a, b, 1), true
				case token.SUB:
					return add(a, b, -1), true
				}
			}
		}
		return nil, false
	}
	helperDepth := 0
	var exec func(list []ast.Stmt, in []*pstate) []*pstate
	exec = func(list []ast.Stmt, in []*pstate) []*pstate {
		states := in
		for _, st := range list {
			var next []*pstate
			for _, s := range states {
				if s.done {
					next = append(next, s)
					continue
				}
				switch x := st.(type) {
				case *ast.ReturnStmt:
					s.rets = nil
					for _, re := range x.Results {
						if v, ok := evalLin(s, re); ok {
							s.rets = append(s.rets, v)
						} else {
							s.rets = append(s.rets, nil)
						}
					}
					s.done, s.isRet = true, true
					next = append(next, s)
				case *ast.AssignStmt:
					// replicas, k = helper(replicas, ...): the helper's own appends and the integers it returns
					if len(x.Rhs) == 1 && len(x.Lhs) >= 1 {
						if hc, isCall := ast.Unparen(x.Rhs[0]).(*ast.CallExpr); isCall {
							if fn := calleeOf(info, hc); fn != nil {
								if callee := p.FuncOf(fn); callee != nil && callee.Pkg == p.Root && callee.Decl.Body != nil && callee != fi && helperDepth < 2 {
									touchesList := false
									for _, l := range x.Lhs {
										if t := info.TypeOf(l); t != nil && strings.Contains(t.String(), "[]*") && strings.Contains(t.String(), "HostInfo") {
											touchesList = true
										}
									}
									if touchesList {
										helperDepth++
										sub := exec(callee.Decl.Body.List, []*pstate{{env: map[string]lin{}, app: lin{}, count: lin{"C": 1}}})
										helperDepth--
										var sumApp lin
										var sumRets []lin
										agree := len(sub) > 0
										for i, o := range sub {
											if o.unk != "" || !o.isRet || str(add(o.count, lin{"C": 1}, -1)) != "0" {
												agree = false
												break
											}
											if i == 0 {
												sumApp, sumRets = o.app, o.rets
												continue
											}
											if str(o.app) != str(sumApp) || len(o.rets) != len(sumRets) {
												agree = false
												break
											}
											for j := range o.rets {
												if (o.rets[j] == nil) != (sumRets[j] == nil) || o.rets[j] != nil && str(o.rets[j]) != str(sumRets[j]) {
													agree = false
												}
											}
										}
										if !agree || len(sumRets) != len(x.Lhs) {
											s.unk = "helper " + callee.Name + " called at " + p.Pos(x) + " changes the replica list in a way that is not summarised"
											next = append(next, s)
											continue
										}
										ren := func(a lin) lin {
											n := lin{}
											for k, v := range a {
												if k == "" {
													n[k] = v
												} else {
													n[callee.Name+"."+k] = v
												}
											}
											return n
										}
										s.app = add(s.app, ren(sumApp), 1)
										for j, l := range x.Lhs {
											if id, isId := ast.Unparen(l).(*ast.Ident); isId {
												if sumRets[j] != nil {
													s.env[id.Name] = ren(sumRets[j])
												} else {
													delete(s.env, id.Name)
												}
											}
										}
										next = append(next, s)
										continue
									}
								}
							}
						}
					}
					if len(x.Lhs) != len(x.Rhs) || len(x.Lhs) > 1 {
						// tuple assignments: integer destinations become unknown
						for _, l := range x.Lhs {
							if id, isId := ast.Unparen(l).(*ast.Ident); isId {
								delete(s.env, id.Name)
							}
							if isCountExpr(l) {
								s.unk = "the per-datacenter count is set by a tuple assignment at " + p.Pos(x)
							}
						}
					}
					if c, ok := isReplicaAppend(x); ok {
						if c.Ellipsis.IsValid() {
							if sl, ok := ast.Unparen(c.Args[1]).(*ast.SliceExpr); ok && sl.Low == nil && sl.High != nil {
								if v, ok := evalLin(s, sl.High); ok {
									s.app = add(s.app, v, 1)
								} else {
									s.app = add(s.app, lin{exprStr(sl.High): 1}, 1)
								}
							} else {
								s.unk = "append of an unknown number of hosts at " + p.Pos(x)
							}
						} else {
							s.app = add(s.app, lin{"": len(c.Args) - 1}, 1)
						}
						next = append(next, s)
						continue
					}
					if len(x.Lhs) == 1 && len(x.Rhs) == 1 {
						lhs := ast.Unparen(x.Lhs[0])
						isInt := false
						if t := info.TypeOf(lhs); t != nil {
							if b, ok := t.Underlying().(*types.Basic); ok && b.Info()&types.IsInteger != 0 {
								isInt = true
							}
						}
						if isInt {
							v, ok := evalLin(s, x.Rhs[0])
							cur, okCur := evalLin(s, lhs)
							switch x.Tok {
							case token.ADD_ASSIGN:
								if ok && okCur {
									v = add(cur, v, 1)
								} else {
									ok = false
								}
							case token.SUB_ASSIGN:
								if ok && okCur {
									v = add(cur, v, -1)
								} else {
									ok = false
								}
							}
							if isCountExpr(lhs) {
								if ok {
									s.count = v
								} else {
									s.unk = "the per-datacenter count is set to " + exprStr(x.Rhs[0]) + " at " + p.Pos(x)
								}
							} else if id, isId := lhs.(*ast.Ident); isId {
								if ok {
									s.env[id.Name] = v
								} else {
									delete(s.env, id.Name)
								}
							}
						}
					}
					next = append(next, s)
				case *ast.DeclStmt:
					// var k int
					if gd, ok := x.Decl.(*ast.GenDecl); ok {
						for _, sp := range gd.Specs {
							if vs, ok := sp.(*ast.ValueSpec); ok && len(vs.Values) == 0 {
								for _, nm := range vs.Names {
									if t := info.TypeOf(nm); t != nil {
										if b, ok := t.Underlying().(*types.Basic); ok && b.Info()&types.IsInteger != 0 {
											s.env[nm.Name] = lin{}
										}
									}
								}
							}
						}
					}
					next = append(next, s)
				case *ast.IncDecStmt:
					if isCountExpr(x.X) {
						d := 1
						if x.Tok == token.DEC {
							d = -1
						}
						s.count = add(s.count, lin{"": d}, 1)
					} else if id, ok := x.X.(*ast.Ident); ok {
						if v, ok := s.env[id.Name]; ok {
							d := 1
							if x.Tok == token.DEC {
								d = -1
							}
							s.env[id.Name] = add(v, lin{"": d}, 1)
						}
					}
					next = append(next, s)
				case *ast.BranchStmt:
					s.done = true
					next = append(next, s)
				case *ast.ExprStmt:
					if c, ok := x.X.(*ast.CallExpr); ok && calleeName(info, c) == "builtin.panic" {
						continue // the path ends in a panic: not an iteration outcome
					}
					next = append(next, s)
				case *ast.IfStmt:
					if x.Init != nil {
						for _, r2 := range exec([]ast.Stmt{x.Init}, []*pstate{s}) {
							s = r2
						}
					}
					t := exec(x.Body.List, []*pstate{clone(s)})
					var e []*pstate
					switch el := x.Else.(type) {
					case *ast.BlockStmt:
						e = exec(el.List, []*pstate{clone(s)})
					case *ast.IfStmt:
						e = exec([]ast.Stmt{el}, []*pstate{clone(s)})
					default:
						e = []*pstate{clone(s)}
					}
					next = append(next, t...)
					next = append(next, e...)
				case *ast.ForStmt:
					// counting loop `for ; k < ...; k++ { ...; replicas = append(replicas, x) }`: k more hosts, k is a symbol
					inc, okInc := x.Post.(*ast.IncDecStmt)
					napp, other := 0, false
					for _, bs := range x.Body.List {
						if as, ok := bs.(*ast.AssignStmt); ok {
							if c, ok := isReplicaAppend(as); ok && !c.Ellipsis.IsValid() {
								napp += len(c.Args) - 1
								continue
							}
							for _, l := range as.Lhs {
								if isCountExpr(l) {
									other = true
								}
							}
						}
					}
					if !okInc && x.Post == nil && x.Init == nil && len(x.Body.List) > 0 {
						// `for k < ... { ...; k++ }`: the counter is stepped by the last statement of the body
						if last, isInc := x.Body.List[len(x.Body.List)-1].(*ast.IncDecStmt); isInc {
							if cid, isId := last.X.(*ast.Ident); isId {
								steps := 0
								ast.Inspect(x.Body, func(y ast.Node) bool {
									switch z := y.(type) {
									case *ast.IncDecStmt:
										if isIdentOf(info, z.X, info.Uses[cid]) {
											steps++
										}
									case *ast.AssignStmt:
										for _, l := range z.Lhs {
											if isIdentOf(info, l, info.Uses[cid]) {
												steps += 2
											}
										}
									case *ast.BranchStmt:
										steps += 2 // continue would skip the step
									}
									return true
								})
								if steps == 1 {
									inc, okInc = last, true
								}
							}
						}
					}
					if okInc && inc.Tok == token.INC && !other {
						if id, ok := inc.X.(*ast.Ident); ok {
							start, known := s.env[id.Name]
							if !known || len(start) != 0 {
								s.unk = "counting loop at " + p.Pos(x) + " does not start at a zero counter"
							}
							s.env[id.Name] = lin{id.Name: 1}
							s.app = add(s.app, lin{id.Name: napp}, 1)
							next = append(next, s)
							continue
						}
					}
					if napp > 0 || other {
						s.unk = "loop at " + p.Pos(x) + " changes the replica list or the count in a way that is not a simple counting loop"
					}
					next = append(next, s)
				case *ast.RangeStmt:
					touches := false
					ast.Inspect(x.Body, func(y ast.Node) bool {
						if as, ok := y.(*ast.AssignStmt); ok {
							if _, ok := isReplicaAppend(as); ok {
								touches = true
							}
						}
						if ix, ok := y.(*ast.IndexExpr); ok && isCountExpr(ix) {
							touches = true
						}
						return true
					})
					if touches {
						s.unk = "range loop at " + p.Pos(x) + " changes the replica list or the count"
					}
					next = append(next, s)
				case *ast.BlockStmt:
					next = append(next, exec(x.List, []*pstate{s})...)
				case *ast.SwitchStmt:
					if x.Init != nil {
						for _, r2 := range exec([]ast.Stmt{x.Init}, []*pstate{s}) {
							s = r2
						}
					}
					hasDefault := false
					for _, cl := range x.Body.List {
						cc := cl.(*ast.CaseClause)
						if cc.List == nil {
							hasDefault = true
						}
						for _, o := range exec(cc.Body, []*pstate{clone(s)}) {
							// a break inside a switch clause only leaves the switch
							if len(cc.Body) > 0 {
								if br, isBr := cc.Body[len(cc.Body)-1].(*ast.BranchStmt); isBr && br.Tok == token.BREAK && br.Label == nil {
									o.done = false
								}
							}
							next = append(next, o)
						}
					}
					if !hasDefault {
						next = append(next, clone(s))
					}
				default:
					touches := false
					ast.Inspect(st, func(y ast.Node) bool {
						if as, ok := y.(*ast.AssignStmt); ok {
							if _, ok := isReplicaAppend(as); ok {
								touches = true
							}
						}
						if ix, ok := y.(*ast.IndexExpr); ok && isCountExpr(ix) {
							if pa, isAs := p.Parent(ix).(*ast.AssignStmt); isAs {
								for _, l := range pa.Lhs {
									if l == ast.Expr(ix) {
										touches = true
									}
								}
							}
							if _, isInc := p.Parent(ix).(*ast.IncDecStmt); isInc {
								touches = true
							}
						}
						return true
					})
					if touches {
						s.unk = fmt.Sprintf("statement %T at %s changes the replica list or the count in a form the walk analysis does not model", st, p.Pos(st))
					}
					next = append(next, s)
				}
			}
			states = next
			if len(states) > 4096 {
				break
			}
		}
		return states
	}
	start := &pstate{env: map[string]lin{}, app: lin{}, count: lin{"C": 1}}
	paths := exec(walkBody, []*pstate{start})
	if len(paths) == 0 || len(paths) > 4096 {
		r.Unresolved("networkTopology.replicaMap: %d paths through one step of the walk", len(paths))
		return
	}
	seen := map[string]bool{}
	for _, s := range paths {
		if s.unk != "" {
			r.Unresolved("networkTopology.replicaMap: %s", s.unk)
			continue
		}
		delta := add(s.count, lin{"C": 1}, -1)
		key := "appended " + str(s.app) + ", counted " + str(delta)
		if seen[key] {
			continue
		}
		seen[key] = true
		r.Check(str(s.app) == str(delta), walkNode, "(*networkTopology).replicaMap walk step: "+key, "hosts appended == increase of the per-datacenter count",
			"on a path through one step of the clockwise walk "+str(s.app)+" host(s) are appended to the replica list while the per-datacenter replica count grows by "+str(delta)+": the walk then takes too many (or too few) nodes of that datacenter and another datacenter loses its slots")
	}
}

// c10r7: the replicas of a token range depend on the ring positions that follow that very token. The list stored
// for a range must therefore be created inside the iteration for that token (make / nil literal, then appended
// to); a list obtained from a map, an outer variable or a call is shared between ranges whose successors differ.
func c10r7(p *Program, r *Report) {
	for _, name := range []string{"(*simpleStrategy).replicaMap", "(*networkTopology).replicaMap"} {
		fi := r.NeedFunc(name)
		if fi == nil {
			continue
		}
		info := fi.Pkg.TypesInfo
		n := 0
		ast.Inspect(fi.Decl.Body, func(x ast.Node) bool {
			cl, ok := x.(*ast.CompositeLit)
			if !ok || typeNameOf(info.TypeOf(cl)) != "hostTokens" || len(cl.Elts) != 2 {
				return true
			}
			var listExpr ast.Expr = cl.Elts[1]
			if kv, ok := listExpr.(*ast.KeyValueExpr); ok {
				listExpr = kv.Value
			}
			if c, isCall := ast.Unparen(listExpr).(*ast.CallExpr); isCall {
				// the list is produced by a helper called in this iteration: it must create it
				if fn := calleeOf(info, c); fn != nil {
					if callee := p.FuncOf(fn); callee != nil && callee.Pkg == p.Root {
						n++
						kind := p.listResult(callee, 0)
						r.Check(kind == "fresh", cl, name+": replica list of a token range is built for that range", "fresh list created by "+callee.Name+" for this range",
							"the list stored for a token range is returned by "+callee.Name+", which does not create it for this call: ranges share one replica list, so keys are routed to non-replicas")
					}
				}
				return true
			}
			id, ok := ast.Unparen(listExpr).(*ast.Ident)
			if !ok {
				return true
			}
			n++
			obj := info.Uses[id]
			// the token loop this store belongs to
			var loop *ast.BlockStmt
			for cur := p.Parent(cl); cur != nil && cur != ast.Node(fi.Decl); cur = p.Parent(cur) {
				switch l := cur.(type) {
				case *ast.RangeStmt:
					loop = l.Body
				case *ast.ForStmt:
					loop = l.Body
				}
			}
			var bad []string
			ndef := 0
			ast.Inspect(fi.Decl.Body, func(y ast.Node) bool {
				switch s := y.(type) {
				case *ast.AssignStmt:
					for i, l := range s.Lhs {
						lid, ok := l.(*ast.Ident)
						if !ok || (info.Defs[lid] != obj && info.Uses[lid] != obj) {
							continue
						}
						ndef++
						if loop != nil && !posWithin(loop, s.Pos()) {
							bad = append(bad, p.Pos(s)+": defined outside the per-token loop")
							continue
						}
						var rhs ast.Expr
						if len(s.Rhs) == len(s.Lhs) {
							rhs = ast.Unparen(s.Rhs[i])
						} else {
							rhs = ast.Unparen(s.Rhs[0])
						}
						okDef := false
						switch v := rhs.(type) {
						case *ast.CallExpr:
							f := exprStr(v.Fun)
							okDef = f == "make" || f == "append" && len(v.Args) > 0 && exprStr(v.Args[0]) == id.Name
							if fn := calleeOf(info, v); fn != nil && !okDef {
								if callee := p.FuncOf(fn); callee != nil && callee.Pkg == p.Root {
									// a helper that creates the list, or that extends the list it is given
									ri := 0
									if len(s.Rhs) != len(s.Lhs) {
										ri = i
									}
									switch kind := p.listResult(callee, ri); {
									case kind == "fresh":
										okDef = true
									case strings.HasPrefix(kind, "param:"):
										var k int
										for _, ch := range kind[len("param:"):] {
											k = k*10 + int(ch-'0')
										}
										okDef = k < len(v.Args) && exprStr(v.Args[k]) == id.Name
									}
								}
							}
						case *ast.CompositeLit:
							okDef = true
						case *ast.Ident:
							okDef = v.Name == "nil"
						case *ast.SelectorExpr:
							// a list kept in a field of a walk object that a method called earlier in this iteration re-creates
							okDef = loop != nil && p.fieldFreshInIteration(fi, loop, s, v)
						}
						if !okDef {
							bad = append(bad, p.Pos(s)+": "+id.Name+" = "+exprStr(rhs))
						}
					}
				case *ast.ValueSpec:
					for _, vn := range s.Names {
						if info.Defs[vn] == obj {
							ndef++
							if loop != nil && !posWithin(loop, s.Pos()) {
								bad = append(bad, p.Pos(s)+": declared outside the per-token loop")
							}
						}
					}
				}
				return true
			})
			r.Check(ndef > 0 && len(bad) == 0, cl, name+": replica list of a token range is built for that range", "fresh list created and filled inside the token's own iteration",
				"the list stored for a token range is not created in that range's iteration ("+strings.Join(bad, "; ")+"): ranges owned by one host but followed by different nodes share one replica list, so keys are routed to non-replicas")
			return true
		})
		if n == 0 {
			r.Unresolved("%s stores no hostTokens entry", name)
		}
	}
}

// wrapsAtParam: h returns an integer it reduced into a ring of the size given by parameter k: either `x % size`,
// or a variable x that is returned after `if x >= size { x -= size }`.
func wrapsAtParam(h *FuncInfo) (int, bool) {
	if h.Decl.Body == nil || h.Decl.Type.Params == nil {
		return 0, false
	}
	info := h.Pkg.TypesInfo
	var params []types.Object
	for _, f := range h.Decl.Type.Params.List {
		for _, n := range f.Names {
			params = append(params, info.Defs[n])
		}
	}
	idxOf := func(e ast.Expr) int {
		for i, o := range params {
			if isIdentOf(info, e, o) && neverAssigned(info, h.Decl.Body, o) {
				return i
			}
		}
		return -1
	}
	var rets []*ast.ReturnStmt
	inspectNoLit(h.Decl.Body, func(x ast.Node) bool {
		if rs, ok := x.(*ast.ReturnStmt); ok {
			rets = append(rets, rs)
		}
		return true
	})
	if len(rets) != 1 || len(rets[0].Results) != 1 {
		return 0, false
	}
	res := ast.Unparen(rets[0].Results[0])
	if b, ok := res.(*ast.BinaryExpr); ok && b.Op == token.REM {
		if k := idxOf(b.Y); k >= 0 {
			return k, true
		}
	}
	id, ok := res.(*ast.Ident)
	if !ok {
		return 0, false
	}
	obj := info.Uses[id]
	// the last statement before the return is the wrap
	list := h.Decl.Body.List
	if len(list) < 2 || list[len(list)-1] != ast.Stmt(rets[0]) {
		return 0, false
	}
	ifs, ok := list[len(list)-2].(*ast.IfStmt)
	if !ok || ifs.Else != nil || ifs.Init != nil || len(ifs.Body.List) != 1 {
		return 0, false
	}
	c, ok := ast.Unparen(ifs.Cond).(*ast.BinaryExpr)
	if !ok || c.Op != token.GEQ || !isIdentOf(info, c.X, obj) {
		return 0, false
	}
	k := idxOf(c.Y)
	as, ok := ifs.Body.List[0].(*ast.AssignStmt)
	if k < 0 || !ok || len(as.Lhs) != 1 || len(as.Rhs) != 1 || !isIdentOf(info, as.Lhs[0], obj) {
		return 0, false
	}
	switch as.Tok {
	case token.SUB_ASSIGN:
		if idxOf(as.Rhs[0]) == k {
			return k, true
		}
	case token.ASSIGN:
		if b, ok := ast.Unparen(as.Rhs[0]).(*ast.BinaryExpr); ok && (b.Op == token.SUB || b.Op == token.REM) && isIdentOf(info, b.X, obj) && idxOf(b.Y) == k {
			return k, true
		}
	}
	return 0, false
}

// fieldFreshInIteration: sel (X.f, a slice field) read at statement `at` inside the loop body holds a list created in
// this iteration: an earlier top-level statement of the loop body calls a method X.m(...) whose body starts its work
// on f by assigning it a fresh list at its top level, and every other assignment of f in the package extends f itself.
func (p *Program) fieldFreshInIteration(fi *FuncInfo, loop *ast.BlockStmt, at ast.Stmt, sel *ast.SelectorExpr) bool {
	info := fi.Pkg.TypesInfo
	f := fieldOf(info, sel)
	if f == nil {
		return false
	}
	isFresh := func(e ast.Expr) bool {
		switch v := ast.Unparen(e).(type) {
		case *ast.CallExpr:
			return exprStr(v.Fun) == "make"
		case *ast.CompositeLit:
			return true
		case *ast.Ident:
			return v.Name == "nil"
		}
		return false
	}
	// every assignment of the field: fresh or self-append
	okAll := true
	p.forEachFunc(false, func(u *FuncInfo) {
		uinfo := u.Pkg.TypesInfo
		ast.Inspect(u.Decl.Body, func(x ast.Node) bool {
			switch y := x.(type) {
			case *ast.AssignStmt:
				for i, l := range y.Lhs {
					if fieldOf(uinfo, l) != f {
						continue
					}
					if len(y.Rhs) != len(y.Lhs) {
						okAll = false
						continue
					}
					rhs := ast.Unparen(y.Rhs[i])
					if isFresh(rhs) {
						continue
					}
					if c, ok := rhs.(*ast.CallExpr); ok && exprStr(c.Fun) == "append" && len(c.Args) > 0 && exprStr(c.Args[0]) == exprStr(l) {
						continue
					}
					okAll = false
				}
			case *ast.UnaryExpr:
				if y.Op == token.AND && fieldOf(uinfo, y.X) == f {
					okAll = false
				}
			case *ast.KeyValueExpr:
				if k, ok := y.Key.(*ast.Ident); ok && uinfo.Uses[k] == types.Object(f) && !isFresh(y.Value) {
					okAll = false
				}
			}
			return true
		})
	})
	if !okAll {
		return false
	}
	for _, st := range loop.List {
		if st.Pos() >= at.Pos() {
			break
		}
		es, ok := st.(*ast.ExprStmt)
		if !ok {
			continue
		}
		c, ok := es.X.(*ast.CallExpr)
		if !ok {
			continue
		}
		rx := recvExpr(c)
		if rx == nil || exprStr(ast.Unparen(rx)) != exprStr(ast.Unparen(sel.X)) {
			continue
		}
		fn := calleeOf(info, c)
		if fn == nil {
			continue
		}
		m := p.FuncOf(fn)
		if m == nil || m.Decl.Body == nil {
			continue
		}
		for _, ms := range m.Decl.Body.List {
			if as, ok := ms.(*ast.AssignStmt); ok && len(as.Lhs) == 1 && len(as.Rhs) == 1 && fieldOf(m.Pkg.TypesInfo, as.Lhs[0]) == f && isFresh(as.Rhs[0]) {
				if rs, ok := ast.Unparen(as.Lhs[0]).(*ast.SelectorExpr); ok {
					if rid, isId := ast.Unparen(rs.X).(*ast.Ident); isId && p.isReceiverOf(m, rid) {
						return true
					}
				}
			}
		}
	}
	return false
}

// c10r8: Cassandra adds the nodes it had put aside (second and later nodes of a rack) as soon as every rack of the
// datacenter holds a replica - counting the rack of the node just accepted. The drain of the skipped list is
// therefore guarded by `len(seen racks) == len(racks of the dc)` evaluated AFTER the current rack was inserted (or,
// equivalently, len(seen)+1 evaluated before). A guard computed before the insertion and used after it is one node
// late: the skipped hosts are let in one accepted node too late (or never), so the replica order and, for RF above
// the rack count, the replica set differ from Cassandra's.
func c10r8(p *Program, r *Report) {
	impl := r.NeedFunc("(*networkTopology).replicaMap")
	if impl == nil {
		return
	}
	n := 0
	for _, fi := range p.unitsOf(impl) {
		g := p.GraphOf(fi)
		info := g.Info
		isRackSet := func(e ast.Expr) bool { // map[string]struct{} (or map[string]bool)
			t := info.TypeOf(e)
			if t == nil {
				return false
			}
			m, ok := t.Underlying().(*types.Map)
			if !ok {
				return false
			}
			if b, isB := m.Key().Underlying().(*types.Basic); !isB || b.Kind() != types.String {
				return false
			}
			switch el := m.Elem().Underlying().(type) {
			case *types.Struct:
				return el.NumFields() == 0
			case *types.Basic:
				return el.Kind() == types.Bool
			}
			return false
		}
		isSkippedElem := func(e ast.Expr) bool { // an element of a map[string][]*HostInfo entry, possibly through a local
			ix, ok := ast.Unparen(e).(*ast.IndexExpr)
			if !ok {
				return false
			}
			src := ast.Unparen(ix.X)
			if id, isId := src.(*ast.Ident); isId {
				if d := localDef(info, fi, id); d != nil {
					src = ast.Unparen(d)
				}
			}
			six, ok := src.(*ast.IndexExpr)
			if !ok {
				return false
			}
			t := info.TypeOf(six.X)
			if t == nil {
				return false
			}
			m, ok := t.Underlying().(*types.Map)
			return ok && strings.Contains(m.Elem().String(), "HostInfo")
		}
		// drain loops: the innermost loops that append elements of a skipped list to a replica list
		var drains []ast.Stmt
		seenDrain := map[ast.Node]bool{}
		ast.Inspect(fi.Decl.Body, func(y ast.Node) bool {
			as, ok := y.(*ast.AssignStmt)
			if !ok || len(as.Lhs) != 1 || len(as.Rhs) != 1 {
				return true
			}
			c, ok := ast.Unparen(as.Rhs[0]).(*ast.CallExpr)
			if !ok || calleeName(info, c) != "builtin.append" || len(c.Args) != 2 || exprStr(c.Args[0]) != exprStr(as.Lhs[0]) {
				return true
			}
			if t := info.TypeOf(as.Lhs[0]); t == nil || !strings.Contains(t.String(), "[]*") || !strings.Contains(t.String(), "HostInfo") {
				return true
			}
			if _, isIx := ast.Unparen(as.Lhs[0]).(*ast.IndexExpr); isIx {
				return true // an append to the skipped list itself
			}
			arg := c.Args[1]
			if id, isId := ast.Unparen(arg).(*ast.Ident); isId {
				if d := localDef(info, fi, id); d != nil {
					arg = d
				}
			}
			if !isSkippedElem(arg) {
				return true
			}
			loop := p.enclosing(as, fi.Decl, func(m ast.Node) bool {
				switch m.(type) {
				case *ast.ForStmt, *ast.RangeStmt:
					return true
				}
				return false
			})
			if loop != nil && !seenDrain[loop] {
				seenDrain[loop] = true
				drains = append(drains, loop.(ast.Stmt))
			}
			return true
		})
		// or: the drain was moved into a helper that is handed the skipped list of the datacenter
		ast.Inspect(fi.Decl.Body, func(y ast.Node) bool {
			c, ok := y.(*ast.CallExpr)
			if !ok {
				return true
			}
			fn := calleeOf(info, c)
			if fn == nil {
				return true
			}
			h := p.FuncOf(fn)
			if h == nil || h.Pkg != p.Root || h.Decl.Body == nil || h == fi {
				return true
			}
			for k, a := range c.Args {
				six, isIx := ast.Unparen(a).(*ast.IndexExpr)
				if !isIx {
					continue
				}
				t := info.TypeOf(six.X)
				if t == nil {
					continue
				}
				m, isM := t.Underlying().(*types.Map)
				if !isM || !strings.Contains(m.Elem().String(), "HostInfo") {
					continue
				}
				po := paramObj(h.Pkg.TypesInfo, h.Decl.Type, k)
				if po == nil {
					continue
				}
				// the helper appends elements of that parameter to a host list
				appends := false
				ast.Inspect(h.Decl.Body, func(z ast.Node) bool {
					ac, ok := z.(*ast.CallExpr)
					if !ok || calleeName(h.Pkg.TypesInfo, ac) != "builtin.append" || len(ac.Args) != 2 {
						return true
					}
					arg := ast.Unparen(ac.Args[1])
					if sl, isSl := arg.(*ast.SliceExpr); isSl && ac.Ellipsis.IsValid() {
						arg = ast.Unparen(sl.X)
					}
					if ix, isIx := arg.(*ast.IndexExpr); isIx {
						arg = ast.Unparen(ix.X)
					}
					if isIdentOf(h.Pkg.TypesInfo, arg, po) {
						appends = true
					}
					return true
				})
				if appends {
					if st, isStmt := p.stmtOf(c, fi).(ast.Stmt); isStmt && !seenDrain[st] {
						seenDrain[st] = true
						drains = append(drains, st)
					}
				}
			}
			return true
		})
		if len(drains) == 0 {
			continue
		}
		// insertion events: R[k] = v for a rack set R
		ef := g.Events(func(st Step) []string {
			if st.Kind != StNode {
				return nil
			}
			var out []string
			for _, l := range assignedLHS(st.Node) {
				if ix, ok := ast.Unparen(l).(*ast.IndexExpr); ok && isRackSet(ix.X) {
					out = append(out, "insert:"+exprStr(ix.X))
				}
			}
			return out
		})
		// insertedInScope: the set is inserted into within the walk step that contains the guard (the innermost loop
		// around it, else the whole function): that is the set of racks seen so far, not the table of all racks
		insertedInScope := func(guard *ast.IfStmt, set ast.Expr) bool {
			var scope ast.Node = fi.Decl.Body
			if l := p.enclosing(guard, fi.Decl, func(m ast.Node) bool {
				switch m.(type) {
				case *ast.ForStmt, *ast.RangeStmt:
					return true
				}
				return false
			}); l != nil {
				scope = l
			}
			found := false
			ast.Inspect(scope, func(y ast.Node) bool {
				for _, l := range assignedLHS(y) {
					if ix, ok := ast.Unparen(l).(*ast.IndexExpr); ok && exprStr(ix.X) == exprStr(set) {
						found = true
					}
				}
				return true
			})
			return found
		}
		for _, d := range drains {
			n++
			name := fi.Name + ": skipped hosts are let in when all racks are seen, counting the current rack"
			// the guard: the innermost enclosing if whose condition compares len(<rack set>) with another length
			var guard *ast.IfStmt
			wrongOther := ""
			var rackSet ast.Expr
			var evalAt ast.Node
			plusOne := false
			for cur := p.Parent(d); cur != nil && cur != ast.Node(fi.Decl) && guard == nil; cur = p.Parent(cur) {
				ifs, ok := cur.(*ast.IfStmt)
				if !ok || !posWithin(ifs.Body, d.Pos()) {
					continue
				}
				cond := ast.Expr(ifs.Cond)
				at := ast.Node(ifs.Cond)
				// a boolean local that names the comparison: it is evaluated where it is defined
				if id, isId := ast.Unparen(cond).(*ast.Ident); isId {
					if obj := info.Uses[id]; obj != nil && singleAssigned(info, fi.Decl.Body, obj) {
						if def := localDef(info, fi, id); def != nil {
							cond = def
							ast.Inspect(fi.Decl.Body, func(y ast.Node) bool {
								if as, ok := y.(*ast.AssignStmt); ok {
									for i, l := range as.Lhs {
										if lid, ok := l.(*ast.Ident); ok && info.Defs[lid] == obj && i < len(as.Rhs) {
											at = as
										}
									}
								}
								return true
							})
						}
					}
				}
				ast.Inspect(cond, func(y ast.Node) bool {
					b, ok := y.(*ast.BinaryExpr)
					if !ok || b.Op != token.EQL {
						return true
					}
					for _, side := range []ast.Expr{b.X, b.Y} {
						e := ast.Unparen(side)
						inc := false
						if sum, isSum := e.(*ast.BinaryExpr); isSum && sum.Op == token.ADD {
							if k, isK := constInt(info, sum.Y); isK && k == 1 {
								e, inc = ast.Unparen(sum.X), true
							}
						}
						if lc, isL := e.(*ast.CallExpr); isL && exprStr(lc.Fun) == "len" && len(lc.Args) == 1 && isRackSet(lc.Args[0]) && insertedInScope(ifs, lc.Args[0]) {
							// the other side: the number of racks this datacenter has, i.e. the length of another rack set
							other := b.Y
							if side == b.Y {
								other = b.X
							}
							oe := ast.Unparen(other)
							if oc, isOC := oe.(*ast.CallExpr); !isOC || exprStr(oc.Fun) != "len" || len(oc.Args) != 1 || !isRackSet(oc.Args[0]) {
								if id, isId := oe.(*ast.Ident); !isId || localDef(info, fi, id) == nil {
									wrongOther = exprStr(other)
								} else if d := localDef(info, fi, id); d != nil {
									if dc2, isDC := ast.Unparen(d).(*ast.CallExpr); !isDC || exprStr(dc2.Fun) != "len" || len(dc2.Args) != 1 || !isRackSet(dc2.Args[0]) {
										wrongOther = exprStr(other)
									}
								}
							}
							// the other side must be a length too (the racks the datacenter has)
							guard, rackSet, evalAt, plusOne = ifs, lc.Args[0], at, inc
							if at == ast.Node(ifs.Cond) {
								evalAt = b // the leaf the short-circuit evaluation reaches
							}
						}
					}
					return true
				})
			}
			if guard == nil {
				r.Unresolved("%s: the drain of the skipped hosts at %s is not guarded by a comparison of the seen-rack count", fi.Name, p.Pos(d))
				continue
			}
			if wrongOther != "" {
				r.Bad(d, name, "the number of racks seen is compared with "+wrongOther+", which is not the number of racks of this datacenter (the length of its rack set): the skipped hosts are let in too early or never")
				continue
			}
			ev := "insert:" + exprStr(rackSet)
			atEval, ok1 := ef.Sol.Before(g.FirstNodeIn(p.stmtOf(evalAt, fi)))
			atDrain, ok2 := ef.Sol.Before(g.FirstNodeIn(d))
			if !ok1 || !ok2 {
				r.Unresolved("%s: drain at %s unreachable in the flow graph", fi.Name, p.Pos(d))
				continue
			}
			insBefore, insAtDrain := atEval.Must[ev], atDrain.Must[ev]
			switch {
			case insBefore && !plusOne:
				r.OK(d, name, "len("+exprStr(rackSet)+") is compared after the current rack was inserted")
			case !insBefore && plusOne && atEval.Max[ev] == 0:
				r.OK(d, name, "len("+exprStr(rackSet)+")+1 is compared before the current rack is inserted")
			case !insBefore && insAtDrain && !plusOne:
				r.Bad(d, name, "the all-racks-seen test ("+p.Pos(evalAt)+") is evaluated before the current host's rack is added to "+exprStr(rackSet)+" and used after it: when the last unseen rack is met the skipped hosts are not let in, so replicas beyond the rack count are chosen later on the ring (or never) - not Cassandra's NetworkTopologyStrategy placement")
			default:
				r.Unresolved("%s: cannot relate the all-racks-seen test at %s to the insertion of the current rack", fi.Name, p.Pos(evalAt))
			}
		}
	}
	if n == 0 {
		r.Unresolved("networkTopology.replicaMap: no loop that lets the skipped hosts into the replica list was found")
	}
}

// c10r9: the owner of a token is the first ring entry whose token is >= the token, and entry 0 when there is none.
// In replicasFor and GetHostForToken: sort.Search runs over len(X) of the very slice X that is then indexed; the
// search result is only ever replaced by the constant 0, and only where it is known to be past the end; X is indexed
// by that variable or by the constant 0, nothing else.
func c10r9(p *Program, r *Report) {
	for _, name := range []string{"(tokenRingReplicas).replicasFor", "(*tokenRing).GetHostForToken"} {
		fi := r.NeedFunc(name)
		if fi == nil {
			continue
		}
		info := fi.Pkg.TypesInfo
		// the binary search: in the function itself, or in a helper of the module it hands the ring's size to
		sf := fi
		var search, hcall *ast.CallExpr
		for _, c := range callsIn(fi.Decl.Body) {
			if calleeName(info, c) == "sort.Search" && len(c.Args) == 2 && search == nil {
				search = c
			}
		}
		if search == nil {
			for _, c := range callsIn(fi.Decl.Body) {
				fn := calleeOf(info, c)
				if fn == nil || search != nil {
					continue
				}
				h := p.FuncOf(fn)
				if h == nil || h.Pkg != p.Root || h.Decl.Body == nil || h == fi {
					continue
				}
				for _, hc := range callsIn(h.Decl.Body) {
					if calleeName(h.Pkg.TypesInfo, hc) == "sort.Search" && len(hc.Args) == 2 && search == nil {
						search, sf, hcall = hc, h, c
					}
				}
			}
		}
		if search == nil {
			r.Unresolved("%s: no sort.Search call", name)
			continue
		}
		sinfo := sf.Pkg.TypesInfo
		sfacts := p.GraphOf(sf).GuardFacts()
		pv := resultVarOf(p, search, 0)
		pid := identNamed(sf, pv)
		if pv == "" || pid == nil {
			r.Unresolved("%s: the search result is not bound to a variable", name)
			continue
		}
		pobj := sinfo.Uses[pid]
		// what indexes the ring in fi: the result variable, or the helper call (or a variable bound to it)
		isResult := func(e ast.Expr) bool {
			e = ast.Unparen(e)
			if hcall == nil {
				return isIdentOf(info, e, pobj)
			}
			if e == ast.Expr(hcall) {
				return true
			}
			if hv := resultVarOf(p, hcall, 0); hv != "" {
				if id, isId := e.(*ast.Ident); isId && id.Name == hv {
					return true
				}
			}
			return false
		}
		var ring ast.Expr
		inspectNoLit(fi.Decl.Body, func(x ast.Node) bool {
			if ix, ok := x.(*ast.IndexExpr); ok && isResult(ix.Index) && ring == nil {
				ring = ix.X
			}
			return true
		})
		if ring == nil {
			r.Unresolved("%s: the search result never indexes a slice", name)
			continue
		}
		ringS := exprStr(ring)
		// names for len(ring) in fi
		sizes := map[string]bool{"len(" + ringS + ")": true}
		ast.Inspect(fi.Decl.Body, func(m ast.Node) bool {
			if as, ok := m.(*ast.AssignStmt); ok && len(as.Lhs) == 1 && len(as.Rhs) == 1 && exprStr(as.Rhs[0]) == "len("+ringS+")" {
				if lid, isId := as.Lhs[0].(*ast.Ident); isId && info.Defs[lid] != nil && singleAssigned(info, fi.Decl.Body, info.Defs[lid]) {
					sizes[lid.Name] = true
				}
			}
			return true
		})
		// the names the size has where the search is
		ssizes := sizes
		if hcall == nil {
			r.Check(sizes[exprStr(ast.Unparen(search.Args[0]))], search, name+" searches the whole ring", "sort.Search(len("+ringS+"), ...)",
				"the binary search covers "+exprStr(search.Args[0])+" entries instead of all len("+ringS+"): a token above the entries searched is attributed to the last entry searched instead of wrapping around to the first range (or the last range is never found)")
		} else {
			k := -1
			if szid, isId := ast.Unparen(search.Args[0]).(*ast.Ident); isId {
				if idx, stable := p.stableParams(sf)[sinfo.Uses[szid]]; stable {
					k = idx
				}
			}
			okSize := k >= 0 && k < len(hcall.Args) && sizes[exprStr(ast.Unparen(hcall.Args[k]))]
			got := exprStr(search.Args[0])
			if k >= 0 && k < len(hcall.Args) {
				got = exprStr(hcall.Args[k])
			}
			r.Check(okSize, hcall, name+" searches the whole ring", sf.Name+" searches the "+got+" entries it is given",
				"the binary search covers "+got+" entries instead of all len("+ringS+"): a token above the entries searched is attributed to the last entry searched instead of wrapping around to the first range (or the last range is never found)")
			ssizes = map[string]bool{exprStr(ast.Unparen(search.Args[0])): true}
		}
		pastAt := func(n ast.Node) bool {
			f, okF := sfacts.Before(n)
			if !okF {
				return false
			}
			for sz := range ssizes {
				if v, known := f.KnownStr(pv + " < " + sz); known && !v {
					return true
				}
				if v, known := f.KnownStr(pv + " == " + sz); known && v {
					return true
				}
				if v, known := f.KnownStr(sz + " == " + pv); known && v {
					return true
				}
			}
			return false
		}
		// other assignments of the result variable
		ast.Inspect(sf.Decl.Body, func(x ast.Node) bool {
			as, ok := x.(*ast.AssignStmt)
			if !ok {
				return true
			}
			for i, l := range as.Lhs {
				if !isIdentOf(sinfo, l, pobj) || (len(as.Rhs) == 1 && ast.Unparen(as.Rhs[0]) == ast.Expr(search)) {
					continue
				}
				okZero := false
				if as.Tok == token.ASSIGN && i < len(as.Rhs) {
					if k, isK := constInt(sinfo, as.Rhs[i]); isK && k == 0 {
						okZero = true
					}
				}
				past := pastAt(as)
				r.Check(okZero && past, as, name+" wraps a result past the end to the first entry", pv+" = 0 where "+pv+" >= len("+ringS+")",
					"the search result is replaced by "+exprStr(as.Rhs[minInt(i, len(as.Rhs)-1)])+ifs(past, "", " at a point where it is not known to be past the end")+": a token above the highest ring token must be owned by entry 0 (the range that wraps around), and no other result may be changed")
			}
			return true
		})
		if hcall != nil {
			// what the helper hands back: the search result, or 0 where the result is past the end
			inspectNoLit(sf.Decl.Body, func(x ast.Node) bool {
				rs, ok := x.(*ast.ReturnStmt)
				if !ok || len(rs.Results) != 1 {
					return true
				}
				e := ast.Unparen(rs.Results[0])
				if isIdentOf(sinfo, e, pobj) {
					return true
				}
				k, isK := constInt(sinfo, e)
				past := pastAt(rs)
				r.Check(isK && k == 0 && past, rs, name+" wraps a result past the end to the first entry", sf.Name+" returns 0 where "+pv+" >= its size",
					"the search result is replaced by "+exprStr(e)+ifs(past, "", " at a point where it is not known to be past the end")+": a token above the highest ring token must be owned by entry 0 (the range that wraps around), and no other result may be changed")
				return true
			})
		}
		// index expressions on the ring
		inspectNoLit(fi.Decl.Body, func(x ast.Node) bool {
			ix, ok := x.(*ast.IndexExpr)
			if !ok || exprStr(ix.X) != ringS {
				return true
			}
			okIdx := isResult(ix.Index)
			if k, isK := constInt(info, ix.Index); isK && k == 0 {
				okIdx = true
			}
			r.Check(okIdx, ix, name+" indexes the ring with the search result or 0", exprStr(ix), "the ring is indexed with "+exprStr(ix.Index)+", neither the search result nor the wrap-around entry 0")
			return true
		})
	}
}

func minInt(a, b int) int {
	if a < b {
		return a
	}
	return b
}

// c10r10: three structural conditions of "the replica map describes the current ring":
//
//	(a) newTokenRing puts the tokens of every host it is given on the ring - a node that is down still owns its ranges
//	    (Cassandra's placement does not depend on liveness), so no host is skipped by a condition;
//	(b) wherever a function rebuilds the ring of a clusterMeta and recomputes its replica maps, the rebuild comes first;
//	(c) updateReplicas carries the maps of the other keyspaces over under their own names.
func c10r10(p *Program, r *Report) {
	if fi := r.NeedFunc("newTokenRing"); fi != nil {
		info := fi.Pkg.TypesInfo
		hostsParam := paramObj(info, fi.Decl.Type, 1)
		found := false
		ast.Inspect(fi.Decl.Body, func(x ast.Node) bool {
			outer, ok := x.(*ast.RangeStmt)
			if !ok || !isIdentOf(info, outer.X, hostsParam) {
				return true
			}
			found = true
			// the loop over the host's tokens is a statement of the body itself, and nothing in the body can skip it
			direct := false
			for _, st := range outer.Body.List {
				if inner, isR := st.(*ast.RangeStmt); isR {
					if c, isC := ast.Unparen(inner.X).(*ast.CallExpr); isC && strings.HasSuffix(calleeName(info, c), ".Tokens") {
						direct = true
					}
					if sel, isS := ast.Unparen(inner.X).(*ast.SelectorExpr); isS && sel.Sel.Name == "tokens" {
						direct = true
					}
				}
			}
			skips := ""
			ast.Inspect(outer.Body, func(y ast.Node) bool {
				if br, isB := y.(*ast.BranchStmt); isB && (br.Tok == token.CONTINUE || br.Tok == token.BREAK) {
					inner := p.enclosing(br, fi.Decl, func(m ast.Node) bool {
						switch m.(type) {
						case *ast.ForStmt, *ast.RangeStmt:
							return true
						}
						return false
					})
					if inner == ast.Node(outer) || br.Label != nil {
						skips = p.Pos(br)
					}
				}
				return true
			})
			r.Check(direct && skips == "", outer, "newTokenRing puts the tokens of every host on the ring", "unconditional loop over each host's tokens",
				"newTokenRing can leave a host's tokens out of the ring"+ifs(skips != "", " (the host loop is cut short at "+skips+")", "")+": the ranges of that node are attributed to the next node on the ring, so keys are routed to a node that is not a replica - also after the node is back, because the ring is not rebuilt on up/down")
			return true
		})
		if !found {
			r.Unresolved("newTokenRing: no loop over the hosts parameter")
		}
	}
	// the function that recomputes the replica maps is known by what it does (it walks clusterMeta.replicas and
	// assigns the field), not by its name
	replicasF := p.Field("clusterMeta", "replicas")
	var updaters []*FuncInfo
	for _, fi := range p.SortedFuncs() {
		if fi.Pkg != p.Root || fi.Decl.Body == nil || replicasF == nil {
			continue
		}
		info := fi.Pkg.TypesInfo
		walks, assigns := false, false
		inspectNoLit(fi.Decl.Body, func(x ast.Node) bool {
			switch s := x.(type) {
			case *ast.RangeStmt:
				if fieldOf(info, s.X) == replicasF {
					walks = true
				}
			case *ast.AssignStmt:
				for _, l := range s.Lhs {
					if fieldOf(info, l) == replicasF {
						assigns = true
					}
				}
			}
			return true
		})
		if walks && assigns {
			updaters = append(updaters, fi)
		}
	}
	isUpdate := func(info *types.Info, c *ast.CallExpr) bool {
		fn := calleeOf(info, c)
		if fn == nil {
			return false
		}
		h := p.FuncOf(fn)
		for _, u := range updaters {
			if u == h {
				return true
			}
		}
		return false
	}
	// (b) order of ring rebuild and replica recomputation
	nb := 0
	p.forEachFunc(false, func(fi *FuncInfo) {
		if fi.Pkg != p.Root || fi.Decl.Body == nil {
			return
		}
		info := fi.Pkg.TypesInfo
		var resets, updates []*ast.CallExpr
		for _, c := range callsIn(fi.Decl.Body) {
			if isCallTo(info, c, "(*clusterMeta).resetTokenRing") {
				resets = append(resets, c)
			}
			if isUpdate(info, c) {
				updates = append(updates, c)
			}
		}
		if len(resets) == 0 || len(updates) == 0 {
			return
		}
		g := p.GraphOf(fi)
		ef := g.Events(func(st Step) []string {
			if st.Kind != StNode {
				return nil
			}
			for _, c := range callsIn(st.Node) {
				if isCallTo(info, c, "(*clusterMeta).resetTokenRing") {
					return []string{"reset"}
				}
			}
			return nil
		})
		for _, u := range updates {
			nb++
			s, ok := ef.Sol.Before(p.stmtOf(u, fi))
			r.Check(ok && s.Must["reset"], u, fi.Name+" recomputes the replica maps from the rebuilt ring", "resetTokenRing before updateReplicas",
				"the replica maps are recomputed before the token ring was rebuilt for the changed host list: they describe the old ring (a node that just joined is no replica of its own ranges; a removed one still is)")
		}
	})
	if nb == 0 {
		r.Unresolved("no function both rebuilds the token ring and recomputes the replica maps")
	}
	// (c) carry-over of the other keyspaces
	if len(updaters) == 0 {
		r.Unresolved("no function walks clusterMeta.replicas and assigns the field (updateReplicas)")
	}
	for _, fi := range updaters {
		info := fi.Pkg.TypesInfo
		replicasField := replicasF
		found := false
		ast.Inspect(fi.Decl.Body, func(x ast.Node) bool {
			rs, ok := x.(*ast.RangeStmt)
			if !ok || fieldOf(info, rs.X) != replicasField || rs.Key == nil || rs.Value == nil {
				return true
			}
			kid, ok1 := rs.Key.(*ast.Ident)
			vid, ok2 := rs.Value.(*ast.Ident)
			if !ok1 || !ok2 {
				return true
			}
			ast.Inspect(rs.Body, func(y ast.Node) bool {
				as, ok := y.(*ast.AssignStmt)
				if !ok || len(as.Lhs) != 1 || len(as.Rhs) != 1 || !isIdentOf(info, as.Rhs[0], info.Defs[vid]) {
					return true
				}
				ix, ok := ast.Unparen(as.Lhs[0]).(*ast.IndexExpr)
				if !ok {
					return true
				}
				found = true
				r.Check(isIdentOf(info, ix.Index, info.Defs[kid]), as, "updateReplicas carries each other keyspace's map over under its own name", exprStr(as.Lhs[0])+" = "+exprStr(as.Rhs[0]),
					"the replica map of keyspace `"+kid.Name+"` is stored under `"+exprStr(ix.Index)+"`: with more than one keyspace the refreshed keyspace receives another keyspace's replicas and that keyspace's entry disappears")
				return true
			})
			return true
		})
		if !found {
			r.Unresolved("updateReplicas: no carry-over loop over the existing replica maps")
		}
	}
}
