package main

import (
	"fmt"
	"os"
)

func init() {
	debugHooks = append(debugHooks, func(p *Program) {
		name := os.Getenv("DBGINL")
		if name == "" {
			return
		}
		fi := p.Func(name)
		if fi == nil {
			return
		}
		g := p.GraphOfInl(fi)
		sol := g.GuardFacts()
		for _, b := range g.CFG.Blocks {
			if !g.live[b] {
				continue
			}
			fmt.Printf("block %d kind=%v has=%v succs=", b.Index, b.Kind, sol.has[b])
			for i, s := range b.Succs {
				fmt.Printf("%d(dead=%v) ", s.Index, g.deadEdge(b, i))
			}
			fmt.Println()
			for _, n := range b.Nodes {
				fmt.Printf("    %T %s: %s\n", n, p.Pos(n), exprStrNode(n))
			}
			if sol.has[b] {
				fmt.Printf("    in: %s\n", factsKey(sol.in[b]))
			}
		}
	})
}
