package main

import (
	"fmt"
	"go/ast"
	"go/constant"
	"go/token"
	"go/types"
	"os"
	"strconv"
	"strings"
)

func init() {
	register(&PropertySpec{
		ID: "C13",
		Explanation: "Structural necessary conditions of the retry / idempotence / speculative-execution contract: R1 every speculative launch is dominated by IsIdempotent() and a non-zero attempt count, and launches are bounded by sp.Attempts(); R2 every retry (loop back-edge after an attempt) is dominated by a non-nil policy, policy.Attempt(q) and - as documented - IsIdempotent(); " +
			"R3 the RetryType switch covers all declared decisions, Retry reaches the next attempt without asking for another host, RetryNextHost asks exactly once, Rethrow/Ignore return, unknown decisions return ErrUnknownRetryType; R4 context errors and ErrNotFound return without consulting the policy; R5 one result: buffered result channel of capacity 1, guarded send, deferred cancel, and every execution goroutine runs on the derived cancelable context it was given; R6 the error of every retried attempt is recorded before the next one (the caller gets the last attempt's error)." +
			" R7 DowngradingConsistencyRetryPolicy.GetRetryType equals the documented decision table on every path (a timed-out write is never handed to the next host); R8 Query.attempt / Batch.attempt add exactly one attempt on every path." +
			" R9 the bundled retry policies answer true only where Attempts() <= NumRetries is provable from the guard facts; R10 executeQuery asks the host selection policy once per query (no Pick in a loop or go statement), so all executions share one host sequence.",
		NotDecided: "attempt counts per failure sequence for arbitrary policies; 'first to complete wins' under races; behaviour of user-supplied policies.",
		Rules: []*Rule{
			{ID: "C13.R1", Floor: 3, Doc: "speculation gated by idempotence and attempts != 0; launches bounded by sp.Attempts()", Run: c13r1},
			{ID: "C13.R2", Floor: 2, Doc: "retry gated by rt != nil, rt.Attempt(q) and q.IsIdempotent()", Run: c13r2},
			{ID: "C13.R3", Floor: 6, Doc: "RetryType switch: exhaustive; Retry keeps the host; RetryNextHost advances once; Rethrow/Ignore return; default is an error", Run: c13r3},
			{ID: "C13.R4", Floor: 2, Doc: "context.Canceled / DeadlineExceeded / ErrNotFound return before the policy is consulted", Run: c13r4},
			{ID: "C13.R5", Floor: 6, Doc: "single result: capacity-1 channel, guarded send, deferred cancel, executions run on the context they were handed", Run: c13r5},
			{ID: "C13.R6", Floor: 2, Doc: "last attempt's error recorded before every retry", Run: c13r6},
			{ID: "C13.R7", Floor: 8, Doc: "DowngradingConsistencyRetryPolicy.GetRetryType is the documented decision table (a timed-out write is never sent to another host)", Run: c13r7},
			{ID: "C13.R8", Floor: 4, Doc: "every attempt is counted: Query.attempt / Batch.attempt add exactly 1 to the total the retry policies consult, on every path", Run: c13r8},
			{ID: "C13.R9", Floor: 2, Doc: "the bundled retry policies grant another attempt only while Attempts() <= NumRetries", Run: c13r9},
			{ID: "C13.R10", Floor: 1, Doc: "all executions of one query (main and speculative) draw hosts from the one NextHost obtained for it", Run: c13r10},
			{ID: "C13.R13", Floor: 5, Doc: "parseErrorFrame returns every RequestErr* frame in the form (pointer or value) that the module's type switches and assertions test for", Run: c13ErrorFormAgrees},
			{ID: "C13.R12", Floor: 1, Doc: "every execution run starts reports back: a send on the results channel (or the ctx.Done() case) on every path to every exit", Run: c13r12},
			{ID: "C13.R11", Floor: 1, Doc: "Batch.IsIdempotent is false as soon as one entry is not idempotent", Run: c13r11},
		},
	})
}

func c13r1(p *Program, r *Report) {
	fi := r.NeedFunc("(*queryExecutor).executeQuery")
	if fi == nil {
		return
	}
	g := p.GraphOf(fi)
	info := g.Info
	facts := g.GuardFacts()
	n := 0
	ast.Inspect(fi.Decl.Body, func(x ast.Node) bool {
		var call *ast.CallExpr
		var at ast.Node
		switch s := x.(type) {
		case *ast.GoStmt:
			if isCallTo(info, s.Call, "(*queryExecutor).run") {
				call, at = s.Call, s
			}
		case *ast.CallExpr:
			if isCallTo(info, s, "(*queryExecutor).speculate") {
				call, at = s, s
			}
		}
		if call == nil {
			return true
		}
		n++
		f, _ := facts.Before(at)
		idem := false
		att := false
		for atom, v := range f.m {
			if strings.HasSuffix(atom, ".IsIdempotent()") && v {
				idem = true
			}
			if strings.Contains(atom, ".Attempts()") && ((strings.HasSuffix(atom, " == 0") || strings.HasPrefix(atom, "0 == ")) && !v || strings.HasPrefix(atom, "0 < ") && v) {
				att = true
			}
		}
		r.Check(idem, at, "(*queryExecutor).executeQuery "+exprStr(call.Fun)+" requires an idempotent query", "dominated by qry.IsIdempotent()", "a concurrent (speculative) execution is started for a query that is not known to be idempotent")
		r.Check(att, at, "(*queryExecutor).executeQuery "+exprStr(call.Fun)+" requires attempts != 0", "dominated by sp.Attempts() != 0", "speculative machinery is started although the policy allows 0 extra attempts")
		return true
	})
	if n == 0 {
		r.Unresolved("executeQuery: no speculative launch found")
	}
	// speculate: launches bounded
	if sp := r.NeedFunc("(*queryExecutor).speculate"); sp != nil {
		sinfo := sp.Pkg.TypesInfo
		ngo := 0
		ast.Inspect(sp.Decl.Body, func(x ast.Node) bool {
			gs, ok := x.(*ast.GoStmt)
			if !ok {
				return true
			}
			ngo++
			fs, _ := p.enclosing(gs, sp.Decl, func(n ast.Node) bool { _, ok := n.(*ast.ForStmt); return ok }).(*ast.ForStmt)
			// the loop runs while a counter is below sp.Attempts(); the counter advances once per iteration (post
			// statement) or once per launch (in the statement list of the go statement)
			bounded := false
			// the bound: the loop condition `c < X.Attempts()`, or a first statement `if c >= X.Attempts() { leave }`
			var boundCond *ast.BinaryExpr
			if fs != nil && fs.Cond != nil {
				boundCond, _ = ast.Unparen(fs.Cond).(*ast.BinaryExpr)
			} else if fs != nil && len(fs.Body.List) > 0 {
				if ifs, isIf := fs.Body.List[0].(*ast.IfStmt); isIf && ifs.Init == nil && ifs.Else == nil && len(ifs.Body.List) > 0 {
					leaves := false
					switch l := ifs.Body.List[len(ifs.Body.List)-1].(type) {
					case *ast.BranchStmt:
						leaves = l.Tok == token.BREAK
					case *ast.ReturnStmt:
						leaves = true
					}
					if be, isB := ast.Unparen(ifs.Cond).(*ast.BinaryExpr); isB && leaves && (be.Op == token.GEQ || be.Op == token.EQL) {
						// rewritten as the continuation condition c < X.Attempts()
						boundCond = &ast.BinaryExpr{X: be.X, Op: token.LSS, Y: be.Y}
					}
				}
			}
			if fs != nil && boundCond != nil {
				if be := boundCond; (be.Op == token.LSS || be.Op == token.NEQ) && strings.HasSuffix(exprStr(be.Y), ".Attempts()") {
					if cid, isId := ast.Unparen(be.X).(*ast.Ident); isId {
						isInc := func(st ast.Stmt) bool {
							switch s := st.(type) {
							case *ast.IncDecStmt:
								return s.Tok == token.INC && isIdentOf(sinfo, s.X, sinfo.Uses[cid])
							case *ast.AssignStmt:
								if s.Tok == token.ADD_ASSIGN && len(s.Lhs) == 1 && isIdentOf(sinfo, s.Lhs[0], sinfo.Uses[cid]) {
									k, ok := constInt(sinfo, s.Rhs[0])
									return ok && k == 1
								}
							}
							return false
						}
						ninc, near := 0, false
						if fs.Post != nil && isInc(fs.Post) {
							ninc++
							near = true
						}
						ast.Inspect(fs.Body, func(m ast.Node) bool {
							if st, ok := m.(ast.Stmt); ok && isInc(st) {
								ninc++
								// in the same statement list as the launch
								var list []ast.Stmt
								switch pn := p.Parent(st).(type) {
								case *ast.BlockStmt:
									list = pn.List
								case *ast.CommClause:
									list = pn.Body
								case *ast.CaseClause:
									list = pn.Body
								}
								for _, o := range list {
									if o == ast.Stmt(gs) {
										near = true
									}
								}
								// or once per iteration, as a statement of the loop body itself
								if pn, isBlk := p.Parent(st).(*ast.BlockStmt); isBlk && pn == fs.Body {
									near = true
								}
							}
							return true
						})
						// the counter is not changed otherwise
						other := 0
						ast.Inspect(fs.Body, func(m ast.Node) bool {
							if as, ok := m.(*ast.AssignStmt); ok && !isInc(as) {
								for _, l := range as.Lhs {
									if isIdentOf(sinfo, l, sinfo.Uses[cid]) {
										other++
									}
								}
							}
							if ids, ok := m.(*ast.IncDecStmt); ok && ids.Tok == token.DEC && isIdentOf(sinfo, ids.X, sinfo.Uses[cid]) {
								other++
							}
							return true
						})
						bounded = ninc == 1 && near && other == 0
					}
				}
			}
			// at most one launch per iteration
			cnt := 0
			if fs != nil {
				ast.Inspect(fs.Body, func(m ast.Node) bool {
					if _, ok := m.(*ast.GoStmt); ok {
						cnt++
					}
					if l, ok := m.(*ast.ForStmt); ok && l != fs {
						cnt += 2
					}
					return true
				})
			}
			r.Check(bounded && cnt == 1, gs, "(*queryExecutor).speculate launches at most sp.Attempts() executions", "one launch per iteration of a loop bounded by sp.Attempts()", "extra executions are not bounded by the policy's Attempts()")
			_ = sinfo
			return true
		})
		if ngo == 0 {
			r.Unresolved("speculate launches nothing")
		}
	}
}

// backEdges returns the `continue` statements of the attempt loop in do() that follow the attempt.
func c13loop(p *Program, r *Report) (*FuncInfo, *ast.ForStmt, *ast.CallExpr) {
	fi := r.NeedFunc("(*queryExecutor).do")
	if fi == nil {
		return nil, nil, nil
	}
	info := fi.Pkg.TypesInfo
	var attempt *ast.CallExpr
	ast.Inspect(fi.Decl.Body, func(x ast.Node) bool {
		if c, ok := x.(*ast.CallExpr); ok && isCallTo(info, c, "(*queryExecutor).attemptQuery") {
			attempt = c
		}
		return true
	})
	if attempt == nil {
		r.Unresolved("do: no attemptQuery call")
		return nil, nil, nil
	}
	fs, _ := p.enclosing(attempt, fi.Decl, func(n ast.Node) bool { _, ok := n.(*ast.ForStmt); return ok }).(*ast.ForStmt)
	if fs == nil {
		r.Unresolved("do: attempt is not inside a loop")
		return nil, nil, nil
	}
	return fi, fs, attempt
}

func c13r2(p *Program, r *Report) {
	fi, fs, attempt := c13loop(p, r)
	if fi == nil {
		return
	}
	g := p.GraphOf(fi)
	facts := g.GuardFacts()
	n := 0
	// the retry policy variable: the receiver of the Attempt call
	polName := ""
	for _, c := range callsIn(fi.Decl.Body) {
		if strings.HasSuffix(calleeName(g.Info, c), "RetryPolicy.Attempt") {
			if rc := recvExpr(c); rc != nil {
				polName = exprStr(rc)
			}
		}
	}
	for _, be := range BackEdges(p, facts, fs, attempt.Pos()) {
		br := be.Node
		n++
		f := be.State
		var rtOK, attOK, idemOK bool
		for atom, v := range f.m {
			switch {
			case strings.HasSuffix(atom, " == nil") && polName != "" && strings.TrimSuffix(atom, " == nil") == polName && !v:
				rtOK = true
			case polName != "" && strings.HasPrefix(atom, polName+".Attempt(") && v:
				attOK = true
			case strings.HasSuffix(atom, ".IsIdempotent()") && v:
				idemOK = true
			}
		}
		name := "(*queryExecutor).do retry back-edge"
		r.Check(rtOK && attOK, br, name+" allowed by the policy", "rt != nil and rt.Attempt(qry) hold", "the query is re-executed without the retry policy having allowed another attempt")
		r.Check(idemOK, br, name+" only for idempotent queries", "qry.IsIdempotent() holds",
			"a failed attempt is retried without checking qry.IsIdempotent(): the documentation (doc.go 'Non-idempotent queries are not eligible for retrying', Query.IsIdempotent) says it never is")
	}
	if n == 0 {
		r.Unresolved("do: no retry back-edge after the attempt")
	}
}

func c13r3(p *Program, r *Report) {
	fi, _, _ := c13loop(p, r)
	if fi == nil {
		return
	}
	info := fi.Pkg.TypesInfo
	// declared RetryType constants
	rtType := p.NamedType("RetryType")
	if rtType == nil {
		r.Unresolved("type RetryType not found")
		return
	}
	declared := map[string]bool{}
	scope := p.Root.Types.Scope()
	for _, nme := range scope.Names() {
		if c, ok := scope.Lookup(nme).(*types.Const); ok && types.Identical(c.Type(), rtType) {
			declared[nme] = true
		}
	}
	// interpret do(): each path through the loop body that consults GetRetryType restricts the decision to some
	// constants (switch clause or ==-chain); what the path then does is compared with the contract of that decision
	var hostIterName, selVar string
	if fi.Decl.Type.Params != nil {
		for _, pf := range fi.Decl.Type.Params.List {
			if typeNameOf(info.TypeOf(pf.Type)) == "NextHost" && len(pf.Names) == 1 {
				hostIterName = pf.Names[0].Name
			}
		}
	}
	if hostIterName == "" {
		r.Unresolved("do: no NextHost parameter")
		return
	}
	var grt *ast.CallExpr
	for _, c := range callsIn(fi.Decl.Body) {
		if strings.HasSuffix(calleeName(info, c), ".GetRetryType") {
			grt = c
		}
	}
	if grt == nil {
		r.Unresolved("do: GetRetryType is never consulted")
		return
	}
	tr := newReadTracer(p)
	tr.prims = map[string]string{}
	tr.primVars = map[string]string{hostIterName: "nexthost"}
	tr.noAuto = func(string) bool { return true }
	type outcome struct {
		hostCalls int
		dst       string
		end       string
		ret       string
	}
	byDecision := map[string][]outcome{}
	var anyNode ast.Node = fi.Decl
	for _, st := range tr.run(fi, 4) {
		in, restricted, found := st.decided(declared)
		if !found {
			continue
		}
		var loop *TraceItem
		ft := flat(st.trace)
		for i := range ft {
			if ft[i].Prim == "loop" {
				loop = &ft[i]
			}
			if ft[i].Prim == "nexthost" && ft[i].Dst != "" && loop == nil {
				selVar = ft[i].Dst
			}
		}
		if loop == nil {
			continue
		}
		o := outcome{end: loop.End}
		for _, it := range loop.Body {
			if it.Prim == "nexthost" && it.Pos > grt.Pos() {
				o.hostCalls++
				o.dst = it.Dst
			}
		}
		if st.retStmt != nil && len(st.retStmt.Results) == 1 && o.end == "return" {
			o.ret = exprStr(st.retStmt.Results[0])
			ast.Inspect(st.retStmt.Results[0], func(m ast.Node) bool {
				if id, ok := m.(*ast.Ident); ok && id.Name == "ErrUnknownRetryType" {
					o.ret = "ErrUnknownRetryType"
				}
				return true
			})
		}
		if !restricted {
			byDecision["<other>"] = append(byDecision["<other>"], o)
			continue
		}
		for _, d := range in {
			byDecision[d] = append(byDecision[d], o)
		}
	}
	if len(tr.unsup) > 0 {
		r.Unresolved("do: %s", strings.Join(tr.unsup, "; "))
		return
	}
	if os.Getenv("DBG13") != "" {
		for d, os := range byDecision {
			for _, o := range os {
				fmt.Printf("DBG %s: %+v\n", d, o)
			}
		}
	}
	all := func(d string, pred func(o outcome) bool) bool {
		if len(byDecision[d]) == 0 {
			return false
		}
		for _, o := range byDecision[d] {
			if !pred(o) {
				return false
			}
		}
		return true
	}
	for name := range declared {
		r.Check(len(byDecision[name]) > 0, anyNode, "(*queryExecutor).do handles retry decision "+name, "has a branch", "retry decision "+name+" has no branch in the executor: it falls to the default")
	}
	continues := func(o outcome) bool { return o.end == "next-iteration" || o.end == "" }
	if len(byDecision["Retry"]) > 0 {
		r.Check(all("Retry", func(o outcome) bool { return o.hostCalls == 0 && continues(o) }), anyNode, "(*queryExecutor).do Retry stays on the same host", "continues without asking for another host", "decision Retry asks the host iterator for another host (or does not retry)")
	}
	if len(byDecision["RetryNextHost"]) > 0 {
		r.Check(all("RetryNextHost", func(o outcome) bool { return o.hostCalls == 1 && o.dst == selVar && selVar != "" && continues(o) }), anyNode, "(*queryExecutor).do RetryNextHost advances exactly one host", "selectedHost = hostIter() once, then continue", "decision RetryNextHost does not move to exactly the next offered host")
	}
	for _, name := range []string{"Rethrow", "Ignore"} {
		if len(byDecision[name]) > 0 {
			r.Check(all(name, func(o outcome) bool { return o.end == "return" && !strings.Contains(o.ret, "ErrUnknownRetryType") }), anyNode, "(*queryExecutor).do "+name+" stops retrying", "returns", "decision "+name+" does not end the executor loop")
		}
	}
	r.Check(all("<other>", func(o outcome) bool { return o.end == "return" && strings.Contains(o.ret, "ErrUnknownRetryType") }), anyNode, "(*queryExecutor).do unknown decision is an error", "every other value returns ErrUnknownRetryType", "an undefined retry decision is not reported as ErrUnknownRetryType")
}

func c13r4(p *Program, r *Report) {
	fi, _, _ := c13loop(p, r)
	if fi == nil {
		return
	}
	g := p.GraphOf(fi)
	info := g.Info
	facts := g.GuardFacts()
	n := 0
	ast.Inspect(fi.Decl.Body, func(x ast.Node) bool {
		c, ok := x.(*ast.CallExpr)
		if !ok || !(strings.HasSuffix(calleeName(info, c), "RetryPolicy.Attempt") || strings.HasSuffix(calleeName(info, c), "RetryPolicy.GetRetryType")) {
			return true
		}
		n++
		f, _ := facts.Before(c)
		// the attempt's error, or a local copy of it
		errNames := []string{"iter.err"}
		for atom, v := range f.m {
			if v && strings.HasSuffix(atom, " ≡ iter.err") {
				errNames = append(errNames, strings.TrimSuffix(atom, " ≡ iter.err"))
			}
		}
		for _, e := range []string{"context.Canceled", "context.DeadlineExceeded", "ErrNotFound"} {
			excluded := false
			for atom, v := range f.m {
				if !v && strings.Contains(atom, " == ") && strings.Contains(atom, e) {
					for _, en := range errNames {
						if mentions(atom, en) {
							excluded = true
						}
					}
				}
			}
			r.Check(excluded, c, "(*queryExecutor).do "+exprStr(c.Fun)+" not reached for "+e, "that error returned earlier", "the retry policy is consulted for "+e+": a cancelled or timed-out request (or a not-found result) can be retried")
		}
		return true
	})
	if n == 0 {
		r.Unresolved("do: retry policy never consulted")
	}
}

func c13r5(p *Program, r *Report) {
	fi := r.NeedFunc("(*queryExecutor).executeQuery")
	if fi == nil {
		return
	}
	info := fi.Pkg.TypesInfo
	// results channel capacity 1
	var ctxObj types.Object
	ast.Inspect(fi.Decl.Body, func(x ast.Node) bool {
		as, ok := x.(*ast.AssignStmt)
		if !ok || len(as.Rhs) != 1 {
			return true
		}
		c, ok := ast.Unparen(as.Rhs[0]).(*ast.CallExpr)
		if !ok {
			return true
		}
		switch calleeName(info, c) {
		case "builtin.make":
			if t, ok := info.TypeOf(c).Underlying().(*types.Chan); ok && typeNameOf(t.Elem()) == "Iter" {
				capOK := false
				if len(c.Args) == 2 {
					if v, ok := constInt(info, c.Args[1]); ok && v >= 1 {
						capOK = true
					}
				}
				r.Check(capOK, c, "(*queryExecutor).executeQuery results channel is buffered", "capacity >= 1: the winner never blocks", "the results channel is unbuffered: an execution finishing after the caller left blocks until cancelled, or the first result can be lost")
			}
		case "context.WithCancel", "context.WithTimeout", "context.WithDeadline":
			if id, ok := as.Lhs[0].(*ast.Ident); ok {
				ctxObj = info.Defs[id]
			}
			// defer cancel()
			if len(as.Lhs) == 2 {
				cid, _ := as.Lhs[1].(*ast.Ident)
				deferred := false
				ast.Inspect(fi.Decl.Body, func(m ast.Node) bool {
					if d, ok := m.(*ast.DeferStmt); ok && cid != nil {
						if fid, ok := ast.Unparen(d.Call.Fun).(*ast.Ident); ok && info.Uses[fid] == info.Defs[cid] {
							deferred = true
						}
					}
					return true
				})
				r.Check(deferred, as, "(*queryExecutor).executeQuery cancels the losers on return", "defer cancel()", "the derived context is not cancelled when executeQuery returns: executions that lost the race keep running and retrying")
			}
		}
		return true
	})
	if ctxObj == nil {
		r.Unresolved("executeQuery: no derived cancelable context")
		return
	}
	// the functions that carry an execution: they take a context first and call do, or another such function
	// (run / speculate today; identified by role so that a rename or a method turned into a function is the same)
	doFn := p.Func("(*queryExecutor).do")
	if doFn == nil {
		r.Unresolved("anchor function (*queryExecutor).do not found")
		return
	}
	starters := map[*FuncInfo]bool{}
	isCtxFirst := func(f *FuncInfo) bool {
		if f.Obj == nil {
			return false
		}
		sig := f.Obj.Type().(*types.Signature)
		return sig.Params().Len() > 0 && strings.HasSuffix(sig.Params().At(0).Type().String(), "context.Context")
	}
	callsCarrier := func(f *FuncInfo) bool {
		for _, c := range callsIn(f.Decl.Body) {
			if fn := calleeOf(f.Pkg.TypesInfo, c); fn != nil {
				if t := p.FuncOf(fn); t != nil && (t == doFn || starters[t]) {
					return true
				}
			}
		}
		return false
	}
	for changed := true; changed; {
		changed = false
		for _, f := range p.SortedFuncs() {
			if f.Pkg != p.Root || f.Decl.Body == nil || f == fi || f == doFn || starters[f] || !isCtxFirst(f) {
				continue
			}
			if callsCarrier(f) {
				starters[f] = true
				changed = true
			}
		}
	}
	isStarterCall := func(inf *types.Info, c *ast.CallExpr) *FuncInfo {
		if fn := calleeOf(inf, c); fn != nil {
			if t := p.FuncOf(fn); t != nil && (starters[t] || t == doFn) {
				return t
			}
		}
		return nil
	}
	// every execution launched from executeQuery gets the derived ctx
	ast.Inspect(fi.Decl.Body, func(x ast.Node) bool {
		c, ok := x.(*ast.CallExpr)
		if !ok {
			return true
		}
		if t := isStarterCall(info, c); t == nil || t == doFn {
			return true
		}
		r.Check(len(c.Args) > 0 && isIdentOf(info, c.Args[0], ctxObj), c, "(*queryExecutor).executeQuery passes the cancelable context to "+exprStr(c.Fun), "derived ctx", "an execution is started on "+exprStr(c.Args[0])+" instead of the derived cancelable context: it is not stopped when the caller has its result")
		return true
	})
	// the carriers use their ctx parameter for everything they start / do
	var carriers []*FuncInfo
	for f := range starters {
		carriers = append(carriers, f)
	}
	sortFuncs(carriers)
	if len(carriers) == 0 {
		r.Unresolved("no function carries an execution (takes a context and calls do)")
	}
	for _, f2 := range carriers {
		name := f2.Name
		i2 := f2.Pkg.TypesInfo
		po := paramObj(i2, f2.Decl.Type, 0)
		n := 0
		ast.Inspect(f2.Decl.Body, func(x ast.Node) bool {
			c, ok := x.(*ast.CallExpr)
			if !ok || isStarterCall(i2, c) == nil {
				return true
			}
			n++
			r.Check(len(c.Args) > 0 && isIdentOf(i2, c.Args[0], po), c, name+" runs "+exprStr(c.Fun)+" on the context it was given", "its ctx parameter",
				name+" runs "+exprStr(c.Fun)+" on "+exprStr(c.Args[0])+" instead of its own (cancelable) context parameter: the deferred cancel of executeQuery no longer stops executions that lost the race, they keep retrying on further hosts")
			return true
		})
		if n == 0 {
			r.Unresolved("%s starts no execution", name)
		}
	}
	// run: the send of the result is guarded by ctx.Done()
	var run *FuncInfo
	for _, f := range carriers {
		hasSend := false
		ast.Inspect(f.Decl.Body, func(x ast.Node) bool {
			if _, isSend := x.(*ast.SendStmt); isSend {
				hasSend = true
			}
			return true
		})
		if hasSend && run == nil {
			run = f
		}
	}
	if run == nil {
		r.Unresolved("no carrier of an execution sends its result on a channel")
	}
	if run != nil {
		ri := run.Pkg.TypesInfo
		okSend := false
		ast.Inspect(run.Decl.Body, func(x ast.Node) bool {
			s, ok := x.(*ast.SendStmt)
			if !ok {
				return true
			}
			sel, _ := p.enclosingSelectComm(s)
			if sel != nil {
				for _, cc := range commClauses(sel) {
					if ch := recvChan(cc.Comm); ch != nil && strings.HasSuffix(exprStr(ch), ".Done()") {
						okSend = true
					}
				}
			}
			_ = ri
			return true
		})
		r.Check(okSend, run.Decl, "(*queryExecutor).run delivers its result without blocking forever", "send in a select with <-ctx.Done()", "the result is sent with a bare channel send: an execution that lost the race blocks forever (goroutine leak)")
	}
	// because run may drop its result when the context ends, a receiver of results that does not also watch the
	// context can wait for a result nobody will send
	for _, name := range []string{"(*queryExecutor).executeQuery", "(*queryExecutor).speculate"} {
		anchor := r.NeedFunc(name)
		if anchor == nil {
			continue
		}
		n := 0
		// the function and the helpers it was split into (not the executions it starts)
		for _, f2 := range p.unitsOf(anchor) {
			f2 := f2
			if f2 != anchor && (f2.Name == "(*queryExecutor).run" || f2.Name == "(*queryExecutor).do" || f2.Name == "(*queryExecutor).speculate" || f2.Name == "(*queryExecutor).attemptQuery") {
				continue
			}
			i2 := f2.Pkg.TypesInfo
			ast.Inspect(f2.Decl.Body, func(x ast.Node) bool {
				u, ok := x.(*ast.UnaryExpr)
				if !ok || u.Op != token.ARROW {
					return true
				}
				t := i2.TypeOf(u.X)
				if t == nil {
					return true
				}
				ch, isCh := t.Underlying().(*types.Chan)
				if !isCh || typeNameOf(ch.Elem()) != "Iter" {
					return true
				}
				n++
				watched := false
				// the receive must be the communication of a select case with a sibling on <-ctx.Done()
				var stmt ast.Node = u
				for stmt != nil {
					if _, isCC := p.Parent(stmt).(*ast.CommClause); isCC {
						break
					}
					stmt = p.Parent(stmt)
					if stmt == ast.Node(f2.Decl) {
						stmt = nil
					}
				}
				if stmt != nil {
					if cc, ok := p.Parent(stmt).(*ast.CommClause); ok && cc.Comm == stmt {
						if sel, ok := p.Parent(p.Parent(cc)).(*ast.SelectStmt); ok {
							for _, sib := range commClauses(sel) {
								if chx := recvChan(sib.Comm); chx != nil && strings.HasSuffix(exprStr(chx), ".Done()") {
									watched = true
								}
							}
						}
					}
				}
				r.Check(watched, u, name+" waits for a result only together with the context", "receive from results in a select with <-ctx.Done()",
					"the result channel is read with a bare receive: run() drops its result when the context ends (its select takes <-ctx.Done()), so after cancellation or a deadline nothing may ever arrive and the caller hangs")
				return true
			})
		}
		if n == 0 {
			r.Unresolved("%s: no receive from the results channel", name)
		}
	}
}

func c13r6(p *Program, r *Report) {
	fi, fs, attempt := c13loop(p, r)
	if fi == nil {
		return
	}
	g := p.GraphOf(fi)
	info := g.Info
	type st struct{ unrecorded bool }
	sol := Solve(g, Lattice[st]{
		Join: func(a, b st) st { return st{a.unrecorded || b.unrecorded} },
		Eq:   func(a, b st) bool { return a == b },
		Step: func(s st, step Step) st {
			if step.Kind != StNode {
				return s
			}
			for _, c := range callsIn(step.Node) {
				if c == attempt {
					s.unrecorded = true
				}
			}
			if as, ok := step.Node.(*ast.AssignStmt); ok && len(as.Lhs) == 1 && len(as.Rhs) == 1 {
				if id, ok := as.Lhs[0].(*ast.Ident); ok && id.Name == "lastErr" && strings.HasSuffix(exprStr(as.Rhs[0]), ".err") {
					s.unrecorded = false
				}
			}
			return s
		},
	})
	n := 0
	for _, be := range BackEdges(p, sol, fs, attempt.Pos()) {
		br := be.Node
		n++
		s, reach := be.State, true
		r.Check(!reach || !s.unrecorded, br, "(*queryExecutor).do records the attempt's error before retrying", "lastErr = iter.err on every path from the attempt to this retry",
			"a retry is started without recording the failed attempt's error: when the hosts then run out the caller gets an earlier attempt's error (or ErrNoConnections) instead of the last attempt's")
	}
	if n == 0 {
		r.Unresolved("do: no retry back-edge")
	}
	// the fallthrough after the loop returns lastErr when set
	ret := false
	ast.Inspect(fi.Decl.Body, func(x ast.Node) bool {
		if rs, ok := x.(*ast.ReturnStmt); ok && rs.Pos() > fs.End() && strings.Contains(exprStrNode(rs), "lastErr") {
			ret = true
		}
		return true
	})
	r.Check(ret, fi.Decl, "(*queryExecutor).do returns the last recorded error when the hosts run out", "&Iter{err: lastErr}", "when no host is left the executor does not return the last attempt's error")
	_ = info
	_ = constant.MakeBool
}

// c13r7: the decision table of DowngradingConsistencyRetryPolicy (policies.go doc comment, DataStax semantics):
//
//	unavailable:   a replica alive -> Retry, none -> Rethrow
//	read timeout:  Retry
//	write timeout: SIMPLE / BATCH / COUNTER: acknowledged by a replica -> Ignore, by none -> Rethrow;
//	               UNLOGGED_BATCH -> Retry; every other write type (CAS, BATCH_LOG, VIEW, CDC) -> Rethrow
//	anything else: RetryNextHost
//
// Every path of GetRetryType (enumerated by the path interpreter) must return what the table says for every
// scenario the path stands for. In particular a write that timed out - it may have been applied - is never handed to
// the next host.
func c13r7(p *Program, r *Report) {
	fi := r.NeedFunc("(*DowngradingConsistencyRetryPolicy).GetRetryType")
	if fi == nil {
		return
	}
	_ = fi.Pkg.TypesInfo
	tr := newReadTracer(p)
	tr.prims = map[string]string{}
	tr.noAuto = func(string) bool { return true }
	tr.markTypeCases = true
	for _, c := range p.privateCallees(fi) {
		tr.inline[c.Name] = true
	}
	type scen struct {
		kind, wt string
		acked    bool // received > 0 / alive > 0
	}
	spec := func(s scen) string {
		switch s.kind {
		case "*RequestErrUnavailable":
			if s.acked {
				return "Retry"
			}
			return "Rethrow"
		case "*RequestErrReadTimeout":
			return "Retry"
		case "*RequestErrWriteTimeout":
			switch s.wt {
			case "SIMPLE", "BATCH", "COUNTER":
				if s.acked {
					return "Ignore"
				}
				return "Rethrow"
			case "UNLOGGED_BATCH":
				return "Retry"
			}
			return "Rethrow"
		}
		return "RetryNextHost"
	}
	var scens []scen
	for _, k := range []string{"*RequestErrUnavailable", "*RequestErrReadTimeout", "*RequestErrWriteTimeout", "other"} {
		for _, w := range []string{"SIMPLE", "BATCH", "COUNTER", "UNLOGGED_BATCH", "<other>"} {
			for _, a := range []bool{true, false} {
				scens = append(scens, scen{k, w, a})
			}
		}
	}
	covered := map[scen]bool{}
	paths := tr.run(fi, 4)
	if len(tr.unsup) > 0 {
		r.Unresolved("DowngradingConsistencyRetryPolicy.GetRetryType: %s", strings.Join(tr.unsup, "; "))
		return
	}
	npaths := 0
	for _, st := range paths {
		if st.retStmt == nil || len(st.retStmt.Results) != 1 {
			continue
		}
		res := ast.Unparen(st.retStmt.Results[0])
		if c, isCall := res.(*ast.CallExpr); isCall && tr.inline[calleeName(fi.Pkg.TypesInfo, c)] && len(st.retExprs) == 1 {
			res = ast.Unparen(st.retExprs[0]) // `return helper(...)`: the decision is the helper's
		}
		got := exprStr(res)
		// what the path decided
		kinds := map[string]bool{}
		isDefault := false
		for _, it := range flat(st.trace) {
			if it.Prim == "typecase" {
				for _, t := range strings.Split(it.Arg, ",") {
					t = strings.TrimSpace(t)
					if t == "default" {
						isDefault = true
					} else {
						kinds[t] = true
					}
				}
			}
		}
		var wtIn map[string]bool
		wtOut := map[string]bool{}
		for subj, ss := range st.sel {
			if !strings.HasSuffix(subj, ".WriteType") {
				continue
			}
			if ss.in != nil {
				wtIn = map[string]bool{}
				for c := range ss.in {
					if v, err := strconv.Unquote(c); err == nil {
						wtIn[v] = true
					}
				}
			}
			for c := range ss.out {
				if v, err := strconv.Unquote(c); err == nil {
					wtOut[v] = true
				}
			}
		}
		ack, ackKnown := false, false
		for atom, v := range st.assume {
			a := strings.ReplaceAll(atom, " ", "")
			if strings.HasPrefix(a, "0<") && (strings.HasSuffix(a, ".Received") || strings.HasSuffix(a, ".Alive")) {
				ack, ackKnown = v, true
			}
			if strings.HasSuffix(a, ".Received==0") || strings.HasSuffix(a, ".Alive==0") || strings.HasSuffix(a, ".Received<1") || strings.HasSuffix(a, ".Alive<1") {
				ack, ackKnown = !v, true
			}
		}
		npaths++
		var bad []string
		for _, sc := range scens {
			// consistent with the path?
			if isDefault {
				if sc.kind != "other" {
					continue
				}
			} else if len(kinds) > 0 {
				if !kinds[sc.kind] {
					continue
				}
			} else {
				continue // the path did not go through the type switch at all
			}
			if sc.kind == "*RequestErrWriteTimeout" {
				if wtIn != nil && !wtIn[sc.wt] {
					continue
				}
				if wtIn == nil && (wtOut[sc.wt] || false) {
					continue
				}
			} else if sc.wt != "SIMPLE" {
				continue // the write type only matters for write timeouts: one representative
			}
			if ackKnown && ack != sc.acked {
				continue
			}
			covered[sc] = true
			if want := spec(sc); want != got {
				bad = append(bad, fmt.Sprintf("%s%s%s: returns %s, the documented decision is %s", sc.kind, ifs(sc.kind == "*RequestErrWriteTimeout", " of type "+sc.wt, ""), ifs(sc.acked, " with a replica alive/acknowledging", " with no replica alive/acknowledging"), got, want))
			}
		}
		if len(bad) > 3 {
			bad = append(bad[:3], fmt.Sprintf("... and %d more", len(bad)-3))
		}
		r.Check(len(bad) == 0, st.retStmt, fmt.Sprintf("DowngradingConsistencyRetryPolicy.GetRetryType path [%s] returns the documented decision", assumeStr(st)), got,
			strings.Join(bad, "; ")+" - a write that timed out may already be applied: handing it to the next host executes it twice, and the caller never sees the timeout")
	}
	for _, sc := range scens {
		if sc.kind != "*RequestErrWriteTimeout" && sc.wt != "SIMPLE" {
			continue
		}
		if !covered[sc] {
			r.Bad(fi.Decl, "DowngradingConsistencyRetryPolicy.GetRetryType decides "+sc.kind+" "+sc.wt, "no path of GetRetryType stands for this case")
		}
	}
	if npaths == 0 {
		r.Unresolved("DowngradingConsistencyRetryPolicy.GetRetryType: no path returns a decision")
	}
}

// c13r8: retry policies decide from Attempts(). The counter is fed by (*Query).attempt / (*Batch).attempt, which the
// executor calls after every request. Each must add exactly one attempt on every path (also when no observer is
// installed).
func c13r8(p *Program, r *Report) {
	for _, name := range []string{"(*Query).attempt", "(*Batch).attempt"} {
		fi := r.NeedFunc(name)
		if fi == nil {
			continue
		}
		g := p.GraphOf(fi)
		info := g.Info
		var counted *ast.CallExpr
		ef := g.Events(func(st Step) []string {
			if st.Kind != StNode {
				return nil
			}
			var evs []string
			for _, c := range callsIn(st.Node) {
				if isCallTo(info, c, "(*queryMetrics).attempt") {
					evs = append(evs, "count")
					counted = c
				}
			}
			return evs
		})
		n := 0
		for _, e := range g.Exits() {
			if e.Kind == ExitPanic {
				continue
			}
			s, ok := ef.ExitState(e)
			if !ok {
				continue
			}
			n++
			r.Check(s.Must["count"] && s.Max["count"] == 1, e.Node, name+" exit "+exitDesc(p, e)+" has counted the attempt exactly once", "metrics.attempt(1, ...) on every path",
				"an exit of "+name+" is reached without the attempt having been added to the query's metrics (or after adding it twice): Attempts() stays behind, so retry policies that bound the number of attempts keep granting retries (or stop early)")
		}
		if n == 0 {
			r.Unresolved("%s has no exits", name)
		}
		if counted != nil && len(counted.Args) >= 1 {
			// which argument is the number of attempts: what (*queryMetrics).attempt adds to the running total
			argIdx, field := 0, ""
			if mf := p.Func("(*queryMetrics).attempt"); mf != nil && mf.Decl.Body != nil {
				minfo := mf.Pkg.TypesInfo
				ast.Inspect(mf.Decl.Body, func(x ast.Node) bool {
					as, ok := x.(*ast.AssignStmt)
					if !ok || as.Tok != token.ADD_ASSIGN || len(as.Lhs) != 1 || len(as.Rhs) != 1 {
						return true
					}
					if fv := fieldOf(minfo, as.Lhs[0]); fv == nil || fv.Name() != "totalAttempts" {
						return true
					}
					rhs := ast.Unparen(as.Rhs[0])
					f := ""
					if sel, isSel := rhs.(*ast.SelectorExpr); isSel && fieldOf(minfo, sel) != nil {
						f = sel.Sel.Name
						rhs = ast.Unparen(sel.X)
					}
					if id, isId := rhs.(*ast.Ident); isId {
						if k := paramIndexByName(mf.Decl.Type, id.Name); k >= 0 {
							argIdx, field = k, f
						}
					}
					return true
				})
			}
			var amount ast.Expr
			if argIdx < len(counted.Args) {
				amount = counted.Args[argIdx]
				if field != "" {
					lit := ast.Unparen(amount)
					if u, isU := lit.(*ast.UnaryExpr); isU && u.Op == token.AND {
						lit = ast.Unparen(u.X)
					}
					amount = nil
					if cl, isCL := lit.(*ast.CompositeLit); isCL {
						amount = &ast.BasicLit{Kind: token.INT, Value: "0"} // a field left out is zero
						for _, el := range cl.Elts {
							if kv, isKV := el.(*ast.KeyValueExpr); isKV && exprStr(kv.Key) == field {
								amount = kv.Value
							}
						}
					}
				}
			}
			got := "?"
			isK, k := false, int64(0)
			if amount != nil {
				got = exprStr(amount)
				if bl, isBL := amount.(*ast.BasicLit); isBL && bl.Value == "0" && info.Types[amount].Value == nil {
					isK, k = true, 0
				} else {
					k, isK = constInt(info, amount)
				}
			}
			r.Check(isK && k == 1, counted, name+" adds one attempt", "metrics.attempt(1, ...)", "an execution is counted as "+got+" attempts")
		}
	}
}

// c13r9: a policy with NumRetries allows NumRetries retries after the first execution. Attempts() counts the
// executions made so far, so Attempt may answer true only where Attempts() <= NumRetries is known (difference-bound
// proof from the guard facts; a result expression is assumed true first).
func c13r9(p *Program, r *Report) {
	n := 0
	p.forEachFunc(false, func(fi *FuncInfo) {
		if fi.Pkg != p.Root || fi.Decl.Recv == nil || fi.Obj == nil || fi.Obj.Name() != "Attempt" || fi.Decl.Body == nil {
			return
		}
		info := fi.Pkg.TypesInfo
		// the receiver type has a NumRetries field
		rt := info.TypeOf(fi.Decl.Recv.List[0].Type)
		if rt == nil || p.Field(typeNameOf(rt), "NumRetries") == nil || len(fi.Decl.Recv.List[0].Names) != 1 {
			return
		}
		recv := fi.Decl.Recv.List[0].Names[0].Name
		qp := paramObj(info, fi.Decl.Type, 0)
		if qp == nil {
			return
		}
		g := p.GraphOf(fi)
		facts := g.GuardFacts()
		attempts := &ast.CallExpr{Fun: &ast.SelectorExpr{X: ast.NewIdent(qp.Name()), Sel: ast.NewIdent("Attempts")}}
		budget := &ast.SelectorExpr{X: ast.NewIdent(recv), Sel: ast.NewIdent("NumRetries")}
		for _, e := range g.Exits() {
			rs, ok := e.Node.(*ast.ReturnStmt)
			if !ok || len(rs.Results) != 1 {
				continue
			}
			f0, okF := facts.Before(rs)
			if !okF {
				continue
			}
			f := f0.clone()
			if tv, isC := info.Types[rs.Results[0]]; isC && tv.Value != nil {
				if tv.Value.String() != "true" {
					continue
				}
			} else {
				f.assume(rs.Results[0], true)
			}
			n++
			d := newDBM(g, f, nil)
			okB := d.le(exprStr(attempts), 0, exprStr(budget), 0)
			r.Check(okB, rs, fi.Name+" grants another attempt only within the retry budget", exprStr(attempts)+" <= "+exprStr(budget)+" known where it answers true",
				fi.Name+" can answer true although "+exprStr(attempts)+" already exceeds "+exprStr(budget)+": the query is executed more often than the policy allows (1 + NumRetries), and the error returned comes from an attempt that should not exist")
		}
	})
	if n == 0 {
		r.Unresolved("no retry policy with a NumRetries budget found")
	}
}

// c13r10: a retry or a speculative execution goes to "the next offered host": the next element of the sequence the
// host selection policy produced for this query. executeQuery therefore asks the policy once (one Pick per query) and
// every execution - the main one and those started by the speculation timer - is handed that one NextHost.
func c13r10(p *Program, r *Report) {
	fi := r.NeedFunc("(*queryExecutor).executeQuery")
	if fi == nil {
		return
	}
	var picks []*ast.CallExpr
	var where []*FuncInfo
	for _, u := range p.unitsOf(fi) {
		info := u.Pkg.TypesInfo
		for _, c := range callsIn(u.Decl.Body) {
			if strings.HasSuffix(calleeName(info, c), "HostSelectionPolicy.Pick") {
				picks = append(picks, c)
				where = append(where, u)
			}
		}
	}
	if len(picks) == 0 {
		r.Unresolved("executeQuery never asks the host selection policy")
		return
	}
	for i, c := range picks {
		u := where[i]
		inLoop := p.inLoop(c, u.Decl)
		inGo := p.enclosing(c, u.Decl, func(m ast.Node) bool { _, is := m.(*ast.GoStmt); return is }) != nil
		r.Check(len(picks) == 1 && !inLoop && !inGo, c, u.Name+" obtains one host sequence per query", "a single Pick, outside loops and go statements",
			"the host selection policy is asked more than once for one query ("+itoa(len(picks))+" Pick call sites"+ifs(inLoop, ", one in a loop", "")+ifs(inGo, ", one in a go statement", "")+"): a speculative execution or retry then starts again at the first host of a fresh sequence instead of taking the next offered host - the slow host receives overlapping copies of the query")
	}
}
