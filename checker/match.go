package main

import (
	"go/ast"
	"go/token"
	"go/types"
)

// isField reports whether e is a selector denoting field `field` of named struct type `typ`.
func (p *Program) isField(info *types.Info, e ast.Expr, typ, field string) bool {
	fv := fieldOf(info, e)
	if fv == nil {
		return false
	}
	want := p.Field(typ, field)
	return want != nil && fv == want
}

// recvChan returns the channel expression X of a receive `<-X` / `v := <-X` / `v, ok := <-X` statement or expression.
func recvChan(n ast.Node) ast.Expr {
	switch s := n.(type) {
	case *ast.ExprStmt:
		return recvChan(s.X)
	case *ast.AssignStmt:
		if len(s.Rhs) == 1 {
			return recvChan(s.Rhs[0])
		}
	case *ast.UnaryExpr:
		if s.Op == token.ARROW {
			return s.X
		}
	case *ast.ParenExpr:
		return recvChan(s.X)
	}
	return nil
}

// recvsIn lists the channel expressions received from inside n (no literals).
func recvsIn(n ast.Node) []ast.Expr {
	var out []ast.Expr
	inspectNoLit(n, func(x ast.Node) bool {
		if u, ok := x.(*ast.UnaryExpr); ok && u.Op == token.ARROW {
			out = append(out, u.X)
		}
		return true
	})
	return out
}

// commClauses returns the clauses of a select statement.
func commClauses(s *ast.SelectStmt) []*ast.CommClause {
	var out []*ast.CommClause
	for _, c := range s.Body.List {
		out = append(out, c.(*ast.CommClause))
	}
	return out
}

// hasDefault reports whether the select has a default clause.
func hasDefault(s *ast.SelectStmt) bool {
	for _, c := range commClauses(s) {
		if c.Comm == nil {
			return true
		}
	}
	return false
}

// enclosingSelectComm: if stmt is the Comm of a select clause, returns the select and clause.
func (p *Program) enclosingSelectComm(stmt ast.Node) (*ast.SelectStmt, *ast.CommClause) {
	cc, ok := p.Parent(stmt).(*ast.CommClause)
	if !ok || cc.Comm != stmt {
		return nil, nil
	}
	body, _ := p.Parent(cc).(*ast.BlockStmt)
	if body == nil {
		return nil, nil
	}
	sel, _ := p.Parent(body).(*ast.SelectStmt)
	return sel, cc
}

// forEachFunc calls f for every declared function with a body in the root package (and internals when all=true).
func (p *Program) forEachFunc(all bool, f func(fi *FuncInfo)) {
	for _, fi := range p.SortedFuncs() {
		if fi.Decl.Body == nil {
			continue
		}
		if !all && fi.Pkg != p.Root {
			continue
		}
		f(fi)
	}
}

// isCallTo reports whether call's static callee has the given qualified name.
func isCallTo(info *types.Info, call *ast.CallExpr, names ...string) bool {
	n := calleeName(info, call)
	if n == "" {
		return false
	}
	for _, w := range names {
		if n == w {
			return true
		}
	}
	return false
}

// ifaceMethodName returns "Iface.Method" if call is a dynamic call through a named interface, else "".
func ifaceMethodName(info *types.Info, call *ast.CallExpr) string {
	fn := calleeOf(info, call)
	if fn == nil {
		return ""
	}
	sig := fn.Type().(*types.Signature)
	if sig.Recv() == nil || !types.IsInterface(sig.Recv().Type()) {
		return ""
	}
	return funcQualNameAny(fn)
}

// singleAssigned reports whether local variable obj is written exactly once inside body
// (its definition), i.e. never re-assigned, inc/dec'ed, or address-taken.
func singleAssigned(info *types.Info, body ast.Node, obj types.Object) bool {
	writes := 0
	ok := true
	ast.Inspect(body, func(n ast.Node) bool {
		switch s := n.(type) {
		case *ast.AssignStmt:
			for _, l := range s.Lhs {
				if id, isId := ast.Unparen(l).(*ast.Ident); isId {
					if info.Defs[id] == obj || info.Uses[id] == obj {
						writes++
					}
				}
			}
		case *ast.IncDecStmt:
			if id, isId := ast.Unparen(s.X).(*ast.Ident); isId && info.Uses[id] == obj {
				ok = false
			}
		case *ast.UnaryExpr:
			if s.Op == token.AND {
				if id, isId := ast.Unparen(s.X).(*ast.Ident); isId && info.Uses[id] == obj {
					ok = false
				}
			}
		case *ast.RangeStmt:
			for _, l := range []ast.Expr{s.Key, s.Value} {
				if id, isId := l.(*ast.Ident); isId && (info.Defs[id] == obj || info.Uses[id] == obj) {
					writes++
				}
			}
		case *ast.ValueSpec:
			for _, id := range s.Names {
				if info.Defs[id] == obj && len(s.Values) > 0 {
					writes++
				}
			}
		}
		return true
	})
	return ok && writes <= 1
}

// isIdentOf reports whether e is an identifier denoting obj.
func isIdentOf(info *types.Info, e ast.Expr, obj types.Object) bool {
	id, ok := ast.Unparen(e).(*ast.Ident)
	return ok && obj != nil && (info.Uses[id] == obj || info.Defs[id] == obj)
}

// paramObj returns the i-th parameter object of a function declaration (flattened), or nil.
func paramObj(info *types.Info, ft *ast.FuncType, i int) types.Object {
	k := 0
	for _, f := range ft.Params.List {
		if len(f.Names) == 0 {
			k++
			continue
		}
		for _, n := range f.Names {
			if k == i {
				return info.Defs[n]
			}
			k++
		}
	}
	return nil
}

// paramIndexByName returns the index of the parameter named name.
func paramIndexByName(ft *ast.FuncType, name string) int {
	k := 0
	for _, f := range ft.Params.List {
		if len(f.Names) == 0 {
			k++
			continue
		}
		for _, n := range f.Names {
			if n.Name == name {
				return k
			}
			k++
		}
	}
	return -1
}

// stmtIndex returns the index of s in its enclosing statement list and the list.
func (p *Program) stmtIndex(s ast.Stmt) (int, []ast.Stmt) {
	var list []ast.Stmt
	switch par := p.Parent(s).(type) {
	case *ast.BlockStmt:
		list = par.List
	case *ast.CaseClause:
		list = par.Body
	case *ast.CommClause:
		list = par.Body
	}
	for i, x := range list {
		if x == s {
			return i, list
		}
	}
	return -1, nil
}

// errCheckOf: for a condition `err != nil` (or `err == nil`), find the call whose error result
// err holds: either the init statement of the enclosing if, or the statement right before it.
// Returns the call and whether the condition being TRUE means "error".
func (p *Program) errCheckOf(info *types.Info, cond ast.Expr) (call *ast.CallExpr, trueMeansErr bool) {
	b, ok := ast.Unparen(cond).(*ast.BinaryExpr)
	if !ok || (b.Op != token.NEQ && b.Op != token.EQL) {
		return nil, false
	}
	var id *ast.Ident
	if isNil(info, b.Y) {
		id, _ = ast.Unparen(b.X).(*ast.Ident)
	} else if isNil(info, b.X) {
		id, _ = ast.Unparen(b.Y).(*ast.Ident)
	}
	if id == nil {
		return nil, false
	}
	obj := info.Uses[id]
	ifs, _ := p.Parent(cond).(*ast.IfStmt)
	if ifs == nil || ifs.Cond != cond {
		return nil, false
	}
	fromAssign := func(s ast.Stmt) *ast.CallExpr {
		as, ok := s.(*ast.AssignStmt)
		if !ok || len(as.Rhs) != 1 {
			return nil
		}
		c, ok := ast.Unparen(as.Rhs[0]).(*ast.CallExpr)
		if !ok {
			return nil
		}
		for _, l := range as.Lhs {
			if lid, ok := l.(*ast.Ident); ok && (info.Defs[lid] == obj || info.Uses[lid] == obj) {
				return c
			}
		}
		return nil
	}
	if ifs.Init != nil {
		if c := fromAssign(ifs.Init); c != nil {
			return c, b.Op == token.NEQ
		}
	}
	if i, list := p.stmtIndex(ifs); i > 0 {
		if c := fromAssign(list[i-1]); c != nil {
			return c, b.Op == token.NEQ
		}
	}
	return nil, false
}

// callerWithin reports whether fi is one of the allowed functions, or a private helper (unexported, never used
// as a value) all of whose call sites are in functions that are themselves within the allowed set (two levels):
// a block extracted from an allowed function into a helper does not create a new kind of caller.
func (p *Program) callerWithin(fi *FuncInfo, allowed []string, depth int) bool {
	for _, a := range allowed {
		if a == fi.Name {
			return true
		}
	}
	if depth >= 2 || fi.Obj == nil || fi.Obj.Exported() {
		return false
	}
	nsites, ok := 0, true
	for _, caller := range p.SortedFuncs() {
		if caller.Decl.Body == nil || caller.Pkg != fi.Pkg {
			continue
		}
		info := caller.Pkg.TypesInfo
		ast.Inspect(caller.Decl.Body, func(n ast.Node) bool {
			id, isId := n.(*ast.Ident)
			if !isId || info.Uses[id] != types.Object(fi.Obj) {
				return true
			}
			// the identifier must be the function of a call (possibly through a selector)
			var fun ast.Node = id
			if sel, isSel := p.Parent(id).(*ast.SelectorExpr); isSel && sel.Sel == id {
				fun = sel
			}
			c, isCall := p.Parent(fun).(*ast.CallExpr)
			if !isCall || c.Fun != fun {
				ok = false // used as a value: callers unknown
				return true
			}
			nsites++
			if caller != fi && !p.callerWithin(caller, allowed, depth+1) {
				ok = false
			}
			return true
		})
	}
	return ok && nsites > 0
}

// resolveValue follows e (evaluated in fi) through single-assignment local variables and, when e is a parameter
// of a private function with exactly one call site, through the argument passed there. It returns the function
// and expression at which resolution stopped.
func (p *Program) resolveValue(fi *FuncInfo, e ast.Expr, depth int) (*FuncInfo, ast.Expr) {
	e = ast.Unparen(e)
	if depth > 4 {
		return fi, e
	}
	info := fi.Pkg.TypesInfo
	id, ok := e.(*ast.Ident)
	if !ok {
		return fi, e
	}
	obj := info.Uses[id]
	if obj == nil {
		return fi, e
	}
	// parameter of a private helper with one call site
	if v, isVar := obj.(*types.Var); isVar && fi.Obj != nil && !fi.Obj.Exported() {
		sig := fi.Obj.Type().(*types.Signature)
		// the receiver of a private method with one call site: the expression the method is called on
		if sig.Recv() == v && neverAssigned(info, fi.Decl.Body, obj) {
			var site *ast.CallExpr
			var siteFn *FuncInfo
			n := 0
			for _, caller := range p.SortedFuncs() {
				if caller.Decl.Body == nil || caller.Pkg != fi.Pkg {
					continue
				}
				for _, c := range callsIn(caller.Decl.Body) {
					if fn := calleeOf(caller.Pkg.TypesInfo, c); fn != nil && p.FuncOf(fn) == fi {
						n++
						site, siteFn = c, caller
					}
				}
			}
			if n == 1 {
				if rx := recvExpr(site); rx != nil {
					return p.resolveValue(siteFn, rx, depth+1)
				}
			}
			return fi, e
		}
		for i := 0; i < sig.Params().Len(); i++ {
			if sig.Params().At(i) != v {
				continue
			}
			if !neverAssigned(info, fi.Decl.Body, obj) {
				return fi, e
			}
			var site *ast.CallExpr
			var siteFn *FuncInfo
			n := 0
			for _, caller := range p.SortedFuncs() {
				if caller.Decl.Body == nil || caller.Pkg != fi.Pkg {
					continue
				}
				for _, c := range callsIn(caller.Decl.Body) {
					if fn := calleeOf(caller.Pkg.TypesInfo, c); fn != nil && p.FuncOf(fn) == fi {
						n++
						site, siteFn = c, caller
					}
				}
			}
			if n == 1 && i < len(site.Args) {
				return p.resolveValue(siteFn, site.Args[i], depth+1)
			}
			return fi, e
		}
	}
	if singleAssigned(info, fi.Decl.Body, obj) {
		if d := localDef(info, fi, id); d != nil {
			return p.resolveValue(fi, d, depth+1)
		}
	}
	return fi, e
}

// privateCallees: the unexported functions of fi's package that fi calls directly (bodies available).
func (p *Program) privateCallees(fi *FuncInfo) []*FuncInfo {
	seen := map[*FuncInfo]bool{}
	var out []*FuncInfo
	for _, c := range callsIn(fi.Decl.Body) {
		if fn := calleeOf(fi.Pkg.TypesInfo, c); fn != nil {
			if callee := p.FuncOf(fn); callee != nil && callee != fi && callee.Decl.Body != nil && callee.Pkg == fi.Pkg && !fn.Exported() && !seen[callee] {
				seen[callee] = true
				out = append(out, callee)
			}
		}
	}
	return out
}

type argSite struct {
	Fn   *FuncInfo
	Call *ast.CallExpr
	Expr ast.Expr
}

// effectiveArgs returns the expressions that actually reach argument idx of call c (in fi): the argument itself,
// or — when it is a parameter of fi and fi is only a wrapper — the corresponding arguments at every call site of
// fi (two levels).
func (p *Program) effectiveArgs(fi *FuncInfo, c *ast.CallExpr, idx int, depth int) []argSite {
	if idx >= len(c.Args) {
		return nil
	}
	arg := ast.Unparen(c.Args[idx])
	info := fi.Pkg.TypesInfo
	if id, ok := arg.(*ast.Ident); ok && depth < 2 && fi.Obj != nil {
		if v, isVar := info.Uses[id].(*types.Var); isVar {
			sig := fi.Obj.Type().(*types.Signature)
			for i := 0; i < sig.Params().Len(); i++ {
				if sig.Params().At(i) != v || !neverAssigned(info, fi.Decl.Body, v) {
					continue
				}
				var out []argSite
				for _, caller := range p.SortedFuncs() {
					if caller.Decl.Body == nil || caller.Pkg != fi.Pkg {
						continue
					}
					for _, cc := range callsIn(caller.Decl.Body) {
						if fn := calleeOf(caller.Pkg.TypesInfo, cc); fn != nil && p.FuncOf(fn) == fi {
							out = append(out, p.effectiveArgs(caller, cc, i, depth+1)...)
						}
					}
				}
				if len(out) > 0 {
					return out
				}
			}
		}
	}
	return []argSite{{fi, c, arg}}
}

// onlyCalledWithin: every static reference to fi is a call from one of the given functions.
func (p *Program) onlyCalledWithin(fi *FuncInfo, within []*FuncInfo) bool {
	if fi.Obj == nil || fi.Obj.Exported() || p.usedAsValue(fi) {
		return false
	}
	in := map[*FuncInfo]bool{}
	for _, w := range within {
		in[w] = true
	}
	ok := true
	for _, caller := range p.SortedFuncs() {
		if caller.Decl.Body == nil {
			continue
		}
		for _, c := range callsIn(caller.Decl.Body) {
			if fn := calleeOf(caller.Pkg.TypesInfo, c); fn != nil && p.FuncOf(fn) == fi && !in[caller] {
				ok = false
			}
		}
	}
	return ok
}

// isFieldOf: e selects some field of the named struct type.
func (p *Program) isFieldOf(info *types.Info, e ast.Expr, typ string) bool {
	fv := fieldOf(info, e)
	if fv == nil {
		return false
	}
	nt := p.NamedType(typ)
	if nt == nil {
		return false
	}
	st, ok := nt.Underlying().(*types.Struct)
	if !ok {
		return false
	}
	return structHasField(st, fv, 0)
}

// structHasField: fv is a field of st, directly or promoted from an embedded struct.
func structHasField(st *types.Struct, fv *types.Var, depth int) bool {
	for i := 0; i < st.NumFields(); i++ {
		f := st.Field(i)
		if f == fv {
			return true
		}
		if f.Embedded() && depth < 3 {
			if es, isS := derefType(f.Type()).Underlying().(*types.Struct); isS && structHasField(es, fv, depth+1) {
				return true
			}
		}
	}
	return false
}

// fieldsTyped: the fields of the named struct type whose type prints as typ (e.g. "sync.Once", "*gocql.Iter").
func (p *Program) fieldsTyped(typeName string, pred func(types.Type) bool) []*types.Var {
	nt := p.NamedType(typeName)
	if nt == nil {
		return nil
	}
	st, ok := nt.Underlying().(*types.Struct)
	if !ok {
		return nil
	}
	var out []*types.Var
	var walk func(st *types.Struct, depth int)
	walk = func(st *types.Struct, depth int) {
		for i := 0; i < st.NumFields(); i++ {
			f := st.Field(i)
			if pred(f.Type()) {
				out = append(out, f)
			}
			if f.Embedded() && depth < 3 {
				if es, isS := derefType(f.Type()).Underlying().(*types.Struct); isS {
					walk(es, depth+1)
				}
			}
		}
	}
	walk(st, 0)
	return out
}

// funcTable: e names a package-level array / slice variable of the module that is initialised with a composite
// literal of function literals and never written afterwards; returns the literals in order.
func (p *Program) funcTable(info *types.Info, e ast.Expr) []*ast.FuncLit {
	id, ok := ast.Unparen(e).(*ast.Ident)
	if !ok {
		return nil
	}
	tv, ok := info.Uses[id].(*types.Var)
	if !ok || tv.Pkg() == nil || tv.Parent() != tv.Pkg().Scope() {
		return nil
	}
	var lit *ast.CompositeLit
	written := false
	for _, pkg := range p.Pkgs {
		if pkg.Types != tv.Pkg() {
			continue
		}
		for _, f := range pkg.Syntax {
			ast.Inspect(f, func(x ast.Node) bool {
				switch y := x.(type) {
				case *ast.ValueSpec:
					for i, nm := range y.Names {
						if pkg.TypesInfo.Defs[nm] == types.Object(tv) && i < len(y.Values) {
							lit, _ = ast.Unparen(y.Values[i]).(*ast.CompositeLit)
						}
					}
				case *ast.AssignStmt:
					for _, l := range y.Lhs {
						if rid := rootIdent(l); rid != nil && pkg.TypesInfo.Uses[rid] == types.Object(tv) {
							written = true
						}
					}
				case *ast.UnaryExpr:
					if rid := rootIdent(y.X); y.Op == token.AND && rid != nil && pkg.TypesInfo.Uses[rid] == types.Object(tv) {
						written = true
					}
				}
				return true
			})
		}
	}
	if lit == nil || written || len(lit.Elts) == 0 {
		return nil
	}
	var out []*ast.FuncLit
	for _, el := range lit.Elts {
		if kv, isKV := el.(*ast.KeyValueExpr); isKV {
			el = kv.Value
		}
		fl, isFL := ast.Unparen(el).(*ast.FuncLit)
		if !isFL {
			return nil
		}
		out = append(out, fl)
	}
	return out
}

// runAllLoop: loop is `for _, f := range T { f(args) }` or `for i := 0; i < len(T); i++ { T[i](args) }` over a function
// table T (see funcTable) whose body is that single call: every entry of the table runs, in order. Returns the
// literals.
func (p *Program) runAllLoop(info *types.Info, loop ast.Stmt) []*ast.FuncLit {
	var body *ast.BlockStmt
	var table ast.Expr
	elemIs := func(fun ast.Expr) bool { return false }
	switch l := loop.(type) {
	case *ast.RangeStmt:
		body, table = l.Body, l.X
		if v, ok := l.Value.(*ast.Ident); ok {
			elemIs = func(fun ast.Expr) bool {
				id, isId := ast.Unparen(fun).(*ast.Ident)
				return isId && info.Uses[id] != nil && info.Uses[id] == info.Defs[v]
			}
		}
	case *ast.ForStmt:
		body = l.Body
		name, x, ok := indexLoopOver(info, l)
		if !ok {
			return nil
		}
		table = x
		elemIs = func(fun ast.Expr) bool {
			ix, isIx := ast.Unparen(fun).(*ast.IndexExpr)
			return isIx && exprStr(ix.Index) == name && exprStr(ix.X) == exprStr(x)
		}
	default:
		return nil
	}
	if body == nil || len(body.List) != 1 {
		return nil
	}
	es, ok := body.List[0].(*ast.ExprStmt)
	if !ok {
		return nil
	}
	c, ok := es.X.(*ast.CallExpr)
	if !ok || !elemIs(c.Fun) {
		return nil
	}
	return p.funcTable(info, table)
}
