package main

import (
	"go/ast"
	"go/token"
	"go/types"
)

// isField reports whether e is a selector denoting field `field` of named struct type `typ`.
func (p *Program) isField(info *types.Info, e ast.Expr, typ, field string) bool {
	fv := fieldOf(info, e)
	if fv == nil {
		return false
	}
	want := p.Field(typ, field)
	return want != nil && fv == want
}

// recvChan returns the channel expression X of a receive `<-X` / `v := <-X` / `v, ok := <-X` statement or expression.
func recvChan(n ast.Node) ast.Expr {
	switch s := n.(type) {
	case *ast.ExprStmt:
		return recvChan(s.X)
	case *ast.AssignStmt:
		if len(s.Rhs) == 1 {
			return recvChan(s.Rhs[0])
		}
	case *ast.UnaryExpr:
		if s.Op == token.ARROW {
			return s.X
		}
	case *ast.ParenExpr:
		return recvChan(s.X)
	}
	return nil
}

// recvsIn lists the channel expressions received from inside n (no literals).
func recvsIn(n ast.Node) []ast.Expr {
	var out []ast.Expr
	inspectNoLit(n, func(x ast.Node) bool {
		if u, ok := x.(*ast.UnaryExpr); ok && u.Op == token.ARROW {
			out = append(out, u.X)
		}
		return true
	})
	return out
}

// commClauses returns the clauses of a select statement.
func commClauses(s *ast.SelectStmt) []*ast.CommClause {
	var out []*ast.CommClause
	for _, c := range s.Body.List {
		out = append(out, c.(*ast.CommClause))
	}
	return out
}

// hasDefault reports whether the select has a default clause.
func hasDefault(s *ast.SelectStmt) bool {
	for _, c := range commClauses(s) {
		if c.Comm == nil {
			return true
		}
	}
	return false
}

// enclosingSelectComm: if stmt is the Comm of a select clause, returns the select and clause.
func (p *Program) enclosingSelectComm(stmt ast.Node) (*ast.SelectStmt, *ast.CommClause) {
	cc, ok := p.Parent(stmt).(*ast.CommClause)
	if !ok || cc.Comm != stmt {
		return nil, nil
	}
	body, _ := p.Parent(cc).(*ast.BlockStmt)
	if body == nil {
		return nil, nil
	}
	sel, _ := p.Parent(body).(*ast.SelectStmt)
	return sel, cc
}

// forEachFunc calls f for every declared function with a body in the root package (and internals when all=true).
func (p *Program) forEachFunc(all bool, f func(fi *FuncInfo)) {
	for _, fi := range p.SortedFuncs() {
		if fi.Decl.Body == nil {
			continue
		}
		if !all && fi.Pkg != p.Root {
			continue
		}
		f(fi)
	}
}

// isCallTo reports whether call's static callee has the given qualified name.
func isCallTo(info *types.Info, call *ast.CallExpr, names ...string) bool {
	n := calleeName(info, call)
	if n == "" {
		return false
	}
	for _, w := range names {
		if n == w {
			return true
		}
	}
	return false
}

// ifaceMethodName returns "Iface.Method" if call is a dynamic call through a named interface, else "".
func ifaceMethodName(info *types.Info, call *ast.CallExpr) string {
	fn := calleeOf(info, call)
	if fn == nil {
		return ""
	}
	sig := fn.Type().(*types.Signature)
	if sig.Recv() == nil || !types.IsInterface(sig.Recv().Type()) {
		return ""
	}
	return funcQualNameAny(fn)
}

// singleAssigned reports whether local variable obj is written exactly once inside body
// (its definition), i.e. never re-assigned, inc/dec'ed, or address-taken.
func singleAssigned(info *types.Info, body ast.Node, obj types.Object) bool {
	writes := 0
	ok := true
	ast.Inspect(body, func(n ast.Node) bool {
		switch s := n.(type) {
		case *ast.AssignStmt:
			for _, l := range s.Lhs {
				if id, isId := ast.Unparen(l).(*ast.Ident); isId {
					if info.Defs[id] == obj || info.Uses[id] == obj {
						writes++
					}
				}
			}
		case *ast.IncDecStmt:
			if id, isId := ast.Unparen(s.X).(*ast.Ident); isId && info.Uses[id] == obj {
				ok = false
			}
		case *ast.UnaryExpr:
			if s.Op == token.AND {
				if id, isId := ast.Unparen(s.X).(*ast.Ident); isId && info.Uses[id] == obj {
					ok = false
				}
			}
		case *ast.RangeStmt:
			for _, l := range []ast.Expr{s.Key, s.Value} {
				if id, isId := l.(*ast.Ident); isId && (info.Defs[id] == obj || info.Uses[id] == obj) {
					writes++
				}
			}
		case *ast.ValueSpec:
			for _, id := range s.Names {
				if info.Defs[id] == obj && len(s.Values) > 0 {
					writes++
				}
			}
		}
		return true
	})
	return ok && writes <= 1
}

// isIdentOf reports whether e is an identifier denoting obj.
func isIdentOf(info *types.Info, e ast.Expr, obj types.Object) bool {
	id, ok := ast.Unparen(e).(*ast.Ident)
	return ok && obj != nil && (info.Uses[id] == obj || info.Defs[id] == obj)
}

// paramObj returns the i-th parameter object of a function declaration (flattened), or nil.
func paramObj(info *types.Info, ft *ast.FuncType, i int) types.Object {
	k := 0
	for _, f := range ft.Params.List {
		if len(f.Names) == 0 {
			k++
			continue
		}
		for _, n := range f.Names {
			if k == i {
				return info.Defs[n]
			}
			k++
		}
	}
	return nil
}

// paramIndexByName returns the index of the parameter named name.
func paramIndexByName(ft *ast.FuncType, name string) int {
	k := 0
	for _, f := range ft.Params.List {
		if len(f.Names) == 0 {
			k++
			continue
		}
		for _, n := range f.Names {
			if n.Name == name {
				return k
			}
			k++
		}
	}
	return -1
}

// stmtIndex returns the index of s in its enclosing statement list and the list.
func (p *Program) stmtIndex(s ast.Stmt) (int, []ast.Stmt) {
	var list []ast.Stmt
	switch par := p.Parent(s).(type) {
	case *ast.BlockStmt:
		list = par.List
	case *ast.CaseClause:
		list = par.Body
	case *ast.CommClause:
		list = par.Body
	}
	for i, x := range list {
		if x == s {
			return i, list
		}
	}
	return -1, nil
}

// errCheckOf: for a condition `err != nil` (or `err == nil`), find the call whose error result
// err holds: either the init statement of the enclosing if, or the statement right before it.
// Returns the call and whether the condition being TRUE means "error".
func (p *Program) errCheckOf(info *types.Info, cond ast.Expr) (call *ast.CallExpr, trueMeansErr bool) {
	b, ok := ast.Unparen(cond).(*ast.BinaryExpr)
	if !ok || (b.Op != token.NEQ && b.Op != token.EQL) {
		return nil, false
	}
	var id *ast.Ident
	if isNil(info, b.Y) {
		id, _ = ast.Unparen(b.X).(*ast.Ident)
	} else if isNil(info, b.X) {
		id, _ = ast.Unparen(b.Y).(*ast.Ident)
	}
	if id == nil {
		return nil, false
	}
	obj := info.Uses[id]
	ifs, _ := p.Parent(cond).(*ast.IfStmt)
	if ifs == nil || ifs.Cond != cond {
		return nil, false
	}
	fromAssign := func(s ast.Stmt) *ast.CallExpr {
		as, ok := s.(*ast.AssignStmt)
		if !ok || len(as.Rhs) != 1 {
			return nil
		}
		c, ok := ast.Unparen(as.Rhs[0]).(*ast.CallExpr)
		if !ok {
			return nil
		}
		for _, l := range as.Lhs {
			if lid, ok := l.(*ast.Ident); ok && (info.Defs[lid] == obj || info.Uses[lid] == obj) {
				return c
			}
		}
		return nil
	}
	if ifs.Init != nil {
		if c := fromAssign(ifs.Init); c != nil {
			return c, b.Op == token.NEQ
		}
	}
	if i, list := p.stmtIndex(ifs); i > 0 {
		if c := fromAssign(list[i-1]); c != nil {
			return c, b.Op == token.NEQ
		}
	}
	return nil, false
}
