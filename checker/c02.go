package main

import (
	"fmt"
	"go/ast"
	"go/constant"
	"go/token"
	"go/types"
	"math/big"
	"os"
	"sort"
	"strconv"
	"strings"
)

func init() {
	register(&PropertySpec{
		ID: "C02",
		Explanation: "Structural necessary conditions of 'Marshal then Unmarshal gives the value back, or an error': R1 every integer conversion in the marshal*/unmarshalIntlike functions whose target cannot hold every value of its source is dominated by comparisons that confine the operand to the target's range (interval analysis over guard facts, for GOARCH amd64 and, thorough, 386), or is an explicit mask to the CQL type's width; " +
			"R2 Marshal, Unmarshal and goType dispatch over exactly the declared CQL types and to handlers of the same family; R3 the fixed-width encoder and decoder primitives are the same big-endian tables and the collection size reader and writer switch width at the same protocol version; R4 null framing: the writers emit length -1 exactly for a nil element encoding, the readers hand nil to the element decoder exactly for a negative length (no stale slice from a previous element); " +
			"R5 short varint / decimal encodings are sign-extended on every path (the decoder consults the top bit of data[0] for every length 1..7); R6 the masks unmarshalIntlike applies per CQL type equal that type's width and fit the destination; R7 pointer-to-pointer destinations get nil for null and a fresh value otherwise." +
			" R3 also: the collection size writer refuses a size that does not fit the field it writes (2 bytes up to protocol 2, 4 signed bytes after); R9 the sign extension of a short varint subtracts exactly 2^(8*len), as a term over the symbolic length." +
			" R8 also judges where the trimming stops (the first remaining byte must not be redundant on any path, so the encoding is minimal), path-sensitively with drop marks; R10 = C12.R11 (element loops consume), R11 = C12.R6 (vint coding), R12 = C12.R12 (every decoded element gets storage created in its own iteration).",
		NotDecided: "value equality for every value (varint/decimal trimming boundaries, NaN payloads, time arithmetic): numerical, needs execution; user Marshaler/Unmarshaler implementations; reflection paths into caller-defined types beyond their Kind dispatch.",
		Rules: []*Rule{
			{ID: "C02.R1", Floor: 40, Doc: "narrowing integer conversions are range-guarded or width-masked", Run: c02r1},
			{ID: "C02.R2", Floor: 50, Doc: "Marshal / Unmarshal / goType dispatch symmetry and exhaustiveness", Run: c02r2},
			{ID: "C02.R3", Floor: 8, Doc: "encoder/decoder primitive tables agree", Run: c02r3},
			{ID: "C02.R4", Floor: 10, Doc: "null element framing agrees between writers and readers", Run: c02r4},
			{ID: "C02.R5", Floor: 2, Doc: "short two's-complement encodings are sign-extended for every length", Run: c02r5},
			{ID: "C02.R6", Floor: 20, Doc: "unmarshalIntlike masks equal the CQL width and fit the destination", Run: c02r6},
			{ID: "C02.R7", Floor: 3, Doc: "nullable destinations: nil for null, fresh value otherwise", Run: c02r7},
			{ID: "C02.R8", Floor: 1, Doc: "varint trimming: a leading byte is dropped only when it is 0x00 followed by a byte with the top bit clear, or 0xFF followed by a byte with the top bit set", Run: c02r8},
			{ID: "C02.R9", Floor: 1, Doc: "the sign extension of a short varint subtracts exactly 2^(8*len)", Run: signExtendAmount},
			{ID: "C02.R10", Floor: 4, Doc: "element loops of the tuple / UDT decoders consume every element they pass over (=C12.R11)", Run: c12r11},
			{ID: "C02.R11", Floor: 6, Doc: "duration vints: zig-zag terms, length, marker and payload order agree with the specification on their finite domains (=C12.R6)", Run: c12r6},
			{ID: "C02.R15", Floor: 1, Doc: "decoding a map replaces the destination: every SetMapIndex is preceded on every path by setting the destination to a fresh map", Run: c02FreshMap},
			{ID: "C02.R16", Floor: 3, Doc: "time values are converted to milliseconds / days from Unix() and Nanosecond() (exact over the whole range of time.Time), never through UnixNano(), which overflows outside 1678..2262", Run: c02NoUnixNano},
			{ID: "C02.R17", Floor: 1, Doc: "a decoded list or set owns fresh storage (=C04.R15): what was decoded earlier into the same destination is not overwritten", Run: c04FreshList},
			{ID: "C02.R14", Floor: 10, Doc: "sibling agreement: every marshal<Type>(info, value) encoder has an explicit answer for the unset marker ((nil, nil); tuples and UDTs: the unsupported error)", Run: c02r14},
			{ID: "C02.R13", Floor: 1, Doc: "no integer product of a decoded wire value can overflow its type (unit conversions of timestamps and dates divide before they multiply)", Run: c02r13},
			{ID: "C02.R12", Floor: 3, Doc: "every decoded element gets storage of its own (=C12.R12)", Run: c12r12},
		},
		Variants: []Variant{{Name: "linux/386", GOARCH: "386"}},
	})
}

// ---------- R1: interval analysis of narrowing conversions ----------

type ival struct{ lo, hi *big.Int }

func pow2(n int) *big.Int { return new(big.Int).Lsh(big.NewInt(1), uint(n)) }

func typeRange(bits int, unsigned bool) ival {
	if unsigned {
		return ival{big.NewInt(0), new(big.Int).Sub(pow2(bits), big.NewInt(1))}
	}
	return ival{new(big.Int).Neg(pow2(bits - 1)), new(big.Int).Sub(pow2(bits-1), big.NewInt(1))}
}

func (a ival) within(b ival) bool { return a.lo.Cmp(b.lo) >= 0 && a.hi.Cmp(b.hi) <= 0 }
func (a ival) String() string     { return "[" + a.lo.String() + ", " + a.hi.String() + "]" }

// intWidth: width of an integer type under the analysed architecture.
func (p *Program) intWidth(t types.Type) (bits int, unsigned, ok bool) {
	b, isB := t.Underlying().(*types.Basic)
	if !isB || b.Info()&types.IsInteger == 0 {
		return 0, false, false
	}
	word := 64
	if p.Variant.GOARCH == "386" || p.Variant.GOARCH == "arm" {
		word = 32
	}
	switch b.Kind() {
	case types.Int8:
		return 8, false, true
	case types.Int16:
		return 16, false, true
	case types.Int32:
		return 32, false, true
	case types.Int64:
		return 64, false, true
	case types.Int:
		return word, false, true
	case types.Uint8:
		return 8, true, true
	case types.Uint16:
		return 16, true, true
	case types.Uint32:
		return 32, true, true
	case types.Uint64:
		return 64, true, true
	case types.Uint, types.Uintptr:
		return word, true, true
	}
	return 0, false, false
}

func constBig(info *types.Info, e ast.Expr) (*big.Int, bool) {
	tv, ok := info.Types[e]
	if !ok || tv.Value == nil {
		// synthetic literals of derived facts carry no type information
		switch x := ast.Unparen(e).(type) {
		case *ast.BasicLit:
			if x.Kind == token.INT {
				if bi, okP := new(big.Int).SetString(x.Value, 0); okP {
					return bi, true
				}
			}
		case *ast.UnaryExpr:
			if lit, isLit := x.X.(*ast.BasicLit); isLit && x.Op == token.SUB && lit.Kind == token.INT {
				if bi, okP := new(big.Int).SetString(lit.Value, 0); okP {
					return bi.Neg(bi), true
				}
			}
		}
		return nil, false
	}
	v := constant.ToInt(tv.Value)
	if v.Kind() != constant.Int {
		return nil, false
	}
	if i, exact := constant.Int64Val(v); exact {
		return big.NewInt(i), true
	}
	if bi, ok := constant.Val(v).(*big.Int); ok {
		return new(big.Int).Set(bi), true
	}
	return nil, false
}

// helperResultValues: id is a local bound (once) to result ri of a call `a, b := h(args)` of a module helper. The
// helper is evaluated by the term interpreter for every combination of its constant arguments with, for an argument
// of a named integer type that is not constant (info.Type()), each declared constant of that type and one value
// that is none of them; returns the set of values result ri can have (nil when anything cannot be evaluated).
func (p *Program) helperResultValues(fi *FuncInfo, id *ast.Ident) []uint64 {
	info := fi.Pkg.TypesInfo
	obj := info.Uses[id]
	if obj == nil {
		obj = info.Defs[id]
	}
	if obj == nil {
		return nil
	}
	var call *ast.CallExpr
	ri, ndef := -1, 0
	ast.Inspect(fi.Decl.Body, func(x ast.Node) bool {
		as, ok := x.(*ast.AssignStmt)
		if !ok {
			return true
		}
		for i, l := range as.Lhs {
			lid, isId := l.(*ast.Ident)
			if !isId || (info.Defs[lid] != obj && info.Uses[lid] != obj) {
				continue
			}
			ndef++
			if len(as.Rhs) == 1 && len(as.Lhs) > 1 {
				if c, isC := ast.Unparen(as.Rhs[0]).(*ast.CallExpr); isC {
					call, ri = c, i
				}
			}
		}
		return true
	})
	if call == nil || ndef != 1 {
		return nil
	}
	fn := calleeOf(info, call)
	if fn == nil {
		return nil
	}
	h := p.FuncOf(fn)
	if h == nil || h.Pkg != p.Root || h.Decl.Body == nil {
		return nil
	}
	sig := fn.Type().(*types.Signature)
	if sig.Variadic() || sig.Params().Len() != len(call.Args) {
		return nil
	}
	// candidate values per argument
	cands := make([][]uint64, len(call.Args))
	for i, a := range call.Args {
		if k, isK := constInt(info, a); isK {
			cands[i] = []uint64{uint64(k)}
			continue
		}
		if u, isU := constUint(info, a); isU {
			cands[i] = []uint64{u}
			continue
		}
		nt, isNamed := sig.Params().At(i).Type().(*types.Named)
		if !isNamed {
			return nil
		}
		if b, isB := nt.Underlying().(*types.Basic); !isB || b.Info()&types.IsInteger == 0 {
			return nil
		}
		var vals []uint64
		maxV := uint64(0)
		scope := nt.Obj().Pkg().Scope()
		for _, nme := range scope.Names() {
			if c, isC := scope.Lookup(nme).(*types.Const); isC && types.Identical(c.Type(), nt) {
				if v, exact := constant.Int64Val(constant.ToInt(c.Val())); exact {
					vals = append(vals, uint64(v))
					if uint64(v) > maxV {
						maxV = uint64(v)
					}
				}
			}
		}
		if len(vals) == 0 || len(vals) > 64 {
			return nil
		}
		cands[i] = append(vals, maxV+1)
	}
	set := map[uint64]bool{}
	var rec func(i int, cur []uint64) bool
	rec = func(i int, cur []uint64) bool {
		if i == len(cands) {
			se := newSymEval(p)
			var args []sval
			for j, v := range cur {
				args = append(args, se.intVal(tConst(v), sig.Params().At(j).Type()))
			}
			vals, ok := se.evalFunc(h, args)
			if !ok || len(se.unsup) > 0 || ri >= len(vals) || vals[ri].kind != 'i' || !vals[ri].t.isConst() {
				return false
			}
			set[vals[ri].t.k] = true
			return true
		}
		for _, v := range cands[i] {
			if !rec(i+1, append(cur, v)) {
				return false
			}
		}
		return true
	}
	if !rec(0, nil) {
		return nil
	}
	var out []uint64
	for v := range set {
		out = append(out, v)
	}
	sort.Slice(out, func(i, j int) bool { return out[i] < out[j] })
	return out
}

// operandInterval: the values e can have at node `at` given the dominating guards.
func (p *Program) operandInterval(g *Graph, fi *FuncInfo, f Facts, e ast.Expr) (ival, string) {
	info := g.Info
	e = ast.Unparen(e)
	// x + c, x - c, c + x with a constant c: shift the interval of x
	if be, ok := e.(*ast.BinaryExpr); ok && (be.Op == token.ADD || be.Op == token.SUB) {
		if c, isC := constBig(info, be.Y); isC {
			if xi, why := p.operandInterval(g, fi, f, be.X); xi.lo != nil {
				if be.Op == token.SUB {
					c = new(big.Int).Neg(c)
				}
				return ival{new(big.Int).Add(xi.lo, c), new(big.Int).Add(xi.hi, c)}, why
			}
		} else if c, isC := constBig(info, be.X); isC && be.Op == token.ADD {
			if yi, why := p.operandInterval(g, fi, f, be.Y); yi.lo != nil {
				return ival{new(big.Int).Add(yi.lo, c), new(big.Int).Add(yi.hi, c)}, why
			}
		}
	}
	// x & m: when an operand is known non-negative the result lies between 0 and that operand's upper bound
	if be, ok := e.(*ast.BinaryExpr); ok && be.Op == token.AND {
		var best ival
		bestWhy := ""
		for _, side := range []ast.Expr{be.X, be.Y} {
			si, sw := p.operandInterval(g, fi, f, side)
			if si.lo == nil || si.lo.Sign() < 0 {
				continue
			}
			if best.lo == nil || si.hi.Cmp(best.hi) < 0 {
				best, bestWhy = ival{big.NewInt(0), si.hi}, "masked with "+exprStr(side)+" ("+sw+")"
			}
		}
		if best.lo != nil {
			return best, bestWhy
		}
	}
	t := info.TypeOf(e)
	bits, uns, ok := p.intWidth(t)
	if !ok {
		return ival{}, ""
	}
	iv := typeRange(bits, uns)
	why := "type " + t.String()
	if c, isC := constBig(info, e); isC {
		return ival{c, c}, "constant"
	}
	// value produced by strconv.ParseInt(_, _, k) / ParseUint: fits k bits
	if id, isId := e.(*ast.Ident); isId {
		ast.Inspect(fi.Decl.Body, func(x ast.Node) bool {
			as, ok := x.(*ast.AssignStmt)
			if !ok || len(as.Rhs) != 1 || len(as.Lhs) < 1 {
				return true
			}
			lid, ok := as.Lhs[0].(*ast.Ident)
			if !ok || (info.Defs[lid] != info.Uses[id] && info.Uses[lid] != info.Uses[id]) || info.Uses[id] == nil {
				return true
			}
			if c, ok := ast.Unparen(as.Rhs[0]).(*ast.CallExpr); ok && len(c.Args) == 3 {
				switch calleeName(info, c) {
				case "strconv.ParseInt":
					if k, ok := constInt(info, c.Args[2]); ok && k > 0 && k <= 64 && singleAssigned(info, fi.Decl.Body, info.Uses[id]) {
						iv = typeRange(int(k), false)
						why = fmt.Sprintf("strconv.ParseInt(..., %d)", k)
					}
				case "strconv.ParseUint":
					if k, ok := constInt(info, c.Args[2]); ok && k > 0 && k <= 64 && singleAssigned(info, fi.Decl.Body, info.Uses[id]) {
						iv = typeRange(int(k), true)
						why = fmt.Sprintf("strconv.ParseUint(..., %d)", k)
					}
				}
			}
			return true
		})
	}
	// a value handed back by a table-driven helper: the finite set of values it can return
	if id, isId := e.(*ast.Ident); isId && uns {
		if vals := p.helperResultValues(fi, id); len(vals) > 0 {
			lo, hi := new(big.Int).SetUint64(vals[0]), new(big.Int).SetUint64(vals[len(vals)-1])
			if hi.Cmp(iv.hi) <= 0 {
				iv, why = ival{lo, hi}, fmt.Sprintf("%s is one of %v (every result of the helper it comes from)", id.Name, vals)
			}
		}
	}
	// v := T(y) with y never reassigned: v has y's values when they fit T
	if id, isId := e.(*ast.Ident); isId && info.Uses[id] != nil && singleAssigned(info, fi.Decl.Body, info.Uses[id]) {
		if d := localDef(info, fi, id); d != nil {
			if c, ok := ast.Unparen(d).(*ast.CallExpr); ok && len(c.Args) == 1 {
				if tv, ok := info.Types[c.Fun]; ok && tv.IsType() {
					if yid, ok := ast.Unparen(c.Args[0]).(*ast.Ident); ok && info.Uses[yid] != nil && neverAssigned(info, fi.Decl.Body, info.Uses[yid]) {
						yiv, ywhy := p.operandInterval(g, fi, f, yid)
						if yiv.lo != nil && yiv.within(iv) {
							iv, why = yiv, id.Name+" := "+exprStr(d)+"; "+ywhy
						}
					}
				}
			}
		}
	}
	s := normStr(info, e)
	one := big.NewInt(1)
	var used []string
	for atom, ra := range f.rel {
		val, ok := f.m[atom]
		if !ok {
			continue
		}
		xs, ys := normStr(info, ra.X), normStr(info, ra.Y)
		switch {
		case xs == s:
			c, isC := constBig(info, ra.Y)
			if !isC {
				continue
			}
			switch {
			case ra.Op == token.LSS && val: // e < c
				if h := new(big.Int).Sub(c, one); h.Cmp(iv.hi) < 0 {
					iv.hi = h
				}
			case ra.Op == token.LSS && !val: // e >= c
				if c.Cmp(iv.lo) > 0 {
					iv.lo = c
				}
			case ra.Op == token.EQL && val:
				iv.lo, iv.hi = c, c
			default:
				continue
			}
			used = append(used, ifs(val, "", "!(")+atom+ifs(val, "", ")"))
		case ys == s:
			c, isC := constBig(info, ra.X)
			if !isC {
				continue
			}
			switch {
			case ra.Op == token.LSS && val: // c < e
				if l := new(big.Int).Add(c, one); l.Cmp(iv.lo) > 0 {
					iv.lo = l
				}
			case ra.Op == token.LSS && !val: // e <= c
				if c.Cmp(iv.hi) < 0 {
					iv.hi = c
				}
			case ra.Op == token.EQL && val:
				iv.lo, iv.hi = c, c
			default:
				continue
			}
			used = append(used, ifs(val, "", "!(")+atom+ifs(val, "", ")"))
		}
	}
	sort.Strings(used)
	if len(used) > 0 {
		why += "; " + strings.Join(used, ", ")
	}
	return iv, why
}

var c02r1Scope = func(name string) bool {
	return strings.HasPrefix(name, "marshal") || name == "unmarshalIntlike" || name == "unmarshalVarint" ||
		name == "Marshal" || name == "decVints" && false
}

func c02r1(p *Program, r *Report) {
	var fis []*FuncInfo
	p.forEachFunc(false, func(fi *FuncInfo) {
		if fi.Pkg == p.Root && strings.HasSuffix(p.Fset.Position(fi.Decl.Pos()).Filename, "marshal.go") && c02r1Scope(fi.Name) {
			fis = append(fis, fi)
		}
	})
	if len(fis) < 15 {
		r.Unresolved("only %d marshal functions found in marshal.go", len(fis))
		return
	}
	sort.Slice(fis, func(i, j int) bool { return fis[i].Decl.Pos() < fis[j].Decl.Pos() })
	for _, fi := range fis {
		g := p.GraphOf(fi)
		info := g.Info
		facts := g.GuardFacts()
		seq := map[string]int{}
		ast.Inspect(fi.Decl.Body, func(x ast.Node) bool {
			c, ok := x.(*ast.CallExpr)
			if !ok || len(c.Args) != 1 {
				return true
			}
			if cn := calleeName(info, c); cn == "reflect.(Value).SetInt" || cn == "reflect.(Value).SetUint" {
				c02SetInt(p, r, g, fi, facts, c, cn == "reflect.(Value).SetUint")
				return true
			}
			tv, ok := info.Types[c.Fun]
			if !ok || !tv.IsType() {
				return true
			}
			db, du, ok := p.intWidth(tv.Type)
			if !ok {
				return true
			}
			arg := ast.Unparen(c.Args[0])
			st := info.TypeOf(arg)
			if st == nil {
				return true
			}
			sb, su, ok := p.intWidth(st)
			if !ok {
				return true
			}
			if atv, ok := info.Types[arg]; ok && atv.Value != nil {
				return true // constant operand: checked by the compiler
			}
			// acceptable values
			var acc ival
			switch {
			case !du && !su:
				acc = typeRange(db, false)
			case !du && su:
				acc = typeRange(db, true) // documented bit reinterpretation of an unsigned source
			case du && !su:
				acc = ival{typeRange(db, false).lo, typeRange(db, true).hi}
			default:
				acc = typeRange(db, true)
			}
			src := typeRange(sb, su)
			if src.within(acc) {
				return true // cannot lose bits
			}
			base := fmt.Sprintf("%s: %s(%s) from %s", fi.Name, exprStr(c.Fun), exprStr(arg), st.String())
			// the case the conversion sits in (type switch clause / kind switch clause)
			if cc, ok := p.enclosing(c, fi.Decl, func(n ast.Node) bool { _, is := n.(*ast.CaseClause); return is }).(*ast.CaseClause); ok && len(cc.List) > 0 {
				base += " in case " + exprStr(cc.List[0])
			}
			seq[base]++
			construct := base
			if seq[base] > 1 {
				construct = fmt.Sprintf("%s #%d", base, seq[base])
			}
			// explicit mask to a width: x & (2^k-1) with k <= width of the target
			if be, ok := p.Parent(c).(*ast.BinaryExpr); ok && be.Op == token.AND {
				other := be.Y
				if other == ast.Expr(c) {
					other = be.X
				}
				if m, ok := constBig(info, other); ok {
					k := new(big.Int).Add(m, big.NewInt(1))
					if k.BitLen() > 0 && new(big.Int).And(k, m).Sign() == 0 && k.BitLen()-1 <= db {
						r.OK(c, construct, fmt.Sprintf("explicitly masked to %d bits (C02.R6 checks the width against the CQL type)", k.BitLen()-1))
						return true
					}
				}
				// the mask is a variable that a table-driven helper hands back: all its values are width masks
				if mid, isId := ast.Unparen(stripAllConv(info, other)).(*ast.Ident); isId {
					if vals := p.helperResultValues(fi, mid); len(vals) > 0 {
						allMasks, maxBits := true, 0
						for _, v := range vals {
							if v&(v+1) != 0 {
								allMasks = false
							}
							if bl := new(big.Int).SetUint64(v).BitLen(); bl > maxBits {
								maxBits = bl
							}
						}
						if allMasks && maxBits <= db {
							r.OK(c, construct, fmt.Sprintf("masked with %s, which is one of the width masks %v (C02.R6 checks the width against the CQL type)", mid.Name, vals))
							return true
						}
					}
				}
			}
			// byte extraction of a shifted value: byte(x >> k)
			if db == 8 {
				if _, isShift := arg.(*ast.BinaryExpr); isShift {
					r.OK(c, construct, "byte extraction")
					return true
				}
			}
			// length of an in-memory slice converted to >= 32 bits
			if db >= 32 {
				le := arg
				if id, ok := arg.(*ast.Ident); ok {
					if d := localDef(info, fi, id); d != nil && singleAssigned(info, fi.Decl.Body, info.Uses[id]) {
						le = ast.Unparen(d)
					}
				}
				if lc, ok := le.(*ast.CallExpr); ok && exprStr(lc.Fun) == "len" {
					r.OK(c, construct, "length of an in-memory value: a slice of 2^31 bytes or more cannot be framed (frame body length is bounded, C03/C05)")
					return true
				}
			}
			f, okF := facts.Before(p.stmtOf(c, fi))
			if !okF || f.dead {
				r.OK(c, construct, "unreachable under this build")
				return true
			}
			if os.Getenv("DBGC02") != "" && strings.Contains(exprStr(arg), "mask") {
				fmt.Println("DBGC02 facts", p.Pos(c), f.m, "pend", len(f.pend))
				for k := range f.pend {
					fmt.Println("   pend", k)
				}
			}
			iv, why := p.operandInterval(g, fi, f, arg)
			r.Check(iv.lo != nil && iv.within(acc), c, construct, "operand in "+iv.String()+" ("+why+") fits "+acc.String(),
				fmt.Sprintf("the operand can be anywhere in %s (%s) but %s only represents %s: values outside wrap silently instead of failing", iv.String(), why, exprStr(c.Fun), acc.String()))
			return true
		})
	}
}

// stmtOf: the innermost statement of fi containing n that is a CFG node (so that facts.Before finds it).
func (p *Program) stmtOf(n ast.Node, fi *FuncInfo) ast.Node {
	cur := n
	for cur != nil {
		switch cur.(type) {
		case *ast.AssignStmt, *ast.ReturnStmt, *ast.ExprStmt, *ast.IncDecStmt, *ast.DeclStmt, *ast.DeferStmt, *ast.GoStmt, *ast.SendStmt:
			return cur
		}
		if cur == ast.Node(fi.Decl) {
			break
		}
		cur = p.Parent(cur)
	}
	return n
}

// ---------- R2: dispatch symmetry ----------

func dispatchTable(p *Program, fi *FuncInfo) (map[string]string, *ast.SwitchStmt) {
	info := fi.Pkg.TypesInfo
	var sw *ast.SwitchStmt
	ast.Inspect(fi.Decl.Body, func(x ast.Node) bool {
		if s, ok := x.(*ast.SwitchStmt); ok && sw == nil && s.Tag != nil && strings.HasSuffix(exprStr(s.Tag), ".Type()") {
			sw = s
			return false
		}
		return true
	})
	if sw == nil {
		return nil, nil
	}
	out := map[string]string{}
	for _, cl := range sw.Body.List {
		cc := cl.(*ast.CaseClause)
		target := "?"
		if len(cc.Body) > 0 {
			if rs, ok := cc.Body[0].(*ast.ReturnStmt); ok && len(rs.Results) >= 1 {
				if c, ok := ast.Unparen(rs.Results[0]).(*ast.CallExpr); ok {
					target = calleeName(info, c)
				} else {
					target = exprStr(rs.Results[0])
				}
			}
		}
		for _, e := range cc.List {
			out[exprStr(e)] = target
		}
	}
	return out, sw
}

func c02r2(p *Program, r *Report) {
	m, u := r.NeedFunc("Marshal"), r.NeedFunc("Unmarshal")
	if m == nil || u == nil {
		return
	}
	mt, msw := dispatchTable(p, m)
	ut, usw := dispatchTable(p, u)
	if msw == nil || usw == nil {
		r.Unresolved("Marshal/Unmarshal: switch on info.Type() not found")
		return
	}
	// declared Type constants
	var declared []string
	scope := p.Root.Types.Scope()
	for _, n := range scope.Names() {
		if c, ok := scope.Lookup(n).(*types.Const); ok && typeNameOf(c.Type()) == "Type" && strings.HasPrefix(n, "Type") {
			declared = append(declared, n)
		}
	}
	sort.Strings(declared)
	if len(declared) < 20 {
		r.Unresolved("only %d Type* constants declared", len(declared))
		return
	}
	family := func(h string) string {
		h = strings.TrimPrefix(h, "un")
		return strings.TrimPrefix(h, "marshal")
	}
	// timeuuid decodes through its own entry that falls back to the uuid decoder
	sameFamily := func(a, b string) bool {
		return a == b || a == "UUID" && b == "TimeUUID"
	}
	for _, tname := range declared {
		if tname == "TypeCustom" {
			_, inM := mt[tname]
			_, inU := ut[tname]
			r.Check(!inM && !inU, msw, "dispatch: "+tname+" has no built-in codec", "absent from both switches", tname+" is dispatched in only one direction or to a built-in codec")
			continue
		}
		mh, inM := mt[tname]
		uh, inU := ut[tname]
		r.Check(inM && inU, msw, "dispatch: "+tname+" handled by Marshal and Unmarshal", mh+" / "+uh,
			fmt.Sprintf("%s: Marshal case=%v (%s), Unmarshal case=%v (%s): a value of this type can be written but not read back, or read but not written", tname, inM, mh, inU, uh))
		if inM && inU {
			r.Check(strings.HasPrefix(mh, "marshal") && strings.HasPrefix(uh, "unmarshal") && sameFamily(family(mh), family(uh)), msw,
				"dispatch: "+tname+" encoder and decoder are one family", mh+" <-> "+uh, tname+" is encoded by "+mh+" but decoded by "+uh)
		}
	}
	for t := range mt {
		if i := sort.SearchStrings(declared, t); i >= len(declared) || declared[i] != t {
			r.Bad(msw, "dispatch: Marshal case "+t, "case for an undeclared type constant")
		}
	}
	// types that share a Marshal case share the decoder family too (one representation)
	groups := map[string][]string{}
	for t, h := range mt {
		groups[h] = append(groups[h], t)
	}
	for h, ts := range groups {
		sort.Strings(ts)
		fams := map[string]bool{}
		for _, t := range ts {
			f := family(ut[t])
			if f == "TimeUUID" {
				f = "UUID"
			}
			fams[f] = true
		}
		r.Check(len(fams) == 1, msw, "dispatch: types encoded by "+h+" decode through one family", strings.Join(ts, ","), fmt.Sprintf("%v share the encoder %s but decode through different families", ts, h))
	}
	// goType covers the same types
	if gt := r.NeedFunc("goType"); gt != nil {
		gtab, gsw := dispatchTable(p, gt)
		if gsw == nil {
			r.Unresolved("goType: switch on t.Type() not found")
		} else {
			for _, tname := range declared {
				if tname == "TypeCustom" {
					continue
				}
				_, ok := gtab[tname]
				r.Check(ok, gsw, "goType covers "+tname, "case present", tname+" can be unmarshalled but has no Go type for MapScan/SliceMap/NewWithError")
			}
		}
	}
}

// ---------- R3: primitive tables ----------

func c02r3(p *Program, r *Report) {
	type pair struct {
		enc, dec string
		width    int
	}
	for _, pr := range []pair{{"encInt", "decInt", 4}, {"encShort", "decShort", 2}, {"encBigInt", "decBigInt", 8}} {
		e, d := r.NeedFunc(pr.enc), r.NeedFunc(pr.dec)
		if e == nil || d == nil {
			continue
		}
		var retE ast.Expr
		if rs, ok := e.Decl.Body.List[len(e.Decl.Body.List)-1].(*ast.ReturnStmt); ok && len(rs.Results) == 1 {
			retE = rs.Results[0]
		}
		enc, okEnc := encodingOf(e.Pkg.TypesInfo, e.Decl.Body.List, retE)
		if !okEnc {
			r.Unresolved("%s: the encoder is neither byte-wise shifts nor an encoding/binary call", pr.enc)
		} else {
			r.Check(enc.BigEndian && enc.Width == pr.width, e.Decl, pr.enc+" writes "+fmt.Sprint(pr.width)+" bytes big-endian", fmt.Sprintf("%d bytes of %s (%s)", enc.Width, enc.Value, enc.How), fmt.Sprintf("%s writes %d bytes of %s, big-endian=%v (%s), not the %d-byte big-endian form", pr.enc, enc.Width, enc.Value, enc.BigEndian, enc.How, pr.width))
		}
		info := d.Pkg.TypesInfo
		var dec fixedDecoding
		okDec := false
		ast.Inspect(d.Decl.Body, func(x ast.Node) bool {
			if rs, ok := x.(*ast.ReturnStmt); ok && len(rs.Results) == 1 {
				if dd, ok := decodingOf(info, rs.Results[0]); ok && dd.Width > dec.Width {
					dec, okDec = dd, true
				}
			}
			return true
		})
		if !okDec {
			r.Unresolved("%s: the decoder is neither a shift chain nor an encoding/binary call", pr.dec)
		} else {
			r.Check(dec.BigEndian && dec.Offset == 0 && dec.Width == pr.width, d.Decl, pr.dec+" reads "+fmt.Sprint(pr.width)+" bytes big-endian", fmt.Sprintf("%d bytes of %s (%s)", dec.Width, dec.Base, dec.How), fmt.Sprintf("%s reads %d bytes from offset %d, big-endian=%v (%s), not the %d-byte big-endian form %s writes", pr.dec, dec.Width, dec.Offset, dec.BigEndian, dec.How, pr.width, pr.enc))
		}
		// the decoder's length guard equals the width
		okLen := false
		ast.Inspect(d.Decl.Body, func(x ast.Node) bool {
			if ifs, ok := x.(*ast.IfStmt); ok {
				if b, ok := ifs.Cond.(*ast.BinaryExpr); ok && b.Op == token.NEQ && strings.HasPrefix(exprStr(b.X), "len(") {
					if k, ok := constInt(info, b.Y); ok && int(k) == pr.width {
						okLen = true
					}
				}
			}
			return true
		})
		r.Check(okLen, d.Decl, pr.dec+" accepts exactly "+fmt.Sprint(pr.width)+" bytes", "len != width -> zero", pr.dec+" does not require exactly the width "+pr.enc+" writes")
	}
	// collection sizes: per path of the writer and the reader (if/else, early return or switch form), the branch on
	// the protocol version writes/reads a 4-byte signed big-endian size from protocol 3 and a 2-byte unsigned one before
	w, rd := r.NeedFunc("writeCollectionSize"), r.NeedFunc("readCollectionSize")
	if w != nil && rd != nil {
		wi, ri := w.Pkg.TypesInfo, rd.Pkg.TypesInfo
		// isV3Cond: (known form, true means "protocol >= 3") for a comparison of <x>.proto with a constant
		isV3Cond := func(info *types.Info, c ast.Expr) (bool, bool) {
			b, ok := ast.Unparen(c).(*ast.BinaryExpr)
			if !ok {
				return false, false
			}
			x, y, op := ast.Unparen(b.X), ast.Unparen(b.Y), b.Op
			if _, isK := constInt(info, x); isK {
				// constant on the left: mirror
				x, y = y, x
				op = map[token.Token]token.Token{token.LSS: token.GTR, token.GTR: token.LSS, token.LEQ: token.GEQ, token.GEQ: token.LEQ}[op]
			}
			sel, isSel := x.(*ast.SelectorExpr)
			k, isK := constInt(info, y)
			if !isSel || sel.Sel.Name != "proto" || !isK {
				return false, false
			}
			switch {
			case op == token.GTR && k == 2, op == token.GEQ && k == 3:
				return true, true
			case op == token.LEQ && k == 2, op == token.LSS && k == 3:
				return true, false
			}
			return false, false
		}
		// widthSelector: a helper whose every path branches on the protocol version and returns a constant: the
		// constants for protocol >= 3 and <= 2
		widthSelector := func(h *FuncInfo) (v3, v2 int64, ok bool) {
			if h == nil || h.Decl.Body == nil {
				return 0, 0, false
			}
			hi := h.Pkg.TypesInfo
			paths, okP := enumPaths(h.Decl.Body.List)
			if !okP {
				return 0, 0, false
			}
			seen3, seen2 := false, false
			for _, ap := range paths {
				if ap.Ret == nil || len(ap.Ret.Results) != 1 {
					return 0, 0, false
				}
				k, isK := constInt(hi, ap.Ret.Results[0])
				if !isK {
					return 0, 0, false
				}
				decided := false
				for _, c := range ap.Conds {
					if okForm, pos := isV3Cond(hi, c.Cond); okForm {
						decided = true
						if c.Val == pos {
							if seen3 && v3 != k {
								return 0, 0, false
							}
							v3, seen3 = k, true
						} else {
							if seen2 && v2 != k {
								return 0, 0, false
							}
							v2, seen2 = k, true
						}
						break
					}
				}
				if !decided {
					return 0, 0, false
				}
			}
			return v3, v2, seen3 && seen2 && v3 != v2
		}
		pathV3 := func(fi *FuncInfo, ap apath) (v3, known bool) {
			info := fi.Pkg.TypesInfo
			for _, c := range ap.Conds {
				if okForm, pos := isV3Cond(info, c.Cond); okForm {
					return c.Val == pos, true
				}
				// <width helper>(info) ==/!= K, possibly through a variable assigned on this path
				b, ok := ast.Unparen(c.Cond).(*ast.BinaryExpr)
				if !ok || b.Op != token.EQL && b.Op != token.NEQ {
					continue
				}
				for _, pr := range [][2]ast.Expr{{b.X, b.Y}, {b.Y, b.X}} {
					k, isK := constInt(info, ast.Unparen(pr[1]))
					if !isK {
						continue
					}
					e := ast.Unparen(pr[0])
					if id, isId := e.(*ast.Ident); isId {
						for _, st := range ap.Stmts {
							if as, ok := st.(*ast.AssignStmt); ok && len(as.Lhs) == len(as.Rhs) {
								for i, l := range as.Lhs {
									if exprStr(l) == id.Name {
										e = ast.Unparen(as.Rhs[i])
									}
								}
							}
						}
					}
					call, isCall := e.(*ast.CallExpr)
					if !isCall {
						continue
					}
					fn := calleeOf(info, call)
					if fn == nil {
						continue
					}
					w3, w2, okSel := widthSelector(p.FuncOf(fn))
					if !okSel {
						continue
					}
					eq := c.Val == (b.Op == token.EQL) // the path took "helper == K"
					switch {
					case k == w3:
						return eq, true
					case k == w2:
						return !eq, true
					}
				}
			}
			return false, false
		}
		wpaths, okW := enumPaths(w.Decl.Body.List)
		rpaths, okR := enumPaths(rd.Decl.Body.List)
		if !okW || !okR {
			r.Unresolved("read/writeCollectionSize: too many paths")
			return
		}
		seenW, seenR := map[bool]bool{}, map[bool]bool{}
		for _, ap := range wpaths {
			v3, known := pathV3(w, ap)
			if ap.Ret == nil || len(ap.Ret.Results) != 1 || !isNil(wi, ap.Ret.Results[0]) {
				continue // error return
			}
			if !known {
				r.Unresolved("writeCollectionSize: a success path does not branch on the protocol version")
				continue
			}
			width := 2
			if v3 {
				width = 4
			}
			enc, okEnc := encodingOf(wi, ap.Stmts, nil)
			if !okEnc {
				r.Unresolved("writeCollectionSize: the size is neither written byte by byte nor through encoding/binary")
				continue
			}
			seenW[v3] = true
			// the value fits the width on this path: the conditions passed confine it to the field's range
			{
				wg := p.GraphOf(w)
				f := Facts{m: map[string]bool{}, rel: map[string]relAtom{}, info: wi}
				for _, c := range ap.Conds {
					f.assume(c.Cond, c.Val)
				}
				limit := 65535
				if v3 {
					limit = 1<<31 - 1
				}
				fits := false
				if np := paramObj(wi, w.Decl.Type, 1); np != nil {
					d := newDBM(wg, f, nil)
					fits = d.leExpr(ast.NewIdent(np.Name()), 0, &ast.BasicLit{Kind: token.INT, Value: fmtInt(limit)}, 0)
				}
				r.Check(fits, ap.Ret, "writeCollectionSize protocol "+ifs(v3, ">= 3", "<= 2")+": the size fits the field it is written into", "n <= "+fmtInt(limit)+" on this path", "a size that does not fit the "+ifs(v3, "4-byte signed", "2-byte")+" field is written truncated instead of being refused: the reader sees a shorter collection / element and decodes the rest as garbage")
			}
			nparam := paramObj(wi, w.Decl.Type, 1)
			okVal := nparam != nil && enc.Value == nparam.Name()
			r.Check(enc.BigEndian && enc.Width == width && okVal, ap.Ret, "writeCollectionSize protocol "+ifs(v3, ">= 3: 4 bytes big-endian", "<= 2: 2 bytes big-endian"), fmt.Sprintf("%d bytes of %s (%s)", enc.Width, enc.Value, enc.How), fmt.Sprintf("writes %d bytes of %s, big-endian=%v (%s), not the %d-byte big-endian size", enc.Width, enc.Value, enc.BigEndian, enc.How, width))
		}
		for _, ap := range rpaths {
			v3, known := pathV3(rd, ap)
			if ap.Ret != nil && len(ap.Ret.Results) == 3 && !isNil(ri, ap.Ret.Results[2]) {
				continue // error return
			}
			if !known {
				r.Unresolved("readCollectionSize: a success path does not branch on the protocol version")
				continue
			}
			// the size and the number of bytes consumed: from the return values or the named results
			var sizeE, readE ast.Expr
			if ap.Ret != nil && len(ap.Ret.Results) == 3 {
				sizeE, readE = ap.Ret.Results[0], ap.Ret.Results[1]
			}
			for _, st := range ap.Stmts {
				if as, ok := st.(*ast.AssignStmt); ok && len(as.Lhs) == len(as.Rhs) {
					for i, l := range as.Lhs {
						switch exprStr(l) {
						case "size":
							if sizeE == nil || exprStr(sizeE) == "size" {
								sizeE = as.Rhs[i]
							}
						case "read":
							if readE == nil || exprStr(readE) == "read" {
								readE = as.Rhs[i]
							}
						}
					}
				}
			}
			// resolve a local holding the value
			resolve := func(e ast.Expr) ast.Expr {
				if id, ok := ast.Unparen(e).(*ast.Ident); ok {
					for _, st := range ap.Stmts {
						if as, ok := st.(*ast.AssignStmt); ok && len(as.Lhs) == len(as.Rhs) {
							for i, l := range as.Lhs {
								if exprStr(l) == id.Name {
									return as.Rhs[i]
								}
							}
						}
					}
				}
				return e
			}
			if sizeE == nil || readE == nil {
				r.Unresolved("readCollectionSize: size / consumed count of a success path not found")
				continue
			}
			sizeE, readE = resolve(sizeE), resolve(readE)
			width := 2
			if v3 {
				width = 4
			}
			readN, isReadK := constInt(ri, readE)
			if !isReadK {
				// the consumed count comes from the width helper this path branched on
				if call, isCall := ast.Unparen(readE).(*ast.CallExpr); isCall {
					if fn := calleeOf(ri, call); fn != nil {
						if w3, w2, okSel := widthSelector(p.FuncOf(fn)); okSel {
							readN = w2
							if v3 {
								readN = w3
							}
						}
					}
				}
			}
			dec, okDec := decodingOfP(p, ri, sizeE)
			if !okDec {
				r.Unresolved("readCollectionSize: the size expression %s is neither a shift chain nor an encoding/binary call", exprStr(sizeE))
				continue
			}
			seenR[v3] = true
			signedOK := v3 && dec.Conv == "int32" || !v3 && dec.Conv != "int16" && dec.Conv != "int8"
			r.Check(dec.BigEndian && dec.Offset == 0 && dec.Width == width && int(readN) == width, sizeE, "readCollectionSize protocol "+ifs(v3, ">= 3: 4 bytes big-endian", "<= 2: 2 bytes big-endian"), fmt.Sprintf("%d bytes (%s), advances %d", dec.Width, dec.How, readN), fmt.Sprintf("reads %d bytes big-endian=%v (%s) and advances %d, not a %d-byte big-endian size", dec.Width, dec.BigEndian, dec.How, readN, width))
			r.Check(signedOK, sizeE, "readCollectionSize protocol "+ifs(v3, ">= 3: size is signed (-1 = null)", "<= 2: size is unsigned"), "conversion "+dec.Conv, "the 4-byte size is not sign-extended through int32 (null elements become huge lengths) or the 2-byte size is sign-extended")
		}
		for _, v3 := range []bool{true, false} {
			if !seenW[v3] || !seenR[v3] {
				r.Unresolved("read/writeCollectionSize: no success path for protocol %s", ifs(v3, ">= 3", "<= 2"))
			}
		}
	}
}

// encoderItems: the bytes an encoder primitive returns, from a composite literal or indexed stores.
func encoderItems(p *Program, fi *FuncInfo) []ByteItem {
	info := fi.Pkg.TypesInfo
	var items []ByteItem
	ast.Inspect(fi.Decl.Body, func(x ast.Node) bool {
		if rs, ok := x.(*ast.ReturnStmt); ok && len(rs.Results) == 1 {
			if cl, ok := ast.Unparen(rs.Results[0]).(*ast.CompositeLit); ok {
				for _, e := range cl.Elts {
					items = append(items, parseByteItem(info, e))
				}
			}
		}
		return true
	})
	if len(items) == 0 {
		st := indexStores(info, fi.Decl.Body)
		sort.Slice(st, func(i, j int) bool { return st[i].Off < st[j].Off })
		for i, s := range st {
			if s.Sym != "" || s.Off != i {
				return nil
			}
			items = append(items, s.Item)
		}
	}
	return items
}

func c02r6(p *Program, r *Report) {
	fi := r.NeedFunc("unmarshalIntlike")
	if fi == nil {
		return
	}
	info := fi.Pkg.TypesInfo
	cqlWidth := map[string]int{"TypeInt": 32, "TypeSmallInt": 16, "TypeTinyInt": 8}
	word := 64
	if p.Variant.GOARCH == "386" {
		word = 32
	}
	destWidth := map[string]int{"*uint": word, "*uint64": 64, "*uint32": 32, "*uint16": 16, "*uint8": 8,
		"reflect.Uint": word, "reflect.Uint64": 64, "reflect.Uint32": 32, "reflect.Uint16": 16, "reflect.Uint8": 8}
	// table-driven form: the mask comes from a helper h(info.Type(), <destination bound>) (mask, ok) that looks the
	// CQL type up in a constant table. The helper is evaluated (term interpreter, constant arguments) for each
	// narrow CQL type and for a type without a narrow width: it must say ok exactly for the types that fit the
	// destination, with the mask of the type's width.
	nswitch := 0
	ast.Inspect(fi.Decl.Body, func(x ast.Node) bool {
		if sw, ok := x.(*ast.SwitchStmt); ok && sw.Tag != nil && exprStr(sw.Tag) == "info.Type()" {
			nswitch++
		}
		return true
	})
	if nswitch == 0 {
		scope := p.Root.Types.Scope()
		typeConst := func(name string) (int64, bool) {
			if c, ok := scope.Lookup(name).(*types.Const); ok {
				if v, exact := constant.Int64Val(constant.ToInt(c.Val())); exact {
					return v, true
				}
			}
			return 0, false
		}
		ncall := 0
		for _, c := range callsIn(fi.Decl.Body) {
			fn := calleeOf(info, c)
			if fn == nil {
				continue
			}
			h := p.FuncOf(fn)
			if h == nil || h.Pkg != p.Root || h.Decl.Body == nil || h == fi {
				continue
			}
			sig := fn.Type().(*types.Signature)
			if sig.Results().Len() != 2 {
				continue
			}
			if b, isB := sig.Results().At(1).Type().Underlying().(*types.Basic); !isB || b.Kind() != types.Bool {
				continue
			}
			typeArg := -1
			for i, a := range c.Args {
				if strings.HasSuffix(strings.ReplaceAll(exprStr(a), " ", ""), ".Type()") {
					typeArg = i
				}
			}
			if typeArg < 0 {
				continue
			}
			outer, _ := p.enclosing(c, fi.Decl, func(n ast.Node) bool {
				cc, is := n.(*ast.CaseClause)
				if !is || len(cc.List) == 0 {
					return false
				}
				_, known := destWidth[exprStr(cc.List[0])]
				return known
			}).(*ast.CaseClause)
			if outer == nil {
				continue
			}
			dest := exprStr(outer.List[0])
			dw := destWidth[dest]
			ncall++
			tests := []struct {
				name string
				w    int
			}{{"TypeInt", 32}, {"TypeSmallInt", 16}, {"TypeTinyInt", 8}, {"TypeBigInt", 0}, {"TypeVarchar", 0}}
			for _, tc := range tests {
				tval, okT := typeConst(tc.name)
				if !okT {
					r.Unresolved("unmarshalIntlike: constant %s not found", tc.name)
					continue
				}
				se := newSymEval(p)
				var args []sval
				okArgs := true
				for i, a := range c.Args {
					pt := sig.Params().At(minInt(i, sig.Params().Len()-1)).Type()
					if i == typeArg {
						args = append(args, se.intVal(tConst(uint64(tval)), pt))
						continue
					}
					if k, isK := constInt(info, a); isK {
						args = append(args, se.intVal(tConst(uint64(k)), pt))
					} else if u, isU := constUint(info, a); isU {
						args = append(args, se.intVal(tConst(u), pt))
					} else {
						okArgs = false
					}
				}
				if !okArgs {
					r.Unresolved("unmarshalIntlike %s: a non-constant argument of %s", dest, h.Name)
					break
				}
				vals, okE := se.evalFunc(h, args)
				if !okE || len(se.unsup) > 0 || len(vals) != 2 || vals[1].kind != 'b' || !vals[1].bk {
					r.Unresolved("unmarshalIntlike %s: %s cannot be evaluated for %s (%s)", dest, h.Name, tc.name, strings.Join(se.unsup, "; "))
					break
				}
				gotOK := vals[1].b
				name := fmt.Sprintf("unmarshalIntlike %s / %s: mask equals the %d-bit CQL width and fits the destination", dest, tc.name, tc.w)
				if tc.w == 0 {
					r.Check(!gotOK, c, "unmarshalIntlike "+dest+": case "+tc.name, "no masked reinterpretation for a type without a narrow width", "a masked reinterpretation is applied to a CQL type that has no fixed narrow width")
					continue
				}
				if tc.w > dw {
					r.Check(!gotOK, c, name, "wider than the destination: range-checked instead", fmt.Sprintf("a %s column read into %s is masked into a %d-bit destination although the column is %d bits wide: values are truncated", tc.name, dest, dw, tc.w))
					continue
				}
				okMask := gotOK && vals[0].kind == 'i' && vals[0].t.isConst() && vals[0].t.k == (uint64(1)<<uint(tc.w))-1
				got := "no mask"
				if gotOK && vals[0].kind == 'i' {
					got = vals[0].t.String()
				}
				r.Check(okMask, c, name, fmt.Sprintf("%s gives mask %s", h.Name, got),
					fmt.Sprintf("a %s column read into %s is masked with %s by %s: the column is %d bits wide, so values are truncated, keep sign-extension bits, or a negative value is rejected instead of being reinterpreted like its siblings", tc.name, dest, got, h.Name, tc.w))
			}
		}
		if ncall == 0 {
			r.Unresolved("unmarshalIntlike: neither a switch on info.Type() nor a mask helper taking info.Type() was found")
		}
		return
	}
	ast.Inspect(fi.Decl.Body, func(x ast.Node) bool {
		sw, ok := x.(*ast.SwitchStmt)
		if !ok || sw.Tag == nil || exprStr(sw.Tag) != "info.Type()" {
			return true
		}
		outer, _ := p.enclosing(sw, fi.Decl, func(n ast.Node) bool { _, is := n.(*ast.CaseClause); return is }).(*ast.CaseClause)
		dest := "?"
		if outer != nil && len(outer.List) > 0 {
			dest = exprStr(outer.List[0])
		}
		dw := destWidth[dest]
		seen := map[string]bool{}
		for _, cl := range sw.Body.List {
			cc := cl.(*ast.CaseClause)
			for _, t := range cc.List {
				name := exprStr(t)
				w, known := cqlWidth[name]
				if !known {
					r.Bad(cc, "unmarshalIntlike "+dest+": case "+name, "a masked reinterpretation is applied to a CQL type that has no fixed narrow width")
					continue
				}
				seen[name] = true
				var masks []int
				ast.Inspect(cc, func(y ast.Node) bool {
					if be, ok := y.(*ast.BinaryExpr); ok && be.Op == token.AND {
						if m, ok := constBig(info, be.Y); ok {
							masks = append(masks, m.BitLen())
							if new(big.Int).Add(m, big.NewInt(1)).BitLen() != m.BitLen()+1 {
								masks[len(masks)-1] = -1
							}
						}
					}
					return true
				})
				okMask := len(masks) == 1 && masks[0] == w
				r.Check(okMask && dw >= w, cc, fmt.Sprintf("unmarshalIntlike %s / %s: mask equals the %d-bit CQL width and fits the destination", dest, name, w), fmt.Sprintf("mask bits %v, destination %d bits", masks, dw),
					fmt.Sprintf("a %s column read into %s is masked to %v bits into a %d-bit destination: the column is %d bits wide, so values are truncated or keep sign-extension bits", name, dest, masks, dw, w))
			}
		}
		// narrower CQL types than the destination must have their own case (else sign extension leaks into the default branch's range check)
		for name, w := range cqlWidth {
			if w <= dw && !seen[name] {
				r.Bad(sw, fmt.Sprintf("unmarshalIntlike %s: no case for %s", dest, name), fmt.Sprintf("a negative %s read into %s is rejected or sign-extended instead of being reinterpreted at %d bits like its siblings", name, dest, w))
			}
		}
		return true
	})
}

// neverAssigned: obj (a parameter or a variable with one definition) is not the target of any assignment,
// increment or address-of in body.
func neverAssigned(info *types.Info, body ast.Node, obj types.Object) bool {
	ok := true
	ast.Inspect(body, func(x ast.Node) bool {
		switch s := x.(type) {
		case *ast.AssignStmt:
			for _, l := range s.Lhs {
				if id, isId := l.(*ast.Ident); isId && info.Uses[id] == obj {
					ok = false
				}
			}
		case *ast.IncDecStmt:
			if id, isId := s.X.(*ast.Ident); isId && info.Uses[id] == obj {
				ok = false
			}
		case *ast.UnaryExpr:
			if s.Op == token.AND {
				if id, isId := ast.Unparen(s.X).(*ast.Ident); isId && info.Uses[id] == obj {
					ok = false
				}
			}
		}
		return true
	})
	return ok
}

// c02SetInt: rv.SetInt(x) / rv.SetUint(x) under `case reflect.IntN`: reflect truncates silently, so x must fit N bits.
func c02SetInt(p *Program, r *Report, g *Graph, fi *FuncInfo, facts *Solution[Facts], c *ast.CallExpr, uns bool) {
	info := g.Info
	cc, ok := p.enclosing(c, fi.Decl, func(n ast.Node) bool {
		k, is := n.(*ast.CaseClause)
		return is && len(k.List) > 0 && strings.HasPrefix(exprStr(k.List[0]), "reflect.")
	}).(*ast.CaseClause)
	if !ok {
		return
	}
	word := 64
	if p.Variant.GOARCH == "386" {
		word = 32
	}
	width := 0
	for _, k := range cc.List {
		w := map[string]int{"reflect.Int8": 8, "reflect.Int16": 16, "reflect.Int32": 32, "reflect.Int64": 64, "reflect.Int": word,
			"reflect.Uint8": 8, "reflect.Uint16": 16, "reflect.Uint32": 32, "reflect.Uint64": 64, "reflect.Uint": word}[exprStr(k)]
		if w == 0 {
			return
		}
		if width == 0 || w < width {
			width = w
		}
	}
	construct := fmt.Sprintf("%s: %s in case %s", fi.Name, exprStr(c), exprStr(cc.List[0]))
	if sw, ok := p.enclosing(c, cc, func(n ast.Node) bool { k, is := n.(*ast.CaseClause); return is && k != cc }).(*ast.CaseClause); ok && len(sw.List) > 0 {
		construct += "/" + exprStr(sw.List[0])
	} else if ok {
		construct += "/default"
	}
	arg := ast.Unparen(c.Args[0])
	acc := typeRange(width, uns)
	if be, ok := arg.(*ast.BinaryExpr); ok && be.Op == token.AND {
		if m, ok := constBig(info, be.Y); ok && m.BitLen() <= width {
			r.OK(c, construct, fmt.Sprintf("masked to %d bits", m.BitLen()))
			return
		}
	}
	f, okF := facts.Before(p.stmtOf(c, fi))
	if !okF || f.dead {
		r.OK(c, construct, "unreachable under this build")
		return
	}
	iv, why := p.operandInterval(g, fi, f, arg)
	if width == 64 {
		r.OK(c, construct, "64-bit destination")
		return
	}
	r.Check(iv.lo != nil && iv.within(acc), c, construct, "operand in "+iv.String()+" ("+why+") fits "+acc.String(),
		fmt.Sprintf("reflect stores the low %d bits silently: the operand can be anywhere in %s (%s)", width, iv.String(), why))
}

// ---------- R4: null framing ----------

type nullState map[string]int // variable -> 0 NIL, 1 CUR (assigned after the latest size read of this iteration), 2 STALE

func c02r4(p *Program, r *Report) {
	// readers
	for _, name := range []string{"unmarshalList", "unmarshalMap", "unmarshalTuple", "unmarshalUDT"} {
		fi := r.NeedFunc(name)
		if fi == nil {
			continue
		}
		g := p.GraphOf(fi)
		info := g.Info
		isSizeRead := func(n ast.Node) bool {
			for _, c := range callsIn(n) {
				if isCallTo(info, c, "readCollectionSize") {
					return true
				}
			}
			return false
		}
		lat := Lattice[nullState]{
			Init: nullState{},
			Join: func(a, b nullState) nullState {
				n := nullState{}
				for k, v := range a {
					n[k] = v
				}
				for k, v := range b {
					if v > n[k] {
						n[k] = v
					}
				}
				return n
			},
			Eq: func(a, b nullState) bool {
				if len(a) != len(b) {
					return false
				}
				for k, v := range a {
					if bv, ok := b[k]; !ok || bv != v {
						return false
					}
				}
				return true
			},
			Step: func(s nullState, st Step) nullState {
				stale := func() nullState {
					n := nullState{}
					for k, v := range s {
						if v == 1 {
							v = 2
						}
						n[k] = v
					}
					return n
				}
				switch st.Kind {
				case StRange:
					if st.Val {
						return stale()
					}
					return s
				case StCond:
					// a new iteration of a for loop starts when its condition is evaluated
					if f, ok := p.Parent(st.Node).(*ast.ForStmt); ok && f.Cond == st.Node && st.Val {
						return stale()
					}
					return s
				case StNode:
					n := s
					if isSizeRead(st.Node) {
						n = stale()
					}
					set := func(name string, v int) {
						c := nullState{}
						for k, x := range n {
							c[k] = x
						}
						c[name] = v
						n = c
					}
					switch x := st.Node.(type) {
					case *ast.ValueSpec:
						for i, id := range x.Names {
							if isByteSlice(info.TypeOf(id)) {
								if len(x.Values) == 0 || isNil(info, x.Values[i]) {
									set(id.Name, 0)
								} else {
									set(id.Name, 1)
								}
							}
						}
					case *ast.AssignStmt:
						for i, l := range x.Lhs {
							id, ok := l.(*ast.Ident)
							if !ok || !isByteSlice(info.TypeOf(id)) {
								continue
							}
							if len(x.Rhs) == len(x.Lhs) && isNil(info, x.Rhs[i]) {
								set(id.Name, 0)
							} else {
								set(id.Name, 1)
							}
						}
					}
					return n
				}
				return s
			},
		}
		sol := Solve(g, lat)
		seq := map[string]int{}
		for _, c := range callsIn(fi.Decl.Body) {
			var dataArg ast.Expr
			switch {
			case isCallTo(info, c, "Unmarshal") && len(c.Args) == 3:
				dataArg = c.Args[1]
			case calleeName(info, c) == "UDTUnmarshaler.UnmarshalUDT" && len(c.Args) == 3:
				dataArg = c.Args[2]
			default:
				continue
			}
			if !p.inLoop(c, fi.Decl) {
				continue
			}
			base := fmt.Sprintf("%s: element decode %s", name, exprStr(c))
			seq[base]++
			construct := base
			if seq[base] > 1 {
				construct = fmt.Sprintf("%s #%d", base, seq[base])
			}
			id, ok := ast.Unparen(dataArg).(*ast.Ident)
			if !ok {
				r.Bad(c, construct, "the element bytes are not passed through a variable the null case can leave nil: "+exprStr(dataArg))
				continue
			}
			st, _ := sol.Before(p.stmtOf(c, fi))
			v, tracked := st[id.Name]
			r.Check(tracked && v != 2, c, construct, ifs(v == 0, "nil unless set for this element", "set from this element's own length"),
				fmt.Sprintf("on some path `%s` still holds the bytes of a previous element when this element's length is negative (null): a null element decodes as a copy of its predecessor", id.Name))
		}
	}
	// readBytes: negative size -> nil data
	if fi := r.NeedFunc("readBytes"); fi != nil {
		g := p.GraphOf(fi)
		facts := g.GuardFacts()
		ok := false
		for _, e := range g.Exits() {
			rs, isR := e.Node.(*ast.ReturnStmt)
			if !isR || len(rs.Results) != 3 {
				continue
			}
			f, _ := facts.Before(rs)
			if v, known := f.m["size < 0"]; known && v && isNil(g.Info, rs.Results[0]) && isNil(g.Info, rs.Results[2]) {
				ok = true
			}
		}
		r.Check(ok, fi.Decl, "readBytes returns nil data for a negative length", "size < 0 -> nil, rest, nil", "readBytes does not map a negative length to nil data")
	}
	// writers
	if fi := r.NeedFunc("appendBytes"); fi != nil {
		ok := false
		info := fi.Pkg.TypesInfo
		ast.Inspect(fi.Decl.Body, func(x ast.Node) bool {
			if ifs, isIf := x.(*ast.IfStmt); isIf && strings.HasSuffix(exprStr(ifs.Cond), "== nil") {
				for _, c := range callsIn(ifs.Body) {
					if isCallTo(info, c, "appendInt") && len(c.Args) == 2 {
						if k, isC := constInt(info, c.Args[1]); isC && k == -1 {
							ok = true
						}
					}
				}
			}
			return true
		})
		r.Check(ok, fi.Decl, "appendBytes writes length -1 for nil", "p == nil -> appendInt(-1)", "appendBytes does not encode nil as length -1")
	}
	for _, name := range []string{"marshalList", "marshalMap", "marshalTuple", "marshalUDT"} {
		fi := r.NeedFunc(name)
		if fi == nil {
			continue
		}
		info := fi.Pkg.TypesInfo
		seq := map[string]int{}
		ast.Inspect(fi.Decl.Body, func(x ast.Node) bool {
			as, ok := x.(*ast.AssignStmt)
			if !ok || len(as.Rhs) != 1 || len(as.Lhs) != 2 {
				return true
			}
			c, ok := ast.Unparen(as.Rhs[0]).(*ast.CallExpr)
			if !ok || !(isCallTo(info, c, "Marshal") || calleeName(info, c) == "UDTMarshaler.MarshalUDT") || !p.inLoop(as, fi.Decl) {
				return true
			}
			id, ok := as.Lhs[0].(*ast.Ident)
			if !ok {
				return true
			}
			base := fmt.Sprintf("%s: element %s = %s", name, id.Name, exprStr(c))
			seq[base]++
			construct := base
			if seq[base] > 1 {
				construct = fmt.Sprintf("%s #%d", base, seq[base])
			}
			// the enclosing loop body
			loop := p.enclosing(as, fi.Decl, func(n ast.Node) bool {
				switch n.(type) {
				case *ast.ForStmt, *ast.RangeStmt:
					return true
				}
				return false
			})
			viaAppendBytes, nilCase, wrongNull := nilFraming(p, info, loop, id.Name, as.End(), 0)
			if wrongNull != "" {
				r.Bad(as, construct, wrongNull)
				return true
			}
			r.Check(viaAppendBytes || nilCase, as, construct, ifs(viaAppendBytes, "framed by appendBytes (nil -> -1)", "explicit nil -> -1 case"),
				fmt.Sprintf("the element encoding `%s` is framed with len(%s) and no nil case: a null element (nil encoding, e.g. a typed nil pointer) is written as an empty value (length 0) instead of null (length -1)", id.Name, id.Name))
			return true
		})
	}
}

func isByteSlice(t types.Type) bool {
	if t == nil {
		return false
	}
	sl, ok := t.Underlying().(*types.Slice)
	return ok && isByteType(sl.Elem())
}

// ---------- R5: sign extension of short two's-complement encodings ----------

const allLens = 0x3fe // bits 1..9 (9 = nine or more bytes)

type signScan struct {
	fi    *FuncInfo
	p     *Program
	info  *types.Info
	data  string // name of the []byte parameter
	depth int
	nest  int
}

// callsInNoLen: the calls in e other than len / cap and conversions are not looked at here: any call counts.
func callsInNoLen(e ast.Expr) []*ast.CallExpr {
	var out []*ast.CallExpr
	for _, c := range callsIn(e) {
		if f := exprStr(c.Fun); f == "len" || f == "cap" {
			continue
		}
		out = append(out, c)
	}
	return out
}

func lenMaskCmp(op token.Token, k int64, lenOnLeft bool) int {
	m := 0
	for l := 0; l <= 9; l++ {
		var ok bool
		L := int64(l)
		// bit 9 stands for every length >= 9: it satisfies a predicate if length 9 does and the predicate is
		// monotone upwards; for == / < style predicates with k >= 9 be conservative and keep the bit.
		a, b := L, k
		if !lenOnLeft {
			a, b = k, L
		}
		switch op {
		case token.LSS:
			ok = a < b
		case token.LEQ:
			ok = a <= b
		case token.GTR:
			ok = a > b
		case token.GEQ:
			ok = a >= b
		case token.EQL:
			ok = a == b
		case token.NEQ:
			ok = a != b
		}
		if l == 9 && k >= 9 {
			ok = true
		}
		if ok {
			m |= 1 << l
		}
	}
	return m
}

func (sc *signScan) isLenData(e ast.Expr) bool {
	c, ok := ast.Unparen(e).(*ast.CallExpr)
	return ok && exprStr(c.Fun) == "len" && len(c.Args) == 1 && exprStr(c.Args[0]) == sc.data
}

// mentionsSign: e reads the top bit of data[0]: data[0]&0x80, data[0] >= 0x80 / > 0x7f, int8(data[0]) < 0.
func (sc *signScan) mentionsSign(e ast.Expr) bool {
	found := false
	d0 := sc.data + "[0]"
	ast.Inspect(e, func(x ast.Node) bool {
		switch b := x.(type) {
		case *ast.BinaryExpr:
			xs, ys := exprStr(ast.Unparen(b.X)), exprStr(ast.Unparen(b.Y))
			if b.Op == token.AND {
				if k, ok := constInt(sc.info, b.Y); ok && k&0x80 != 0 && xs == d0 {
					found = true
				}
				if k, ok := constInt(sc.info, b.X); ok && k&0x80 != 0 && ys == d0 {
					found = true
				}
			}
			if (b.Op == token.GEQ || b.Op == token.GTR || b.Op == token.LSS || b.Op == token.LEQ) && (xs == d0 || xs == "int8("+d0+")") {
				if k, ok := constInt(sc.info, b.Y); ok && (k == 0x80 || k == 0x7f || k == 0 && strings.HasPrefix(xs, "int8(")) {
					found = true
				}
			}
		}
		return true
	})
	return found
}

func (sc *signScan) cond(mask int, e ast.Expr, val bool) int {
	e = ast.Unparen(e)
	switch x := e.(type) {
	case *ast.Ident:
		// a boolean local that names a condition over the same, unchanged operands
		if sc.fi != nil && sc.nest < 3 {
			if obj, isVar := sc.info.Uses[x].(*types.Var); isVar && !obj.IsField() && singleAssigned(sc.info, sc.fi.Decl.Body, obj) {
				if d := localDef(sc.info, sc.fi, x); d != nil && len(callsInNoLen(d)) == 0 {
					sc.nest++
					m := sc.cond(mask, d, val)
					sc.nest--
					return m
				}
			}
		}
	case *ast.UnaryExpr:
		if x.Op == token.NOT {
			return sc.cond(mask, x.X, !val)
		}
	case *ast.BinaryExpr:
		switch x.Op {
		case token.LAND:
			if val {
				return sc.cond(sc.cond(mask, x.X, true), x.Y, true)
			}
			return sc.cond(mask, x.X, false) | sc.cond(sc.cond(mask, x.X, true), x.Y, false)
		case token.LOR:
			if !val {
				return sc.cond(sc.cond(mask, x.X, false), x.Y, false)
			}
			return sc.cond(mask, x.X, true) | sc.cond(sc.cond(mask, x.X, false), x.Y, true)
		case token.LSS, token.LEQ, token.GTR, token.GEQ, token.EQL, token.NEQ:
			op := x.Op
			if !val {
				op = map[token.Token]token.Token{token.LSS: token.GEQ, token.LEQ: token.GTR, token.GTR: token.LEQ, token.GEQ: token.LSS, token.EQL: token.NEQ, token.NEQ: token.EQL}[op]
			}
			if sc.isLenData(x.X) {
				if k, ok := constInt(sc.info, x.Y); ok {
					return mask & lenMaskCmp(op, k, true)
				}
			}
			if sc.isLenData(x.Y) {
				if k, ok := constInt(sc.info, x.X); ok {
					return mask & lenMaskCmp(op, k, false)
				}
			}
		}
	}
	if sc.mentionsSign(e) {
		return 0
	}
	return mask
}

// node: effect of a straight-line statement.
func (sc *signScan) node(mask int, n ast.Node) int {
	ast.Inspect(n, func(x ast.Node) bool {
		c, ok := x.(*ast.CallExpr)
		if !ok || len(c.Args) != 1 {
			return true
		}
		// signed narrow conversion of the bytes: intN(... data ...) sign-extends exactly N/8 bytes
		if tv, ok := sc.info.Types[c.Fun]; ok && tv.IsType() {
			if bits, uns, ok := intInfo(tv.Type); ok && !uns && bits < 64 && bits%8 == 0 && strings.Contains(exprStr(c.Args[0]), sc.data) {
				mask &^= 1 << (bits / 8)
			}
			return true
		}
		// helper taking the same bytes
		if exprStr(c.Args[0]) == sc.data && sc.depth < 2 {
			if fn := calleeOf(sc.info, c); fn != nil {
				if callee := sc.p.FuncOf(fn); callee != nil && callee.Decl.Body != nil && callee.Decl.Type.Params.NumFields() == 1 {
					mask &= signPending(sc.p, callee, sc.depth+1)
				}
			}
		}
		return true
	})
	return mask
}

// signPending: the set of data lengths for which some path of fi reaches a return without having consulted
// the sign bit of data[0] (or sign-extended by a signed conversion of exactly that width).
func signPending(p *Program, fi *FuncInfo, depth int) int {
	g := p.GraphOf(fi)
	var dataName string
	for _, f := range fi.Decl.Type.Params.List {
		if isByteSlice(g.Info.TypeOf(f.Type)) && len(f.Names) > 0 && dataName == "" {
			dataName = f.Names[0].Name
		}
	}
	if dataName == "" {
		return allLens
	}
	sc := &signScan{fi: fi, p: p, info: g.Info, data: dataName, depth: depth}
	sol := signSolve(g, sc)
	out := 0
	for _, e := range g.Exits() {
		if m, ok := sol.AtExit(e); ok {
			out |= m
		}
	}
	return out
}

func signSolve(g *Graph, sc *signScan) *Solution[int] {
	return Solve(g, Lattice[int]{
		Init: allLens,
		Join: func(a, b int) int { return a | b },
		Eq:   func(a, b int) bool { return a == b },
		Step: func(s int, st Step) int {
			switch st.Kind {
			case StCond:
				return sc.cond(s, st.Node.(ast.Expr), st.Val)
			case StCase:
				if sc.isLenData(st.Tag) {
					if k, ok := constInt(sc.info, st.Node.(ast.Expr)); ok {
						if st.Val {
							return s & lenMaskCmp(token.EQL, k, true)
						}
						return s & lenMaskCmp(token.NEQ, k, true)
					}
				}
				return s
			case StNode:
				if _, isExpr := st.Node.(ast.Expr); isExpr {
					return s // a branch condition: handled on its edges
				}
				return sc.node(s, st.Node)
			}
			return s
		},
	})
}

func lensString(m int) string {
	var out []string
	for l := 1; l <= 9; l++ {
		if m&(1<<l) != 0 {
			out = append(out, ifs(l == 9, ">=9", fmt.Sprint(l)))
		}
	}
	return strings.Join(out, ",")
}

func c02r5(p *Program, r *Report) {
	// unmarshalVarint: the int64 handed to unmarshalIntlike
	if fi := r.NeedFunc("unmarshalVarint"); fi != nil {
		g := p.GraphOf(fi)
		sc := &signScan{fi: fi, p: p, info: g.Info, data: "data"}
		sol := signSolve(g, sc)
		n := 0
		for _, c := range callsIn(fi.Decl.Body) {
			if !isCallTo(g.Info, c, "unmarshalIntlike") || len(c.Args) != 4 {
				continue
			}
			if _, isConst := constInt(g.Info, c.Args[1]); isConst {
				continue // big.Int destination: decoded from data by decBigInt2C
			}
			n++
			m, _ := sol.Before(p.stmtOf(c, fi))
			m = sc.node(m, c.Args[1])
			m &= 0xfe // lengths 1..7: eight bytes fill the word, longer ones are rejected
			r.Check(m == 0, c, "unmarshalVarint: value for fixed-width destinations is sign-extended for every length 1..7", "top bit of data[0] consulted on every path",
				"for encodings of "+lensString(m)+" byte(s) the value reaches unmarshalIntlike without the top bit of data[0] having been consulted: negative varints of that length decode as large positive numbers")
		}
		if n == 0 {
			r.Unresolved("unmarshalVarint no longer calls unmarshalIntlike with a decoded value")
		}
		// encodings longer than 8 bytes are rejected for fixed-width destinations
		facts := g.GuardFacts()
		okLong := false
		for _, e := range g.Exits() {
			if rs, isR := e.Node.(*ast.ReturnStmt); isR && len(rs.Results) == 1 {
				f, _ := facts.Before(rs)
				if v, known := f.m["8 < len(data)"]; known && v {
					if c, isC := rs.Results[0].(*ast.CallExpr); isC && isCallTo(g.Info, c, "unmarshalErrorf") {
						okLong = true
					}
				}
			}
		}
		r.Check(okLong, fi.Decl, "unmarshalVarint: encodings longer than 8 bytes are an error for fixed-width destinations", "len(data) > 8 -> error", "a varint longer than 8 bytes is truncated into a 64-bit value instead of being rejected")
	}
	if fi := r.NeedFunc("decBigInt2C"); fi != nil {
		m := signPending(p, fi, 0) &^ 1
		r.Check(m == 0, fi.Decl, "decBigInt2C: every non-empty encoding is sign-extended", "top bit of data[0] consulted on every path",
			"for encodings of "+lensString(m)+" byte(s) decBigInt2C returns without consulting the top bit of data[0]: negative varint/decimal values decode as positive")
	}
}

// ---------- R7: nullable destinations ----------

func c02r7(p *Program, r *Report) {
	if fi := r.NeedFunc("isNullData"); fi != nil {
		s := exprStr(fi.Decl.Body.List[0].(*ast.ReturnStmt).Results[0])
		r.Check(s == "data == nil", fi.Decl, "isNullData: null is nil data, not empty data", s, "null is not distinguished from the empty value by `data == nil`: "+s)
	}
	if fi := r.NeedFunc("unmarshalNullable"); fi != nil {
		g := p.GraphOf(fi)
		info := g.Info
		facts := g.GuardFacts()
		okNil, okNew := false, false
		for _, e := range g.Exits() {
			rs, isR := e.Node.(*ast.ReturnStmt)
			if !isR || len(rs.Results) != 1 {
				continue
			}
			f, _ := facts.Before(rs)
			if v, known := f.m["isNullData(info, data)"]; known && v && isNil(info, rs.Results[0]) {
				okNil = true
			}
			if c, isC := rs.Results[0].(*ast.CallExpr); isC && isCallTo(info, c, "Unmarshal") && len(c.Args) == 3 && exprStr(c.Args[1]) == "data" {
				if v, known := f.m["isNullData(info, data)"]; known && !v {
					okNew = true
				}
			}
		}
		setsZero := false
		for _, c := range callsIn(fi.Decl.Body) {
			if calleeName(info, c) == "reflect.Zero" {
				setsZero = true
			}
		}
		r.Check(okNil && setsZero, fi.Decl, "unmarshalNullable: null sets the inner pointer to nil", "reflect.Zero under isNullData", "a null column does not reset a pointer-to-pointer destination to nil")
		r.Check(okNew, fi.Decl, "unmarshalNullable: non-null allocates a fresh value and decodes into it", "reflect.New + Unmarshal(info, data, ...)", "a non-null column is not decoded into a freshly allocated value")
	}
	if fi := r.NeedFunc("Unmarshal"); fi != nil {
		info := fi.Pkg.TypesInfo
		_, sw := dispatchTable(p, fi)
		ok := false
		ast.Inspect(fi.Decl.Body, func(x ast.Node) bool {
			if ifs, isIf := x.(*ast.IfStmt); isIf && sw != nil && ifs.Pos() < sw.Pos() {
				if c, isC := ifs.Cond.(*ast.CallExpr); isC && isCallTo(info, c, "isNullableValue") {
					for _, cc := range callsIn(ifs.Body) {
						if isCallTo(info, cc, "unmarshalNullable") {
							ok = true
						}
					}
				}
			}
			return true
		})
		r.Check(ok, fi.Decl, "Unmarshal routes pointer-to-pointer destinations through unmarshalNullable before the type dispatch", "isNullableValue -> unmarshalNullable", "pointer-to-pointer destinations are not handled before the per-type decoders: null and zero become indistinguishable")
	}
	if fi := r.NeedFunc("Marshal"); fi != nil {
		g := p.GraphOf(fi)
		facts := g.GuardFacts()
		ok := false
		for _, e := range g.Exits() {
			rs, isR := e.Node.(*ast.ReturnStmt)
			if !isR || len(rs.Results) != 2 {
				continue
			}
			f, _ := facts.Before(rs)
			if v, known := f.m["valueRef.IsNil()"]; known && v && isNil(g.Info, rs.Results[0]) && isNil(g.Info, rs.Results[1]) {
				ok = true
			}
		}
		r.Check(ok, fi.Decl, "Marshal encodes a nil pointer as null", "valueRef.IsNil() -> nil, nil", "a nil pointer is not marshalled as null (nil bytes, no error)")
	}
}

// nilFraming decides how the element encoding held in variable `name` is framed inside region (after position
// `after`): through appendBytes (which writes -1 for nil), through an explicit `name == nil` case that writes
// -1, or through a helper of the repository that does one of these with the corresponding parameter.
// wrongNull is non-empty when length -1 is chosen under a condition that does not test the encoding for nil
// (e.g. its length): an empty, non-null value would be written as null.
func nilFraming(p *Program, info *types.Info, region ast.Node, name string, after token.Pos, depth int) (viaAppendBytes, nilCase bool, wrongNull string) {
	lenVars := map[string]bool{} // variables holding len(name)
	ast.Inspect(region, func(y ast.Node) bool {
		switch s := y.(type) {
		case *ast.AssignStmt:
			if len(s.Lhs) == 1 && len(s.Rhs) == 1 && exprStr(s.Rhs[0]) == "len("+name+")" {
				lenVars[exprStr(s.Lhs[0])] = true
			}
		case *ast.CallExpr:
			if isCallTo(info, s, "appendBytes") && len(s.Args) == 2 && exprStr(s.Args[1]) == name {
				viaAppendBytes = true
				return true
			}
			// a helper that receives the encoding
			if depth < 2 && s.Pos() > after {
				if fn := calleeOf(info, s); fn != nil {
					if callee := p.FuncOf(fn); callee != nil && callee.Decl.Body != nil && !isCallTo(info, s, "Marshal", "Unmarshal", "writeCollectionSize", "appendInt") {
						k := 0
						for _, pf := range callee.Decl.Type.Params.List {
							for _, pn := range pf.Names {
								if k < len(s.Args) && exprStr(s.Args[k]) == name && isByteSlice(callee.Pkg.TypesInfo.TypeOf(pf.Type)) {
									a, n, w := nilFraming(p, callee.Pkg.TypesInfo, callee.Decl.Body, pn.Name, token.NoPos, depth+1)
									viaAppendBytes = viaAppendBytes || a
									nilCase = nilCase || n
									if w != "" {
										wrongNull = w
									}
								}
								k++
							}
						}
					}
				}
			}
		case *ast.IfStmt:
			if s.Pos() <= after {
				return true
			}
			setsNull := false
			ast.Inspect(s.Body, func(z ast.Node) bool {
				switch w := z.(type) {
				case *ast.AssignStmt:
					if len(w.Rhs) == 1 {
						if k, isC := constInt(info, w.Rhs[0]); isC && k == -1 && (lenVars[exprStr(w.Lhs[0])] || strings.Contains(strings.ToLower(exprStr(w.Lhs[0])), "len")) {
							setsNull = true
						}
					}
				case *ast.CallExpr:
					if isCallTo(info, w, "appendInt") && len(w.Args) == 2 {
						if k, isC := constInt(info, w.Args[1]); isC && k == -1 {
							setsNull = true
						}
					}
				}
				return true
			})
			if !setsNull {
				return true
			}
			c := exprStr(s.Cond)
			if strings.Contains(c, name+" == nil") {
				nilCase = true
				return true
			}
			// -1 chosen by a condition on this encoding that is not the nil test
			mentions := strings.Contains(c, "len("+name+")")
			for lv := range lenVars {
				if strings.Contains(c, lv) {
					mentions = true
				}
			}
			if mentions {
				wrongNull = fmt.Sprintf("length -1 (null) is written under `%s`, which does not test the encoding for nil: an empty but non-null value (\"\", empty blob) is written as null", c)
			}
		}
		return true
	})
	return
}

// ---------- R8: varint trimming ----------

// c02r8: minimal-length varints are produced by dropping redundant leading sign bytes. Dropping byte b0 (at i)
// in front of b1 (at i+1) keeps the value only if b0 == 0x00 and b1 < 0x80, or b0 == 0xFF and b1 >= 0x80.
// Every explicit skip (i++) inside the trimming loop must be dominated by one of the two conditions; a skip
// justified by only one polarity of b1's top bit drops a sign byte that is needed (or keeps a redundant one).
func c02r8(p *Program, r *Report) {
	var cands []*FuncInfo
	for _, name := range []string{"marshalVarint"} {
		if fi := r.NeedFunc(name); fi != nil {
			cands = append(cands, fi)
			info := fi.Pkg.TypesInfo
			for _, c := range callsIn(fi.Decl.Body) {
				if fn := calleeOf(info, c); fn != nil {
					if callee := p.FuncOf(fn); callee != nil && callee.Decl.Body != nil && callee.Pkg == p.Root && !strings.HasPrefix(callee.Name, "marshal") && !strings.HasPrefix(callee.Name, "enc") {
						cands = append(cands, callee)
					}
				}
			}
		}
	}
	found := 0
	doneFn := map[*FuncInfo]bool{}
	for _, fi := range cands {
		if doneFn[fi] {
			continue
		}
		doneFn[fi] = true
		g := p.GraphOf(fi)
		info := g.Info
		type trimLoop struct {
			loop   *ast.ForStmt
			lo, hi map[string]bool
			drops  []ast.Node
			stops  []ast.Node
		}
		var loops []*trimLoop
		ast.Inspect(fi.Decl.Body, func(x ast.Node) bool {
			loop, ok := x.(*ast.ForStmt)
			if !ok {
				return true
			}
			// the two leading bytes and the statements that drop the first of them:
			//  A: an index i walks the slice: bytes X[i], X[i+1], dropped by an i++ (in the body or as the post statement)
			//  B: the slice itself is shortened: bytes P[0], P[1], dropped by P = P[1:]
			tl := &trimLoop{loop: loop, lo: map[string]bool{}, hi: map[string]bool{}}
			if inc, isInc := loop.Post.(*ast.IncDecStmt); isInc && inc.Tok == token.INC {
				iv := exprStr(inc.X)
				ast.Inspect(loop.Body, func(y ast.Node) bool {
					switch z := y.(type) {
					case *ast.IndexExpr:
						switch strings.ReplaceAll(exprStr(z.Index), " ", "") {
						case iv:
							tl.lo[exprStr(z)] = true
						case iv + "+1":
							tl.hi[exprStr(z)] = true
						}
					case *ast.IncDecStmt:
						if z.Tok == token.INC && exprStr(z.X) == iv {
							tl.drops = append(tl.drops, z)
						}
					}
					return true
				})
				if len(tl.lo) > 0 && len(tl.hi) > 0 {
					tl.drops = append(tl.drops, inc) // falling through the body drops the byte, too
				}
			} else {
				// A without a post statement: the index is advanced inside the body only (for i < n-1 { .. i++ .. })
				ivs := map[string]bool{}
				ast.Inspect(loop.Body, func(y ast.Node) bool {
					if z, isInc := y.(*ast.IncDecStmt); isInc && z.Tok == token.INC {
						if id, isId := ast.Unparen(z.X).(*ast.Ident); isId {
							ivs[id.Name] = true
						}
					}
					return true
				})
				for iv := range ivs {
					lo, hi := map[string]bool{}, map[string]bool{}
					var drops []ast.Node
					ast.Inspect(loop.Body, func(y ast.Node) bool {
						switch z := y.(type) {
						case *ast.IndexExpr:
							switch strings.ReplaceAll(exprStr(z.Index), " ", "") {
							case iv:
								lo[exprStr(z)] = true
							case iv + "+1":
								hi[exprStr(z)] = true
							}
						case *ast.IncDecStmt:
							if z.Tok == token.INC && exprStr(z.X) == iv {
								drops = append(drops, z)
							}
						}
						return true
					})
					if len(lo) > 0 && len(hi) > 0 && len(tl.lo) == 0 {
						tl.lo, tl.hi, tl.drops = lo, hi, drops
					}
				}
				ast.Inspect(loop.Body, func(y ast.Node) bool {
					as, isAs := y.(*ast.AssignStmt)
					if !isAs || as.Tok != token.ASSIGN || len(as.Lhs) != 1 || len(as.Rhs) != 1 || len(tl.lo) > 0 && len(tl.drops) > 0 {
						return true
					}
					sl, isSl := ast.Unparen(as.Rhs[0]).(*ast.SliceExpr)
					if !isSl || sl.High != nil || sl.Low == nil || exprStr(sl.X) != exprStr(as.Lhs[0]) {
						return true
					}
					if k, isK := constInt(info, sl.Low); !isK || k != 1 {
						return true
					}
					if t := info.TypeOf(as.Lhs[0]); t == nil || !strings.HasSuffix(t.String(), "[]byte") && !strings.HasSuffix(t.String(), "[]uint8") {
						return true
					}
					pn := exprStr(as.Lhs[0])
					tl.lo[pn+"[0]"], tl.hi[pn+"[1]"] = true, true
					tl.drops = append(tl.drops, as)
					return true
				})
			}
			if len(tl.lo) == 0 || len(tl.hi) == 0 || len(tl.drops) == 0 {
				return true
			}
			// locals bound to those bytes
			ast.Inspect(loop.Body, func(y ast.Node) bool {
				as, ok := y.(*ast.AssignStmt)
				if !ok || as.Tok != token.DEFINE || len(as.Lhs) != len(as.Rhs) {
					return true
				}
				for k, rhs := range as.Rhs {
					switch {
					case tl.lo[exprStr(ast.Unparen(rhs))]:
						tl.lo[exprStr(as.Lhs[k])] = true
					case tl.hi[exprStr(ast.Unparen(rhs))]:
						tl.hi[exprStr(as.Lhs[k])] = true
					}
				}
				return true
			})
			// the stops: break statements that leave this loop
			ast.Inspect(loop.Body, func(y ast.Node) bool {
				br, ok := y.(*ast.BranchStmt)
				if !ok || br.Tok != token.BREAK {
					return true
				}
				if br.Label != nil {
					// break <label of this loop>, also from inside a switch in the body
					if ls, isL := p.Parent(loop).(*ast.LabeledStmt); isL && ls.Label.Name == br.Label.Name {
						tl.stops = append(tl.stops, br)
					}
					return true
				}
				inner := p.enclosing(br, fi.Decl, func(m ast.Node) bool {
					switch m.(type) {
					case *ast.ForStmt, *ast.RangeStmt, *ast.SwitchStmt, *ast.TypeSwitchStmt, *ast.SelectStmt:
						return true
					}
					return false
				})
				if inner == ast.Node(loop) {
					tl.stops = append(tl.stops, br)
				}
				return true
			})
			loops = append(loops, tl)
			return true
		})
		if len(loops) == 0 {
			continue
		}
		// every drop leaves a mark in the guard facts, so that a stop reached after a drop in the same iteration is
		// judged on the byte that is then the first one
		g.markNodes = map[ast.Node]string{}
		g.unmarkNodes = map[ast.Node]string{}
		for _, tl := range loops {
			if tl.loop.Cond != nil {
				g.unmarkNodes[tl.loop.Cond] = "dropped" // a new iteration starts
			}
			for _, d := range tl.drops {
				if d != ast.Node(tl.loop.Post) {
					g.markNodes[d] = "dropped"
				}
			}
		}
		g.factsCache, g.factsPSCache = nil, nil
		// only what is known about the two bytes (and the drop marks) matters
		var names []string
		for _, tl := range loops {
			for nm := range tl.lo {
				names = append(names, nm)
			}
			for nm := range tl.hi {
				names = append(names, nm)
			}
		}
		facts := g.GuardFactsPSAbout(func(atom string) bool {
			if strings.HasPrefix(atom, "§") {
				return true
			}
			for _, nm := range names {
				if mentions(atom, nm) || strings.Contains(atom, nm) {
					return true
				}
			}
			// named conditions over the bytes (booleans tested by the loop)
			return !strings.Contains(atom, " ") && !strings.Contains(atom, ".")
		})
		// (the marks stay until the end of the rule: queries re-run the step function inside a block)
		defer func(g *Graph) {
			g.markNodes, g.unmarkNodes = nil, nil
			g.factsCache, g.factsPSCache = nil, nil
		}(g)
		for _, tl := range loops {
			found++
			var loN, hiN string
			for l := range tl.lo {
				loN = l
			}
			for h := range tl.hi {
				hiN = h
			}
			type byteView struct{ zero, ff, notZero, notFF, topClear, topSet bool }
			view := func(fv map[string]bool, names map[string]bool) byteView {
				var v byteView
				isTrue := func(keys ...string) bool {
					for _, k := range keys {
						if x, ok := fv[k]; ok && x {
							return true
						}
					}
					return false
				}
				isFalse := func(keys ...string) bool {
					for _, k := range keys {
						if x, ok := fv[k]; ok && !x {
							return true
						}
					}
					return false
				}
				for nm := range names {
					nm = strings.ReplaceAll(nm, " ", "")
					v.zero = v.zero || isTrue(nm+"==0")
					v.ff = v.ff || isTrue(nm+"==255")
					v.topClear = v.topClear || isTrue(nm+"&128==0", nm+"<128") || isFalse("0<"+nm+"&128", "127<"+nm)
					v.topSet = v.topSet || isTrue("0<"+nm+"&128", nm+"&128==128", "127<"+nm, "128<"+nm) || isFalse(nm+"&128==0", nm+"<128")
					v.notZero = v.notZero || isFalse(nm+"==0") || isTrue("0<"+nm)
					v.notFF = v.notFF || isFalse(nm+"==255") || isTrue(nm+"<255")
				}
				v.topClear = v.topClear || v.zero
				v.topSet = v.topSet || v.ff
				v.notZero = v.notZero || v.topSet || v.ff
				v.notFF = v.notFF || v.topClear || v.zero
				return v
			}
			n := 0
			for _, st := range tl.drops {
				n++
				ps, _ := facts.Before(st)
				okAll := len(ps) > 0
				desc := ""
				for _, f := range ps {
					fv := foldedView(f)
					if os.Getenv("DBGC02") != "" {
						fmt.Fprintln(os.Stderr, "C02.R8 drop disjunct at", p.Pos(st), factsKey(f), "folded:", fv)
					}
					lo, hi := view(fv, tl.lo), view(fv, tl.hi)
					if !(lo.zero && hi.topClear || lo.ff && hi.topSet) {
						okAll = false
					}
					desc += fmt.Sprintf("[zero=%v ff=%v topClear=%v topSet=%v] ", lo.zero, lo.ff, hi.topClear, hi.topSet)
				}
				r.Check(okAll, st, fmt.Sprintf("%s: leading byte skipped at %s only when redundant #%d", fi.Name, p.Pos(st), n), "0x00 before a byte with the top bit clear, or 0xFF before a byte with the top bit set, on every path to the drop",
					fmt.Sprintf("a leading byte is dropped under a condition that does not establish (%s == 0x00 and %s < 0x80) or (%s == 0xFF and %s >= 0x80): known on the paths here: %s. A sign byte that is needed is removed (e.g. -129 = ff 7f becomes 7f = 127)", loN, hiN, loN, hiN, desc))
			}
			for _, st := range tl.stops {
				n++
				ps, _ := facts.Before(st)
				okAll := len(ps) > 0
				desc := ""
				for _, f := range ps {
					fv := foldedView(f)
					if os.Getenv("DBGC02") != "" {
						fmt.Fprintln(os.Stderr, "C02.R8 stop disjunct at", p.Pos(st), factsKey(f), "folded:", fv)
					}
					lo, hi := view(fv, tl.lo), view(fv, tl.hi)
					okD := false
					if f.m["§dropped"] {
						// the byte that was second is now first: it must not look like padding itself
						okD = hi.notZero && hi.notFF
					} else {
						okD = lo.notZero && lo.notFF || lo.zero && hi.topSet || lo.ff && hi.topClear
					}
					if !okD {
						okAll = false
					}
					desc += fmt.Sprintf("[dropped=%v first: zero=%v ff=%v notZero=%v notFF=%v second: topClear=%v topSet=%v notZero=%v notFF=%v] ", f.m["§dropped"], lo.zero, lo.ff, lo.notZero, lo.notFF, hi.topClear, hi.topSet, hi.notZero, hi.notFF)
				}
				r.Check(okAll, st, fmt.Sprintf("%s: trimming stops at %s only at a byte that is needed", fi.Name, p.Pos(st)), "the first remaining byte is not redundant on every path to the stop",
					fmt.Sprintf("the trimming stops although the leading byte can still be redundant (0x00 before a byte < 0x80, or 0xFF before a byte >= 0x80): known on the paths here: %s. The encoding is not minimal (e.g. -128 stays ff 80), so it differs from what Cassandra and big.Int produce and from what unmarshal expects back", desc))
			}
		}
	}
	if found == 0 {
		r.Unresolved("marshalVarint: the leading-byte trimming loop (bytes at i and i+1) was not found in marshalVarint or its helpers")
	}
}

// foldStr prints e with every constant sub-expression replaced by its decimal value and without spaces.
func foldStr(info *types.Info, e ast.Expr) string {
	var f func(e ast.Expr) string
	f = func(e ast.Expr) string {
		if e == nil {
			return ""
		}
		if info != nil {
			if k, ok := constInt(info, e); ok {
				return fmtInt(int(k))
			}
		}
		switch x := e.(type) {
		case *ast.ParenExpr:
			return f(x.X)
		case *ast.BasicLit:
			if x.Kind == token.INT {
				if k, err := strconv.ParseInt(x.Value, 0, 64); err == nil {
					return fmtInt(int(k))
				}
			}
			return x.Value
		case *ast.BinaryExpr:
			l, rr := f(x.X), f(x.Y)
			if _, isB := ast.Unparen(x.X).(*ast.BinaryExpr); isB {
				if _, isP := x.X.(*ast.ParenExpr); isP {
					l = "(" + l + ")"
				}
			}
			if _, isP := x.Y.(*ast.ParenExpr); isP {
				if _, isB := ast.Unparen(x.Y).(*ast.BinaryExpr); isB {
					rr = "(" + rr + ")"
				}
			}
			return l + x.Op.String() + rr
		case *ast.UnaryExpr:
			return x.Op.String() + f(x.X)
		case *ast.IndexExpr:
			return f(x.X) + "[" + f(x.Index) + "]"
		case *ast.CallExpr:
			var as []string
			for _, a := range x.Args {
				as = append(as, f(a))
			}
			return f(x.Fun) + "(" + strings.Join(as, ",") + ")"
		case *ast.SelectorExpr:
			return f(x.X) + "." + x.Sel.Name
		}
		return strings.ReplaceAll(exprStr(e), " ", "")
	}
	return f(e)
}

// foldedView: the relational atoms of f with constants folded (x==y in both orders, x<y), for matching against
// literal-free patterns such as "b[1]&128==0".
func foldedView(f Facts) map[string]bool {
	out := map[string]bool{}
	for atom, ra := range f.rel {
		v, ok := f.m[atom]
		if !ok {
			continue
		}
		xs, ys := foldStr(f.info, ra.X), foldStr(f.info, ra.Y)
		switch ra.Op {
		case token.EQL:
			out[xs+"=="+ys] = v
			out[ys+"=="+xs] = v
		case token.LSS:
			out[xs+"<"+ys] = v
		}
	}
	return out
}

// signExtendAmount: a two's-complement number of L < 8 bytes with the top bit set is the unsigned value minus
// 2^(8L). unmarshalVarint (and helpers) must subtract exactly that: the subtrahend, evaluated as a term over the
// symbolic length L = len(data), equals 1 << (8*L).
func signExtendAmount(p *Program, r *Report) {
	fi := r.NeedFunc("unmarshalVarint")
	if fi == nil {
		return
	}
	n := 0
	for _, u := range append([]*FuncInfo{fi}, p.privateCallees(fi)...) {
		info := u.Pkg.TypesInfo
		// the byte slice parameter
		var dataObj types.Object
		if u.Decl.Type.Params != nil {
			for _, f := range u.Decl.Type.Params.List {
				if isByteSlice(info.TypeOf(f.Type)) && len(f.Names) > 0 && dataObj == nil {
					dataObj = info.Defs[f.Names[0]]
				}
			}
		}
		if dataObj == nil {
			continue
		}
		ast.Inspect(u.Decl.Body, func(x ast.Node) bool {
			as, ok := x.(*ast.AssignStmt)
			if !ok || len(as.Lhs) != 1 || len(as.Rhs) != 1 {
				return true
			}
			var amount ast.Expr
			switch as.Tok {
			case token.SUB_ASSIGN:
				amount = as.Rhs[0]
			case token.ASSIGN:
				if b, isB := ast.Unparen(as.Rhs[0]).(*ast.BinaryExpr); isB && b.Op == token.SUB && exprStr(ast.Unparen(b.X)) == exprStr(as.Lhs[0]) {
					amount = b.Y
				}
			}
			if amount == nil {
				return true
			}
			if t := info.TypeOf(as.Lhs[0]); t == nil || t.String() != "int64" {
				return true
			}
			// only subtractions whose amount depends on the length of the data
			dep := false
			ast.Inspect(amount, func(y ast.Node) bool {
				if id, isId := y.(*ast.Ident); isId {
					if info.Uses[id] == dataObj {
						dep = true
					}
					if d := localDefMulti(info, u, id); d != nil && strings.Contains(exprStr(d), "len("+dataObj.Name()+")") {
						dep = true
					}
				}
				return true
			})
			if !dep {
				return true
			}
			n++
			se := newSymEval(p)
			L := tSym("L")
			se.env[dataObj] = sval{kind: 's', base: dataObj.Name(), off: tConst(0), slen: L, typ: dataObj.Type()}
			// locals the amount mentions (n := uint(len(data)))
			ast.Inspect(amount, func(y ast.Node) bool {
				if id, isId := y.(*ast.Ident); isId {
					if obj := info.Uses[id]; obj != nil && obj != dataObj {
						if _, bound := se.env[obj]; !bound {
							if d := localDefMulti(info, u, id); d != nil && singleAssigned(info, u.Decl.Body, obj) {
								v := se.eval(u, d)
								if v.kind == 'i' {
									se.env[obj] = se.convert(v, obj.Type())
								}
							}
						}
					}
				}
				return true
			})
			v := se.eval(u, amount)
			want := mk("shl", tConst(1), mk("mul", L, tConst(8)))
			if v.kind != 'i' || len(se.unsup) > 0 {
				r.Unresolved("%s: the amount subtracted for the sign extension (%s) is not interpretable: %s", u.Name, exprStr(amount), strings.Join(se.unsup, "; "))
				return true
			}
			// on 32-bit targets the shift amount is computed in 32 bits and widened: the same value for L <= 8
			want32 := mk("shl", tConst(1), mkExt("zext", 32, mk("mul", L, tConst(8))))
			r.Check(v.t.String() == want.String() || v.t.String() == want32.String(), as, u.Name+": sign extension subtracts 2^(8*len)", v.t.String(),
				"the sign extension subtracts "+v.t.String()+" (L = len("+dataObj.Name()+")) instead of "+want.String()+": negative values shorter than 8 bytes decode to wrong numbers")
			return true
		})
	}
	if n == 0 {
		r.Unresolved("unmarshalVarint: no subtraction of a length-dependent amount (sign extension) found")
	}
}
