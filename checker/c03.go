package main

import (
	"fmt"
	"go/ast"
	"go/token"
	"go/types"
	"sort"
	"strings"
)

func init() {
	register(&PropertySpec{
		ID: "C03",
		Explanation: "Structural necessary conditions of 'request frames are exactly what the protocol specifies', decided by a path-sensitive abstract interpretation of every frame builder for each protocol version 1-5 and every combination of its branch conditions (E6b): R1 every builder writes the header first with a constant request opcode of the specification, and every successful exit returns finish(); R3/R4/R6 on every path the sequence of protocol primitives written after the header equals the body the specification gives for that opcode, version and flags value (flags <=> fields, field order, field notation, version gating, custom payload iff the header flag); " +
			"R5 the primitive writers are big-endian of the right width and use the right length prefixes (byte-order tables); R7 16-bit counts are not silently truncated; R8 the unset marker is decided on the unwrapped bound value; plus stream id provenance (=C01.R1)." +
			" R10 the length finish() patches into the header is computed from the buffer in its final (compressed) form, not from a value taken before the body was replaced.",
		NotDecided: "byte equality of whole frames for all parameter values (needs an independent decoder run over generated requests); compression output; the semantic link between a flag bit and the option the caller set beyond 'field written iff flag set'.",
		Rules: []*Rule{
			{ID: "C03.R1", Floor: 16, Doc: "every builder: header first with the specification's opcode; success exits return finish()", Run: c03r1},
			{ID: "C03.R3", Floor: 100, Doc: "body primitive sequence equals the specification's for every version and flag combination (QUERY, EXECUTE, PREPARE, BATCH, STARTUP, OPTIONS, AUTH_RESPONSE, REGISTER)", Run: c03r3},
			{ID: "C03.R5", Floor: 12, Doc: "primitive writers: big-endian widths and length prefixes", Run: c03r5},
			{ID: "C03.R7", Floor: 5, Doc: "uint16(len(x)) counts in frame writers are bounded", Run: c03r7},
			{ID: "C03.R8", Floor: 1, Doc: "marshalQueryValue: unset is decided after unwrapping a named value", Run: c03r8},
			{ID: "C03.R9", Floor: 1, Doc: "finish(): header compression flag and body form agree on every path (=C18.R6)", Run: c18r6},
			{ID: "C03.R10", Floor: 1, Doc: "finish(): the length patched into the header is computed from the buffer in its final form (=C18.R7)", Run: finishLength},
		},
	})
}

// request opcodes of the specification
var specRequestOps = map[string]int64{"opStartup": 0x01, "opOptions": 0x05, "opQuery": 0x07, "opPrepare": 0x09, "opExecute": 0x0A, "opRegister": 0x0B, "opBatch": 0x0D, "opAuthResponse": 0x0F}

// builderEntry: the function that contains the writeHeader call for each request.
var builderEntries = map[string]string{
	"opStartup": "(*writeStartupFrame).buildFrame", "opOptions": "(*framer).writeOptionsFrame", "opQuery": "(*framer).writeQueryFrame",
	"opPrepare": "(*writePrepareFrame).buildFrame", "opExecute": "(*framer).writeExecuteFrame", "opRegister": "(*framer).writeRegisterFrame",
	"opBatch": "(*framer).writeBatchFrame", "opAuthResponse": "(*framer).writeAuthResponseFrame",
}

// builderEntriesOf resolves, for the current tree, the function in which each request opcode constant is
// chosen for writeHeader (directly or through a wrapper): a builder that was inlined into buildFrame, renamed or
// wrapped is still found. Falls back to the names of the pinned tree.
func builderEntriesOf(p *Program) map[string]string {
	out := map[string]string{}
	p.forEachFunc(false, func(fi *FuncInfo) {
		info := fi.Pkg.TypesInfo
		for _, c := range callsIn(fi.Decl.Body) {
			if !isCallTo(info, c, "(*framer).writeHeader") || len(c.Args) != 3 {
				continue
			}
			for _, site := range p.effectiveArgs(fi, c, 1, 0) {
				op := exprStr(site.Expr)
				if _, isOp := specRequestOps[op]; isOp {
					out[op] = site.Fn.Name
				}
			}
		}
	})
	for op, name := range builderEntries {
		if _, ok := out[op]; !ok {
			out[op] = name
		}
	}
	return out
}

func newWriteTracer(p *Program) *tracer {
	return &tracer{p: p, prims: writePrims, maxPaths: 40000, inline: map[string]bool{
		"(*framer).writeQueryParams": true, "(*framer).writeCustomPayload": true,
	}}
}

func c03r1(p *Program, r *Report) {
	// every writeHeader call: opcode argument is a constant with the specification's value; one per builder
	seenOps := map[string]int{}
	p.forEachFunc(false, func(fi *FuncInfo) {
		info := fi.Pkg.TypesInfo
		ast.Inspect(fi.Decl.Body, func(x ast.Node) bool {
			c, ok := x.(*ast.CallExpr)
			if !ok || !isCallTo(info, c, "(*framer).writeHeader") || len(c.Args) != 3 {
				return true
			}
			// the opcode may be passed through a wrapper of writeHeader: judge it where the constant is chosen
			for _, site := range p.effectiveArgs(fi, c, 1, 0) {
				sinfo := site.Fn.Pkg.TypesInfo
				opName := exprStr(site.Expr)
				v, isC := constInt(sinfo, site.Expr)
				want, known := specRequestOps[opName]
				seenOps[opName]++
				r.Check(isC && known && v == want, site.Call, site.Fn.Name+" header opcode "+opName, fmt.Sprintf("0x%02X as in the specification", v),
					fmt.Sprintf("the frame is written with opcode %s=0x%02X, which is not the specification's request opcode of that name", opName, v))
			}
			return true
		})
	})
	for op := range specRequestOps {
		r.Check(seenOps[op] == 1, nil, "exactly one builder writes "+op, "one builder", fmt.Sprintf("%d builders write opcode %s (expected exactly one)", seenOps[op], op))
	}
	// header first, finish returned on success exits
	for op, name := range builderEntriesOf(p) {
		fi := r.NeedFunc(name)
		if fi == nil {
			continue
		}
		tr := newWriteTracer(p)
		for v := 1; v <= 5; v++ {
			for _, st := range tr.run(fi, v) {
				ft := flat(st.trace)
				// strip flag setters that legitimately precede the header
				i := 0
				for i < len(ft) && (ft[i].Prim == "set-payload-flag" || ft[i].Prim == "set-trace-flag") {
					i++
				}
				if st.done == "panic" {
					continue
				}
				last := ""
				if len(ft) > 0 {
					last = ft[len(ft)-1].Prim
				}
				if last == "return-error" || traceHasError(ft) {
					continue
				}
				okHead := i < len(ft) && ft[i].Prim == "header"
				nHead := 0
				for _, it := range ft {
					if it.Prim == "header" {
						nHead++
					}
				}
				if !okHead || nHead != 1 || last != "finish" {
					r.Bad(fi.Decl, fmt.Sprintf("%s (%s) v%d frame shape", name, op, v), fmt.Sprintf("on path [%s] the builder writes %s: the header must be written first, exactly once, and the success exit must return finish() (length back-patched)", assumeStr(st), traceStr(ft)))
					return
				}
			}
		}
		r.OK(fi.Decl, name+" ("+op+") header first, finish() on every success exit", "all versions, all paths")
		if len(tr.unsup) > 0 {
			r.Unresolved("%s: %s", name, strings.Join(tr.unsup, "; "))
		}
	}
	// each buildFrame returns what the entry returns
	for _, b := range p.SortedFuncs() {
		if b.Obj.Name() != "buildFrame" || b.Decl.Body == nil || b.Pkg != p.Root || strings.Contains(b.Name, "frameWriterFunc") {
			continue
		}
		info := b.Pkg.TypesInfo
		okRet := true
		for _, e := range p.GraphOf(b).Exits() {
			if e.Kind == ExitPanic {
				continue
			}
			rs, ok := e.Node.(*ast.ReturnStmt)
			if !ok || len(rs.Results) != 1 {
				okRet = false
				continue
			}
			if c, ok := ast.Unparen(rs.Results[0]).(*ast.CallExpr); ok {
				n := calleeName(info, c)
				if n == "(*framer).finish" || strings.HasPrefix(n, "(*framer).write") {
					continue
				}
			}
			okRet = false
		}
		r.Check(okRet, b.Decl, b.Name+" returns the writer's result", "returns finish() / the framer's write*Frame result", "buildFrame does not return the result of finish(): a build error is dropped or the length is never patched")
	}
}

// ---------------------------------------------------------------------------
// specification of request bodies as primitive notations

func specParams(v int, flags int64, named, unset bool) []string {
	out := []string{"[consistency]"}
	if v == 1 {
		return out
	}
	if v >= 5 {
		out = append(out, "[int]") // flags
	} else {
		out = append(out, "[byte]")
	}
	if flags&0x01 != 0 {
		body := ""
		if flags&0x40 != 0 {
			body += "[string] "
		}
		if unset {
			body += "[unset]"
		} else {
			body += "[bytes]"
		}
		out = append(out, "[short]", "loop{"+body+"}")
	}
	if flags&0x04 != 0 {
		out = append(out, "[int]")
	}
	if flags&0x08 != 0 {
		out = append(out, "[bytes]")
	}
	if flags&0x10 != 0 {
		out = append(out, "[consistency]")
	}
	if flags&0x20 != 0 {
		out = append(out, "[long]")
	}
	if flags&0x80 != 0 {
		out = append(out, "[string]")
	}
	return out
}

func notations(ts []TraceItem) []string {
	var out []string
	for _, t := range ts {
		switch t.Prim {
		case "loop":
			out = append(out, "loop{"+strings.Join(notations(t.Body), " ")+"}")
		case "case", "typecase":
		default:
			out = append(out, t.Prim)
		}
	}
	return out
}

// flagsItem finds the flags primitive: the first [byte]/[int] whose argument text mentions "flags".
// flagsAfter finds the flags primitive by its place in the specification: the first [byte]/[int] that follows the
// first top-level primitive `pred` (falls back to the name-based search).
func flagsAfter(ts []TraceItem, pred string) (TraceItem, bool) {
	seen := false
	for _, t := range ts {
		if seen && (t.Prim == "[byte]" || t.Prim == "[int]") {
			return t, true
		}
		if seen && t.Prim != "case" && t.Prim != "typecase" && t.Prim != "enter" && t.Prim != "leave" && t.Prim != "field" {
			break
		}
		if t.Prim == pred {
			seen = true
		}
	}
	return flagsItem(ts)
}

func flagsItem(ts []TraceItem) (TraceItem, bool) {
	for _, t := range ts {
		if (t.Prim == "[byte]" || t.Prim == "[int]") && strings.Contains(t.Arg, "flags") {
			return t, true
		}
	}
	return TraceItem{}, false
}

func c03r3(p *Program, r *Report) {
	type msg struct {
		op   string
		spec func(v int, st *pathState, body []TraceItem) ([]string, string)
	}
	// truthy: the assumption whose atom ends with the given suffix (parameter names differ between inlined callers)
	truthy := func(st *pathState, suffix string) bool {
		for k, v := range st.assume {
			if strings.HasSuffix(k, suffix) {
				return v
			}
		}
		return false
	}
	msgs := []msg{
		{"opStartup", func(v int, st *pathState, body []TraceItem) ([]string, string) { return []string{"[string map]"}, "" }},
		{"opOptions", func(v int, st *pathState, body []TraceItem) ([]string, string) { return nil, "" }},
		{"opAuthResponse", func(v int, st *pathState, body []TraceItem) ([]string, string) { return []string{"[bytes]"}, "" }},
		{"opRegister", func(v int, st *pathState, body []TraceItem) ([]string, string) { return []string{"[string list]"}, "" }},
		{"opQuery", func(v int, st *pathState, body []TraceItem) ([]string, string) {
			fl, ok := flagsAfter(body, "[consistency]")
			if v >= 2 && (!ok || !fl.HasVal) {
				return nil, "flags value of the QUERY parameters is not a constant-propagated value on this path"
			}
			return append([]string{"[long string]"}, specParams(v, fl.Val, fl.Val&0x40 != 0, truthy(st, ".values[i].isUnset"))...), ""
		}},
		{"opExecute", func(v int, st *pathState, body []TraceItem) ([]string, string) {
			if v == 1 {
				val := "[bytes]"
				if truthy(st, ".values[i].isUnset") {
					val = "[unset]"
				}
				return []string{"[short bytes]", "[short]", "loop{" + val + "}", "[consistency]"}, ""
			}
			fl, ok := flagsAfter(body, "[consistency]")
			if !ok || !fl.HasVal {
				return nil, "flags value of the EXECUTE parameters is not a constant-propagated value on this path"
			}
			return append([]string{"[short bytes]"}, specParams(v, fl.Val, fl.Val&0x40 != 0, truthy(st, ".values[i].isUnset"))...), ""
		}},
		{"opPrepare", func(v int, st *pathState, body []TraceItem) ([]string, string) {
			out := []string{"[long string]"}
			if v >= 5 {
				fl, ok := flagsAfter(body, "[long string]")
				if !ok || !fl.HasVal {
					return nil, "flags value of PREPARE is not known on this path"
				}
				out = append(out, "[int]")
				if fl.Val&0x01 != 0 {
					out = append(out, "[string]")
				}
			}
			return out, ""
		}},
		{"opBatch", func(v int, st *pathState, body []TraceItem) ([]string, string) {
			if v == 1 {
				return nil, "skip"
			}
			// the statement kind byte written per statement decides what follows it: 0 -> query string, 1 -> prepared id
			kind := "[byte] [long string]"
			kindKnown := false
			for _, it := range body {
				if it.Prim == "loop" && len(it.Body) > 0 && it.Body[0].Prim == "[byte]" && it.Body[0].HasVal {
					kindKnown = true
					if it.Body[0].Val == 1 {
						kind = "[byte] [short bytes]"
					} else if it.Body[0].Val != 0 {
						return nil, fmt.Sprintf("batch statement kind byte %d is neither 0 (query) nor 1 (prepared)", it.Body[0].Val)
					}
				}
			}
			if !kindKnown && truthy(st, "len(b.preparedID) > 0") {
				kind = "[byte] [short bytes]"
			}
			val := "[bytes]"
			if truthy(st, "col.isUnset") {
				val = "[unset]"
			}
			out := []string{"[byte]", "[short]", "loop{" + kind + " [short] loop{" + val + "}}", "[consistency]"}
			if v >= 3 {
				fl, ok := flagsAfter(body, "[consistency]")
				if !ok || !fl.HasVal {
					return nil, "flags value of BATCH is not known on this path"
				}
				if v >= 5 {
					out = append(out, "[int]")
				} else {
					out = append(out, "[byte]")
				}
				if fl.Val&0x10 != 0 {
					out = append(out, "[consistency]")
				}
				if fl.Val&0x20 != 0 {
					out = append(out, "[long]")
				}
			}
			return out, ""
		}},
	}
	for _, m := range msgs {
		name := builderEntriesOf(p)[m.op]
		fi := r.NeedFunc(name)
		if fi == nil {
			continue
		}
		tr := newWriteTracer(p)
		npaths, nbad := 0, 0
		for v := 1; v <= 5; v++ {
			for _, st := range tr.run(fi, v) {
				ft := flat(st.trace)
				if st.done == "panic" || len(ft) > 0 && ft[len(ft)-1].Prim == "return-error" {
					// a request that cannot be expressed is refused, not sent malformed: nothing may follow
					continue
				}
				// an early return-error inside a loop (named values in batches)
				hasErr := false
				var walk func(ts []TraceItem)
				walk = func(ts []TraceItem) {
					for _, t := range ts {
						if t.Prim == "return-error" || t.Prim == "panic" {
							hasErr = true
						}
						walk(t.Body)
					}
				}
				walk(ft)
				if hasErr {
					continue
				}
				// split: [flag setters] header [payload bytes map iff flag] body... finish
				i := 0
				payloadFlag := false
				for i < len(ft) && (ft[i].Prim == "set-payload-flag" || ft[i].Prim == "set-trace-flag") {
					if ft[i].Prim == "set-payload-flag" {
						payloadFlag = true
					}
					i++
				}
				if i >= len(ft) || ft[i].Prim != "header" || ft[len(ft)-1].Prim != "finish" {
					continue // reported by R1
				}
				body := ft[i+1 : len(ft)-1]
				hasPayload := len(body) > 0 && body[0].Prim == "[bytes map]" && strings.Contains(body[0].Arg, "ayload")
				if hasPayload {
					body = body[1:]
				}
				npaths++
				key := fmt.Sprintf("%s (%s) v%d body", name, m.op, v)
				if payloadFlag != hasPayload {
					nbad++
					if nbad <= 3 {
						r.Bad(fi.Decl, key+" custom payload iff header flag", fmt.Sprintf("on path [%s] the custom-payload header flag is %v but the [bytes map] is written: %v (the specification puts the payload directly after the header iff flag 0x04 is set)", assumeStr(st), payloadFlag, hasPayload))
					}
					continue
				}
				if hasPayload && v < 4 {
					nbad++
					r.Bad(fi.Decl, key+" custom payload needs v4", "a custom payload is written for protocol version "+itoa(v))
					continue
				}
				want, problem := m.spec(v, st, body)
				if problem == "skip" {
					continue
				}
				if problem != "" {
					nbad++
					if nbad <= 3 {
						r.Bad(fi.Decl, key, problem+" ["+assumeStr(st)+"]")
					}
					continue
				}
				got := notations(body)
				// [unset] is the [bytes] form with length -2: which of the two is written is data dependent and
				// decided by the marshalling layer (R8), so both count as the value's [bytes]
				unsetAsBytes := func(l []string) string { return strings.ReplaceAll(strings.Join(l, " "), "[unset]", "[bytes]") }
				if unsetAsBytes(got) != unsetAsBytes(want) {
					nbad++
					if nbad <= 3 {
						r.Bad(fi.Decl, key, fmt.Sprintf("on path [%s] the body written is `%s` but the specification's %s body for protocol v%d with these flags is `%s`", assumeStr(st), strings.Join(got, " "), strings.TrimPrefix(m.op, "op"), v, strings.Join(want, " ")))
					}
					continue
				}
				// argument provenance of the optional fields
				if prob := paramArgProblems(body); prob != "" {
					nbad++
					if nbad <= 3 {
						r.Bad(fi.Decl, key+" field sources", prob+" ["+assumeStr(st)+"]")
					}
					continue
				}
			}
		}
		if len(tr.unsup) > 0 {
			r.Unresolved("%s: %s", name, strings.Join(tr.unsup, "; "))
		}
		if nbad == 0 {
			// one obligation per path, recorded compactly
			for i := 0; i < npaths; i++ {
				r.Census[r.cur.ID]++
			}
			r.Census[r.cur.ID]--
			r.OK(fi.Decl, fmt.Sprintf("%s (%s) body sequence", name, m.op), fmt.Sprintf("%d paths over versions 1-5 and all branch-condition combinations match the specification", npaths))
		}
	}
}

func traceHasError(ts []TraceItem) bool {
	for _, t := range ts {
		if t.Prim == "return-error" || t.Prim == "panic" || traceHasError(t.Body) {
			return true
		}
	}
	return false
}

// paramArgProblems checks that the optional query parameters are written from the fields they belong to.
func paramArgProblems(body []TraceItem) string {
	// after the flags item: [int] page size <- pageSize ; [bytes] <- pagingState ; [consistency] <- serialConsistency ;
	// [long] <- ts / Timestamp ; [string] <- keyspace
	seenFlags := false
	for _, t := range body {
		if (t.Prim == "[byte]" || t.Prim == "[int]") && strings.Contains(t.Arg, "flags") {
			seenFlags = true
			continue
		}
		if !seenFlags {
			continue
		}
		lower := strings.ToLower(t.Arg)
		switch t.Prim {
		case "[int]":
			if !strings.Contains(lower, "pagesize") {
				return "the [int] written after the flags is " + t.Arg + ", not the page size"
			}
		case "[bytes]":
			if !strings.Contains(lower, "pagingstate") {
				return "the [bytes] written after the flags is " + t.Arg + ", not the paging state"
			}
		case "[consistency]":
			if !strings.Contains(lower, "serial") {
				return "the consistency written after the flags is " + t.Arg + ", not the serial consistency"
			}
		case "[long]":
			if !strings.Contains(lower, "ts") && !strings.Contains(lower, "timestamp") {
				return "the [long] written after the flags is " + t.Arg + ", not the timestamp"
			}
		case "[string]":
			if !strings.Contains(lower, "keyspace") {
				return "the [string] written after the flags is " + t.Arg + ", not the keyspace"
			}
		}
	}
	return ""
}

func c03r5(p *Program, r *Report) {
	// appendX helpers: big-endian byte tables
	for _, w := range []struct {
		name  string
		width int
	}{{"appendShort", 2}, {"appendInt", 4}, {"appendUint", 4}, {"appendLong", 8}} {
		fi := r.NeedFunc(w.name)
		if fi == nil {
			continue
		}
		info := fi.Pkg.TypesInfo
		// interpret the helper on a symbolic value: the bytes it appends must be the value's bytes, most
		// significant first (bit provenance of every appended byte)
		se := newSymEval(p)
		var args []sval
		valName := ""
		for _, pf := range fi.Decl.Type.Params.List {
			for _, pn := range pf.Names {
				t := info.TypeOf(pf.Type)
				if _, _, isInt := se.width(t); isInt {
					valName = pn.Name
					args = append(args, sval{kind: 'i', t: tSym(pn.Name), typ: t})
				} else {
					args = append(args, sval{kind: 's', base: pn.Name, off: tConst(0), typ: t})
				}
			}
		}
		vals, okE := se.evalFunc(fi, args)
		if !okE || len(se.unsup) > 0 || len(vals) != 1 || vals[0].kind != 's' {
			r.Unresolved("%s: %s", w.name, strings.Join(se.unsup, "; "))
			continue
		}
		tail := vals[0].tail
		ok := len(tail) == w.width
		var s []string
		for i, b := range tail {
			if b.kind != 'i' {
				ok = false
				continue
			}
			pv := provenance(b.t)
			lo := -1
			for j := 0; j < 8; j++ {
				if pv[j].kind != 's' || pv[j].sym != valName {
					ok = false
					continue
				}
				if j == 0 {
					lo = pv[j].bit
				}
				if i < w.width && pv[j].bit != 8*(w.width-1-i)+j {
					ok = false
				}
			}
			s = append(s, fmt.Sprintf("byte %d = bits %d.. of %s", i, lo, valName))
		}
		r.Check(ok, fi.Decl, w.name+" is big-endian, "+itoa(w.width)+" bytes", strings.Join(s, "; "), w.name+" does not append the value as "+itoa(w.width)+" big-endian bytes: "+strings.Join(s, "; "))
	}
	// composite writers: which length prefix
	for _, w := range []struct{ name, prefix, what string }{
		{"(*framer).writeString", "(*framer).writeShort", "[string] = [short] length + bytes"},
		{"(*framer).writeLongString", "(*framer).writeInt", "[long string] = [int] length + bytes"},
		{"(*framer).writeShortBytes", "(*framer).writeShort", "[short bytes] = [short] length + bytes"},
		{"(*framer).writeBytes", "(*framer).writeInt", "[bytes] = [int] length + bytes"},
		{"(*framer).writeStringList", "(*framer).writeShort", "[string list] = [short] n + n [string]"},
		{"(*framer).writeStringMap", "(*framer).writeShort", "[string map] = [short] n + n ([string][string])"},
		{"(*framer).writeBytesMap", "(*framer).writeShort", "[bytes map] = [short] n + n ([string][bytes])"},
		{"(*framer).writeConsistency", "(*framer).writeShort", "[consistency] = [short]"},
	} {
		fi := r.NeedFunc(w.name)
		if fi == nil {
			continue
		}
		fi = writerDelegate(p, fi)
		info := fi.Pkg.TypesInfo
		first := ""
		lenArg := false
		inspectNoLit(fi.Decl.Body, func(x ast.Node) bool {
			if c, ok := x.(*ast.CallExpr); ok && first == "" {
				n := calleeName(info, c)
				// the package-level appendX(buf, v) is the same primitive as the framer's writeX(v)
				if strings.HasPrefix(n, "append") && len(n) > 6 && len(c.Args) == 2 && p.Func("(*framer).write"+n[6:]) != nil {
					first = "(*framer).write" + n[6:]
					s := exprStr(c.Args[1])
					lenArg = strings.Contains(s, "len(") || strings.Contains(s, "-1")
				}
				if strings.HasPrefix(n, "(*framer).write") {
					first = n
					if len(c.Args) == 1 {
						s := exprStr(c.Args[0])
						lenArg = strings.Contains(s, "len(") || strings.Contains(s, "-1") || w.name == "(*framer).writeConsistency"
					}
				}
			}
			return true
		})
		r.Check(first == w.prefix && lenArg, fi.Decl, w.name+": "+w.what, "length prefix written with "+strings.TrimPrefix(w.prefix, "(*framer)."), w.name+" does not start with the "+strings.TrimPrefix(w.prefix, "(*framer).")+" length prefix the specification gives for it")
	}
	// null and unset markers
	if fi := r.NeedFunc("(*framer).writeUnset"); fi != nil {
		info := fi.Pkg.TypesInfo
		ok := false
		ast.Inspect(fi.Decl.Body, func(x ast.Node) bool {
			if c, isC := x.(*ast.CallExpr); isC && isCallTo(info, c, "(*framer).writeInt") && len(c.Args) == 1 {
				if v, isK := constInt(info, c.Args[0]); isK && v == -2 {
					ok = true
				}
			}
			return true
		})
		r.Check(ok, fi.Decl, "(*framer).writeUnset writes [int] -2", "-2", "the 'not set' marker is not the [int] -2 of the specification")
	}
	if fi := r.NeedFunc("(*framer).writeBytes"); fi != nil {
		fi = writerDelegate(p, fi)
		g := p.GraphOf(fi)
		info := g.Info
		facts := g.GuardFacts()
		ok := false
		// the value: the (last) byte-slice parameter
		val := ""
		for _, pf := range fi.Decl.Type.Params.List {
			for _, pn := range pf.Names {
				if isByteSlice(info.TypeOf(pf.Type)) {
					val = pn.Name
				}
			}
		}
		ast.Inspect(fi.Decl.Body, func(x ast.Node) bool {
			if c, isC := x.(*ast.CallExpr); isC && (isCallTo(info, c, "(*framer).writeInt") && len(c.Args) == 1 || isCallTo(info, c, "appendInt") && len(c.Args) == 2) {
				if v, isK := constInt(info, c.Args[len(c.Args)-1]); isK && v == -1 {
					f, _ := facts.Before(p.stmtOf(c, fi))
					if nv, known := f.KnownStr(val + " == nil"); known && nv {
						ok = true
					}
				}
			}
			return true
		})
		r.Check(ok, fi.Decl, "(*framer).writeBytes writes [int] -1 exactly for nil", "null <=> -1", "a nil value is not written as the [int] -1 null marker (or a non-nil one is)")
	}
}

// writerDelegate: a framer writer whose whole body hands the buffer and its parameters to a package-level
// function (f.buf = appendBytes(f.buf, p)) is judged on that function's body.
func writerDelegate(p *Program, fi *FuncInfo) *FuncInfo {
	for depth := 0; depth < 3; depth++ {
		if fi.Decl.Body == nil || len(fi.Decl.Body.List) != 1 {
			return fi
		}
		as, ok := fi.Decl.Body.List[0].(*ast.AssignStmt)
		if !ok || len(as.Lhs) != 1 || len(as.Rhs) != 1 || !strings.HasSuffix(exprStr(as.Lhs[0]), ".buf") {
			return fi
		}
		c, ok := ast.Unparen(as.Rhs[0]).(*ast.CallExpr)
		if !ok || len(c.Args) < 2 || exprStr(c.Args[0]) != exprStr(as.Lhs[0]) {
			return fi
		}
		fn := calleeOf(fi.Pkg.TypesInfo, c)
		if fn == nil {
			return fi
		}
		callee := p.FuncOf(fn)
		if callee == nil || callee.Decl.Body == nil || callee.Pkg != p.Root || callee.Decl.Recv != nil {
			return fi
		}
		for _, a := range c.Args[1:] {
			if _, isId := ast.Unparen(a).(*ast.Ident); !isId {
				return fi
			}
		}
		fi = callee
	}
	return fi
}

// notationWriters: the writers of the specification's composite notations; a narrowing inside one of them is the
// notation's own (named by the writer), not its caller's.
var notationWriters = map[string]bool{
	"(*framer).writeString": true, "(*framer).writeLongString": true, "(*framer).writeShortBytes": true, "(*framer).writeBytes": true,
	"(*framer).writeStringList": true, "(*framer).writeStringMap": true, "(*framer).writeBytesMap": true,
}

func c03r7(p *Program, r *Report) {
	// every uint16(len(x)) passed to writeShort in frame writers: is there a dominating len(x) <= 65535 ?
	n := 0
	seen7 := map[string]int{}
	p.forEachFunc(false, func(fi *FuncInfo) {
		if fi.Decl.Recv == nil || !strings.HasPrefix(fi.Name, "(*framer).write") {
			return
		}
		info := fi.Pkg.TypesInfo
		ast.Inspect(fi.Decl.Body, func(x ast.Node) bool {
			c, ok := x.(*ast.CallExpr)
			if !ok || len(c.Args) != 1 {
				return true
			}
			tv, ok := info.Types[c.Fun]
			if !ok || !tv.IsType() {
				return true
			}
			b, ok := tv.Type.Underlying().(*types.Basic)
			if !ok || b.Kind() != types.Uint16 {
				return true
			}
			arg := ast.Unparen(c.Args[0])
			isLen := false
			var measured ast.Expr
			if lc, ok := arg.(*ast.CallExpr); ok && exprStr(lc.Fun) == "len" && len(lc.Args) == 1 {
				isLen, measured = true, lc.Args[0]
			}
			if id, ok := arg.(*ast.Ident); ok {
				if def := localDef(info, fi, id); def != nil {
					if lc, ok := ast.Unparen(def).(*ast.CallExpr); ok && exprStr(lc.Fun) == "len" && len(lc.Args) == 1 {
						isLen, measured = true, lc.Args[0]
					}
				}
			}
			if !isLen {
				return true
			}
			// name the construct by what is counted (type-qualified field, or the writer's parameter), not by the
			// spelling of locals: the same narrowing stays the same finding across renames and moved code
			what := exprStr(measured)
			if sel, ok := ast.Unparen(measured).(*ast.SelectorExpr); ok {
				if fv := fieldOf(info, sel); fv != nil {
					what = typeNameOf(info.TypeOf(sel.X)) + "." + fv.Name()
				}
			} else if id, ok := ast.Unparen(measured).(*ast.Ident); ok {
				if t := info.TypeOf(id); t != nil {
					what = fi.Name + " parameter:" + t.String()
				}
				// a helper that every caller hands the same field (writeExecuteParamsV1(params.values, ..)) counts
				// that field
				if v, isVar := info.Uses[id].(*types.Var); isVar && fi.Obj != nil && neverAssigned(info, fi.Decl.Body, v) && !notationWriters[fi.Name] {
					sig := fi.Obj.Type().(*types.Signature)
					for i := 0; i < sig.Params().Len(); i++ {
						if sig.Params().At(i) != v {
							continue
						}
						fields := map[string]bool{}
						for _, caller := range p.SortedFuncs() {
							if caller.Decl.Body == nil || caller.Pkg != fi.Pkg {
								continue
							}
							for _, cc := range callsIn(caller.Decl.Body) {
								if fn := calleeOf(caller.Pkg.TypesInfo, cc); fn != nil && p.FuncOf(fn) == fi && i < len(cc.Args) {
									name := "?"
									if sel, isSel := ast.Unparen(cc.Args[i]).(*ast.SelectorExpr); isSel {
										if fv := fieldOf(caller.Pkg.TypesInfo, sel); fv != nil {
											name = typeNameOf(caller.Pkg.TypesInfo.TypeOf(sel.X)) + "." + fv.Name()
										}
									}
									fields[name] = true
								}
							}
						}
						if len(fields) == 1 && !fields["?"] {
							for k := range fields {
								what = k
							}
						}
					}
				}
			}
			construct := "frame writer narrows the count of " + what + " to uint16"
			seen7[construct]++
			if seen7[construct] > 1 {
				construct = fmt.Sprintf("%s #%d", construct, seen7[construct])
			}
			n++
			g := p.GraphOf(fi)
			f, _ := g.GuardFacts().Before(c)
			d := newDBM(g, f, nil)
			ub, okUB := d.constUpper(arg)
			r.Check(okUB && ub <= 65535, c, construct, "count bounded by 65535 before narrowing", "a length is narrowed to 16 bits without a bound check: more than 65535 values/bytes are silently truncated into a malformed frame instead of being refused")
			return true
		})
	})
	if n == 0 {
		r.Unresolved("no uint16(len(..)) narrowing in frame writers")
	}
}

func c03r8(p *Program, r *Report) {
	fi := r.NeedFunc("marshalQueryValue")
	if fi == nil {
		return
	}
	g := p.GraphOf(fi)
	info := g.Info
	valueObj := paramObj(info, fi.Decl.Type, 1)
	ef := g.Events(func(st Step) []string {
		if st.Kind != StNode {
			return nil
		}
		var evs []string
		ast.Inspect(st.Node, func(n ast.Node) bool {
			if ta, ok := n.(*ast.TypeAssertExpr); ok && ta.Type != nil && exprStr(ta.Type) == "unsetColumn" && isIdentOf(info, ta.X, valueObj) {
				evs = append(evs, "unsetTest")
			}
			return true
		})
		if as, ok := st.Node.(*ast.AssignStmt); ok {
			for _, l := range as.Lhs {
				if isIdentOf(info, l, valueObj) {
					evs = append(evs, "unwrap")
				}
			}
		}
		return evs
	})
	n := 0
	ast.Inspect(fi.Decl.Body, func(x ast.Node) bool {
		as, ok := x.(*ast.AssignStmt)
		if !ok {
			return true
		}
		for _, l := range as.Lhs {
			if isIdentOf(info, l, valueObj) {
				n++
				s, _ := ef.Sol.Before(as)
				r.Check(s.Max["unsetTest"] == 0, as, "marshalQueryValue unwraps a named value before testing for unset", "value.(unsetColumn) is evaluated on the unwrapped value",
					"the unset test runs before the named value is unwrapped: NamedValue(name, UnsetValue) is marshalled as null (-1) instead of 'not set' (-2), overwriting the column with a tombstone")
			}
		}
		return true
	})
	if n == 0 {
		r.Unresolved("marshalQueryValue no longer unwraps named values")
	}
	_ = sort.Strings
	_ = token.NoPos
}
