package main

import (
	"go/ast"
	"go/token"
	"go/types"
	"strings"
)

func init() {
	register(&PropertySpec{
		ID: "C07",
		Explanation: "Structural necessary conditions of 'frames are written whole': R1 only the two contextWriter implementations touch the write side of the socket, the coalescer has exactly one flusher; R2 the direct writer writes the whole frame in one Write inside its semaphore critical section; R3 exec writes the complete buffer of a framer private to that invocation, after a successful build; " +
			"R4 the contextWriter contract: once a frame was handed over (semaphore taken / request enqueued) the caller's context is no longer consulted, so 'n==0 with a context error' really means no bytes; R5 coalescer accounting: every pending writer gets exactly one result, success only for fully written buffers, and nothing after the first cut buffer is reported written; R6 a failed write closes the connection or releases an unstarted request (=C06.R4); R7 a write failure is sticky: the writer refuses further frames before giving up its serialisation token." +
			" R7 additionally requires the failure latch to be set on every path from a socket write that may have failed to an exit of the writer; R9 the header length of every frame equals the bytes that follow it (=C18.R7)." +
			" R7 also: the failure state is examined after the write token was acquired; R10 exec hands the request's own context to the writer.",
		NotDecided: "byte-level interleaving for all split points of the underlying writes (needs the byte stream); behaviour of net.Buffers.WriteTo itself.",
		Rules: []*Rule{
			{ID: "C07.R1", Floor: 6, Doc: "single owner of the socket's write side; one flusher per coalescer", Run: c07r1},
			{ID: "C07.R2", Floor: 4, Doc: "direct writer: one Write of the whole slice, dominated by the semaphore acquire, released on every exit; deadline failure returns n=0", Run: c07r2},
			{ID: "C07.R3", Floor: 3, Doc: "exec writes framer.buf of a framer created in this invocation that has not escaped, after buildFrame succeeded", Run: c07r3},
			{ID: "C07.R4", Floor: 2, Doc: "contextWriter implementations never consult the caller's context after the frame was handed over", Run: c07r4},
			{ID: "C07.R5", Floor: 5, Doc: "coalescer accounting: exactly one result per pending writer on every path; success only under the fully-written guard; remaining counter zeroed after a cut buffer", Run: c07r5},
			{ID: "C07.R6", Floor: 1, Doc: "exec: write-error exits release (not started) or close the connection", Run: c07r6},
			{ID: "C07.R7", Floor: 2, Doc: "sticky failure: each socket write is guarded by the writer's recorded-failure state, which is set on a write error", Run: c07r7},
			{ID: "C07.R8", Floor: 1, Doc: "net.Buffers.WriteTo consumes its receiver: it runs on a private copy, the per-request accounting reads the untouched original", Run: c07r8},
			{ID: "C07.R9", Floor: 1, Doc: "frames handed to the writer are complete: the header length equals the bytes that follow it (=C18.R7)", Run: finishLength},
			{ID: "C07.R12", Floor: 3, Doc: "a waiting writer is always answered by a send: the channels that carry write results are never closed (the zero result means '0 bytes, no error')", Run: c07ResultChanNotClosed},
			{ID: "C07.R10", Floor: 1, Doc: "exec hands the request's own context to the writer, so a request cancelled while it waits for the write slot never writes", Run: c07r10},
			{ID: "C07.R11", Floor: 1, Doc: "the writers run their socket write synchronously: no goroutine started inside the write path reaches a socket write", Run: c07r11},
		},
	})
}

// writerImpls returns the writeContext implementations of the package.
func writerImpls(p *Program) []*FuncInfo {
	var out []*FuncInfo
	for _, fi := range p.SortedFuncs() {
		if fi.Obj.Name() == "writeContext" && fi.Decl.Body != nil && fi.Pkg == p.Root && fi.Decl.Recv != nil {
			out = append(out, fi)
		}
	}
	return out
}

func isSocketIface(t types.Type) bool {
	if t == nil {
		return false
	}
	nt := namedOf(t)
	if nt == nil || !types.IsInterface(nt) {
		return false
	}
	name := nt.Obj().Name()
	pkg := ""
	if nt.Obj().Pkg() != nil {
		pkg = nt.Obj().Pkg().Path()
	}
	return pkg == "net" && name == "Conn" || pkg == rootPath && name == "deadlineWriter"
}

func hasWriteMethod(t types.Type) bool {
	if t == nil {
		return false
	}
	ms := types.NewMethodSet(t)
	for i := 0; i < ms.Len(); i++ {
		if ms.At(i).Obj().Name() == "Write" {
			return true
		}
	}
	return false
}

// socketWriteSites: calls that write to the socket: X.Write(..) with X of socket interface type, or a call passing a
// socket-typed value as an argument whose parameter type has a Write method (io.Writer, deadlineWriter).
type sockSite struct {
	call    *ast.CallExpr
	kind    string // "write" | "handoff"
	callee  string
	inFunc  *FuncInfo
	sockArg ast.Expr
}

func socketSites(p *Program) []sockSite {
	var out []sockSite
	p.forEachFunc(false, func(fi *FuncInfo) {
		info := fi.Pkg.TypesInfo
		ast.Inspect(fi.Decl.Body, func(n ast.Node) bool {
			c, ok := n.(*ast.CallExpr)
			if !ok {
				return true
			}
			name := calleeName(info, c)
			if rx := recvExpr(c); rx != nil && isSocketIface(info.TypeOf(rx)) {
				sel := ast.Unparen(c.Fun).(*ast.SelectorExpr)
				if sel.Sel.Name == "Write" || sel.Sel.Name == "ReadFrom" {
					out = append(out, sockSite{c, "write", name, fi, rx})
				}
			}
			fn := calleeOf(info, c)
			if fn == nil {
				return true
			}
			sig := fn.Type().(*types.Signature)
			for i, a := range c.Args {
				if !isSocketIface(info.TypeOf(a)) {
					continue
				}
				var pt types.Type
				if i < sig.Params().Len() {
					pt = sig.Params().At(i).Type()
				} else if sig.Variadic() && sig.Params().Len() > 0 {
					pt = sig.Params().At(sig.Params().Len() - 1).Type()
				}
				if pt != nil && hasWriteMethod(pt) {
					// a function of the module that only calls non-writing methods on the socket it is given (moves a
					// deadline) and neither keeps nor passes it on is not a second writer
					if callee := p.FuncOf(fn); callee != nil && callee.Decl.Body != nil && callee.Pkg == p.Root && i < sig.Params().Len() {
						pv := sig.Params().At(i)
						cinfo := callee.Pkg.TypesInfo
						harmless, uses := true, 0
						ast.Inspect(callee.Decl.Body, func(x ast.Node) bool {
							id, isId := x.(*ast.Ident)
							if !isId || cinfo.Uses[id] != types.Object(pv) {
								return true
							}
							uses++
							sel, isSel := p.Parent(id).(*ast.SelectorExpr)
							if !isSel || sel.X != ast.Expr(id) {
								harmless = false
								return true
							}
							call, isCall := p.Parent(sel).(*ast.CallExpr)
							if !isCall || call.Fun != ast.Expr(sel) {
								harmless = false
								return true
							}
							switch sel.Sel.Name {
							case "Write", "ReadFrom", "WriteTo", "WriteString", "Close":
								harmless = false
							}
							return true
						})
						if harmless && uses > 0 {
							continue
						}
					}
					out = append(out, sockSite{c, "handoff", name, fi, a})
				}
			}
			return true
		})
	})
	return out
}

func c07r1(p *Program, r *Report) {
	allowedWrite := map[string]bool{"(*deadlineContextWriter).writeContext": true, "(*writeCoalescer).flush": true}
	allowedHandoff := map[string]map[string]string{
		"(*writeCoalescer).flush":       {"net.(*Buffers).WriteTo": "vectored write by the single flusher"},
		"(*Conn).init":                  {"newWriteCoalescer": "ownership moves to the coalescer, replacing the direct writer"},
		"(*defaultHostDialer).DialHost": {"WrapTLS": "connection construction: the raw socket is wrapped before any Conn exists"},
		"WrapTLS":                       {"tls.Client": "connection construction: the raw socket is wrapped before any Conn exists"},
	}
	n := 0
	for _, s := range socketSites(p) {
		n++
		switch s.kind {
		case "write":
			okW := allowedWrite[s.inFunc.Name]
			if !okW {
				// a helper that one of the two writers was split into (and nobody else calls)
				for aname := range allowedWrite {
					if af := p.Func(aname); af != nil {
						units := p.unitsOf(af)
						for _, u := range units[1:] {
							if u == s.inFunc && p.onlyCalledWithin(u, units) {
								okW = true
							}
						}
					}
				}
			}
			r.Check(okW, s.call, s.inFunc.Name+" writes to socket via "+exprStr(s.call.Fun),
				"one of the two serialised writers", "the socket is written outside the two contextWriter implementations: frames of concurrent requests can interleave")
		case "handoff":
			_, ok := allowedHandoff[s.inFunc.Name][s.callee]
			if !ok {
				// the same hand-off made through / inside a private helper of an allowed construction function
				for aname, callees := range allowedHandoff {
					af := p.Func(aname)
					if af == nil {
						continue
					}
					units := p.unitsOf(af)
					inUnits := func(f *FuncInfo) bool {
						for _, u := range units[1:] {
							if u == f && p.onlyCalledWithin(f, units) {
								return true
							}
						}
						return false
					}
					calleeFn := p.Func(s.callee)
					switch {
					case s.inFunc == af && calleeFn != nil && inUnits(calleeFn):
						ok = true // handed to its own helper
					case inUnits(s.inFunc):
						if _, allowed := callees[s.callee]; allowed || calleeFn != nil && inUnits(calleeFn) {
							ok = true
						}
					}
				}
			}
			r.Check(ok, s.call, s.inFunc.Name+" hands the socket to "+s.callee,
				"allowed hand-off", "the write side of the socket is handed to "+s.callee+" from "+s.inFunc.Name+": a second writer bypasses the serialisation")
		}
	}
	// struct literals that capture the socket as a writer: only the two writer types, only in their constructors
	p.forEachFunc(false, func(fi *FuncInfo) {
		info := fi.Pkg.TypesInfo
		ast.Inspect(fi.Decl.Body, func(x ast.Node) bool {
			cl, ok := x.(*ast.CompositeLit)
			if !ok {
				return true
			}
			tn := typeNameOf(info.TypeOf(cl))
			if tn != "writeCoalescer" && tn != "deadlineContextWriter" {
				return true
			}
			n++
			want := map[string]string{"writeCoalescer": "newWriteCoalescer", "deadlineContextWriter": "(*Session).dialWithoutObserver"}[tn]
			r.Check(fi.Name == want, cl, fi.Name+" constructs "+tn, "constructed only in "+want, tn+" constructed outside "+want+": a second writer (or a coalescer without its flusher) for the same socket")
			return true
		})
	})
	// flusher chain: flush <- writeFlusherImpl <- writeFlusher <- go in newWriteCoalescer
	chain := []struct{ callee, caller string }{
		{"(*writeCoalescer).flush", "(*writeCoalescer).writeFlusherImpl"},
		{"(*writeCoalescer).writeFlusherImpl", "(*writeCoalescer).writeFlusher"},
		{"(*writeCoalescer).writeFlusher", "newWriteCoalescer"},
	}
	for _, ch := range chain {
		cnt := 0
		p.forEachFunc(false, func(fi *FuncInfo) {
			info := fi.Pkg.TypesInfo
			ast.Inspect(fi.Decl.Body, func(x ast.Node) bool {
				c, ok := x.(*ast.CallExpr)
				if !ok || !isCallTo(info, c, ch.callee) {
					return true
				}
				cnt++
				n++
				okc := fi.Name == ch.caller
				if ch.caller == "newWriteCoalescer" {
					_, isGo := p.Parent(c).(*ast.GoStmt)
					okc = okc && isGo && !p.inLoop(c, fi.Decl)
				}
				r.Check(okc, c, fi.Name+" calls "+ch.callee, "single flusher chain", ch.callee+" must only be reached from "+ch.caller+" (one flusher goroutine per coalescer owns the socket)")
				return true
			})
		})
		if cnt != 1 {
			r.Check(false, nil, "call sites of "+ch.callee, "", "expected exactly one call site, found "+itoa(cnt))
		}
	}
	if n == 0 {
		r.Unresolved("no socket write sites found")
	}
}

func itoa(i int) string {
	return strings.TrimSpace(strings.Replace(strings.Repeat(" ", 0)+fmtInt(i), "\n", "", -1))
}

func fmtInt(i int) string {
	if i == 0 {
		return "0"
	}
	neg := i < 0
	if neg {
		i = -i
	}
	s := ""
	for i > 0 {
		s = string(rune('0'+i%10)) + s
		i /= 10
	}
	if neg {
		s = "-" + s
	}
	return s
}

func c07r2(p *Program, r *Report) {
	fi := r.NeedFunc("(*deadlineContextWriter).writeContext")
	if fi == nil {
		return
	}
	g := p.GraphOfInl(fi)
	info := g.Info
	// the semaphore: the chan struct{} field of the writer that the writer sends into (whatever it is called)
	var semField *types.Var
	for _, u := range g.Units() {
		ast.Inspect(u.Decl.Body, func(n ast.Node) bool {
			if s, ok := n.(*ast.SendStmt); ok && semField == nil {
				if fv := fieldOf(info, s.Chan); fv != nil {
					if owner := p.NamedType("deadlineContextWriter"); owner != nil {
						if st, isSt := owner.Underlying().(*types.Struct); isSt {
							for i := 0; i < st.NumFields(); i++ {
								if st.Field(i) == fv {
									semField = fv
								}
							}
						}
					}
				}
			}
			return true
		})
	}
	if semField == nil {
		r.Unresolved("deadlineContextWriter: no channel field that the writer sends into (the write semaphore)")
		return
	}
	ef := g.Events(func(st Step) []string {
		switch st.Kind {
		case StComm:
			cc := st.Clause.(*ast.CommClause)
			if s, ok := cc.Comm.(*ast.SendStmt); ok && fieldOf(info, s.Chan) == semField {
				return []string{"acquire"}
			}
		case StNode:
			if cc, ok := p.Parent(st.Node).(*ast.CommClause); ok && cc.Comm == st.Node {
				return nil
			}
			var evs []string
			node := st.Node
			if d, ok := node.(*ast.DeferStmt); ok {
				if lit, ok := d.Call.Fun.(*ast.FuncLit); ok {
					node = lit.Body
				} else {
					node = d.Call
				}
			}
			if s, ok := node.(*ast.SendStmt); ok && fieldOf(info, s.Chan) == semField {
				evs = append(evs, "acquire")
			}
			for _, ch := range recvsIn(node) {
				if fieldOf(info, ch) == semField {
					evs = append(evs, "release")
				}
			}
			for _, c := range callsIn(node) {
				if rx := recvExpr(c); rx != nil && isSocketIface(info.TypeOf(rx)) {
					switch ast.Unparen(c.Fun).(*ast.SelectorExpr).Sel.Name {
					case "Write":
						evs = append(evs, "sockWrite")
					case "SetWriteDeadline":
						evs = append(evs, "setDeadline")
					}
				}
			}
			return evs
		}
		return nil
	})
	pobj := paramObj(info, fi.Decl.Type, 1)
	isBufParam := func(u *FuncInfo, e ast.Expr) bool {
		if isIdentOf(info, e, pobj) {
			return true
		}
		rf, re := p.resolveValue(u, e, 0)
		return rf == fi && isIdentOf(info, re, pobj)
	}
	nw := 0
	for _, u := range g.Units() {
		u := u
		ast.Inspect(u.Decl.Body, func(n ast.Node) bool {
			c, ok := n.(*ast.CallExpr)
			if !ok {
				return true
			}
			rx := recvExpr(c)
			if rx == nil || !isSocketIface(info.TypeOf(rx)) || ast.Unparen(c.Fun).(*ast.SelectorExpr).Sel.Name != "Write" {
				return true
			}
			nw++
			s, ok := ef.Sol.Before(c)
			r.Check(ok && s.Must["acquire"] && s.Max["release"] == 0, c, "(*deadlineContextWriter).writeContext Write inside critical section",
				"semaphore held at the Write", "the socket Write is not dominated by the semaphore acquire (or the semaphore was already released): two frames can interleave")
			r.Check(len(c.Args) == 1 && isBufParam(u, c.Args[0]) && !p.inLoop(c, u.Decl) && s.Max["sockWrite"] == 0, c, "(*deadlineContextWriter).writeContext single whole-slice Write",
				"one Write of the whole parameter p", "the frame is not written by a single Write of the whole slice (split or repeated writes let another frame in between, or lose the byte count)")
			return true
		})
	}
	if nw == 0 {
		r.Unresolved("no socket Write in (*deadlineContextWriter).writeContext")
	}
	for _, e := range g.ExitsInl() {
		s, ok := ef.ExitState(e)
		if !ok || e.Kind == ExitPanic {
			continue
		}
		if rs, isR := e.Node.(*ast.ReturnStmt); isR && len(rs.Results) == 1 {
			if c, isC := ast.Unparen(rs.Results[0]).(*ast.CallExpr); isC && g.inl.calls[c] {
				// `return helper(...)`: the values come from the helper's own returns; only the release is checked here
				if s.Max["acquire"] > 0 {
					r.Check(s.Must["acquire"] && s.Must["release"] && s.Max["release"] == 1, e.Node, "(*deadlineContextWriter).writeContext exit "+exitDesc(p, e)+" releases semaphore",
						"released exactly once (defer)", "an exit after the acquire does not release the semaphore exactly once: all later writers block forever (or the semaphore is over-released)")
				}
				continue
			}
		}
		if g.unitOf(e.Node) != fi {
			// a return of a helper in tail position: the release happens in the anchor (checked at its own exit)
			if s.Must["setDeadline"] && s.Max["sockWrite"] == 0 {
				if rs, ok := e.Node.(*ast.ReturnStmt); ok && len(rs.Results) == 2 {
					v, isC := constInt(info, rs.Results[0])
					r.Check(isC && v == 0, e.Node, "(*deadlineContextWriter).writeContext deadline-failure exit", "n=0 when nothing was written", "SetWriteDeadline failure path reports bytes written")
				}
			}
			continue
		}
		if s.Max["acquire"] > 0 {
			r.Check(s.Must["acquire"] && s.Must["release"] && s.Max["release"] == 1, e.Node, "(*deadlineContextWriter).writeContext exit "+exitDesc(p, e)+" releases semaphore",
				"released exactly once (defer)", "an exit after the acquire does not release the semaphore exactly once: all later writers block forever (or the semaphore is over-released)")
		} else if rs, ok := e.Node.(*ast.ReturnStmt); ok && len(rs.Results) == 2 {
			v, isC := constInt(info, rs.Results[0])
			r.Check(isC && v == 0, e.Node, "(*deadlineContextWriter).writeContext not-started exit "+exitDesc(p, e), "returns n=0", "a return before the write started reports n != 0")
		}
		// deadline failure: after setDeadline but before sockWrite, n must be 0
		if s.Must["setDeadline"] && s.Max["sockWrite"] == 0 {
			if rs, ok := e.Node.(*ast.ReturnStmt); ok && len(rs.Results) == 2 {
				v, isC := constInt(info, rs.Results[0])
				r.Check(isC && v == 0, e.Node, "(*deadlineContextWriter).writeContext deadline-failure exit", "n=0 when nothing was written", "SetWriteDeadline failure path reports bytes written")
			}
		}
	}
}

func c07r3(p *Program, r *Report) {
	fi := r.NeedFunc("(*Conn).exec")
	if fi == nil {
		return
	}
	info := fi.Pkg.TypesInfo
	var framerObj types.Object
	ast.Inspect(fi.Decl.Body, func(n ast.Node) bool {
		as, ok := n.(*ast.AssignStmt)
		if ok && len(as.Rhs) == 1 {
			if c, ok := ast.Unparen(as.Rhs[0]).(*ast.CallExpr); ok && isCallTo(info, c, "newFramer") {
				if id, ok := as.Lhs[0].(*ast.Ident); ok && info.Defs[id] != nil {
					framerObj = info.Defs[id]
				}
			}
		}
		return true
	})
	if framerObj == nil {
		r.Unresolved("exec: no local framer := newFramer(...)")
		return
	}
	r.Check(singleAssigned(info, fi.Decl.Body, framerObj), fi.Decl, "(*Conn).exec request framer is fresh and single-assigned", "framer created in this invocation", "the request framer variable is re-assigned or address-taken")
	nw := 0
	var writePos token.Pos
	ast.Inspect(fi.Decl.Body, func(n ast.Node) bool {
		c, ok := n.(*ast.CallExpr)
		if !ok || calleeName(info, c) != "contextWriter.writeContext" {
			return true
		}
		nw++
		writePos = c.Pos()
		okArg := false
		if len(c.Args) == 2 {
			if sel, ok := ast.Unparen(c.Args[1]).(*ast.SelectorExpr); ok && p.isField(info, sel, "framer", "buf") && isIdentOf(info, sel.X, framerObj) {
				okArg = true
			}
		}
		r.Check(okArg && !p.inLoop(c, fi.Decl), c, "(*Conn).exec writes the whole framer.buf once", "the complete buffer of this invocation's framer is written in one call",
			"exec does not pass the whole buffer of its own framer to a single writeContext call ("+exprStr(c.Args[len(c.Args)-1])+")")
		return true
	})
	if nw != 1 {
		r.Check(false, fi.Decl, "(*Conn).exec single writeContext call", "", "expected exactly one writeContext call in exec, found "+itoa(nw))
		return
	}
	// framer must not escape before the write: no go/send/field-store mentioning it before writePos
	escaped := ""
	ast.Inspect(fi.Decl.Body, func(n ast.Node) bool {
		if n == nil || n.Pos() >= writePos {
			return true
		}
		switch s := n.(type) {
		case *ast.GoStmt:
			ast.Inspect(s, func(m ast.Node) bool {
				if id, ok := m.(*ast.Ident); ok && info.Uses[id] == framerObj {
					escaped = "captured by a goroutine at " + p.Pos(s)
				}
				return true
			})
		case *ast.SendStmt:
			ast.Inspect(s.Value, func(m ast.Node) bool {
				if id, ok := m.(*ast.Ident); ok && info.Uses[id] == framerObj {
					escaped = "sent on a channel at " + p.Pos(s)
				}
				return true
			})
		case *ast.AssignStmt:
			for i, rhs := range s.Rhs {
				if isIdentOf(info, rhs, framerObj) && i < len(s.Lhs) {
					if _, isSel := ast.Unparen(s.Lhs[i]).(*ast.SelectorExpr); isSel {
						escaped = "stored into " + exprStr(s.Lhs[i]) + " at " + p.Pos(s)
					}
				}
			}
		}
		return true
	})
	r.Check(escaped == "", fi.Decl, "(*Conn).exec framer private until written", "no other goroutine can reach the framer before the write returns", "the request framer is "+escaped+" before it is written: its buffer can change under the writer")
}

func c07r4(p *Program, r *Report) {
	impls := writerImpls(p)
	if len(impls) < 2 {
		r.Unresolved("expected 2 writeContext implementations, found %d", len(impls))
	}
	for _, fi := range impls {
		fi := fi
		g := p.GraphOfInl(fi)
		info := g.Info
		ctxObj := paramObj(info, fi.Decl.Type, 0)
		// isCtx: e is the writer's context parameter, or the parameter of a helper it was handed to
		isCtx := func(e ast.Expr) bool {
			if isIdentOf(info, e, ctxObj) {
				return true
			}
			if id, ok := ast.Unparen(e).(*ast.Ident); ok {
				u := g.unitOf(id)
				if u != fi {
					rf, re := p.resolveValue(u, id, 0)
					return rf == fi && isIdentOf(info, re, ctxObj)
				}
			}
			return false
		}
		isCtxUse := func(n ast.Node) bool {
			found := false
			inspectNoLit(n, func(x ast.Node) bool {
				if c, ok := x.(*ast.CallExpr); ok {
					if sel, ok := ast.Unparen(c.Fun).(*ast.SelectorExpr); ok && isCtx(sel.X) && (sel.Sel.Name == "Done" || sel.Sel.Name == "Err") {
						found = true
					}
				}
				return true
			})
			return found
		}
		ef := g.Events(func(st Step) []string {
			switch st.Kind {
			case StComm:
				cc := st.Clause.(*ast.CommClause)
				if _, ok := cc.Comm.(*ast.SendStmt); ok {
					return []string{"handedOver"}
				}
				if isCtxUse(cc.Comm) {
					return []string{"ctxUse"}
				}
			case StNode:
				if cc, ok := p.Parent(st.Node).(*ast.CommClause); ok && cc.Comm == st.Node {
					return nil
				}
				if _, ok := st.Node.(*ast.SendStmt); ok {
					return []string{"handedOver"}
				}
			}
			return nil
		})
		nsend := 0
		// every use of ctx (Done in a select comm, Err in a return) must be before any hand-over
		for _, u := range g.Units() {
			u := u
			ast.Inspect(u.Decl.Body, func(n ast.Node) bool {
				c, ok := n.(*ast.CallExpr)
				if !ok {
					return true
				}
				sel, ok := ast.Unparen(c.Fun).(*ast.SelectorExpr)
				if !ok || !isCtx(sel.X) || (sel.Sel.Name != "Done" && sel.Sel.Name != "Err") {
					return true
				}
				var s EvState
				var reach bool
				if cc := enclosingCommOf(p, c, u.Decl); cc != nil {
					s, reach = ef.Sol.Before(cc.Comm)
				} else {
					s, reach = ef.Sol.Before(c)
				}
				if !reach {
					return true
				}
				nsend++
				r.Check(s.Max["handedOver"] == 0, c, fi.Name+" use of ctx."+sel.Sel.Name+"()", "context consulted only before the frame is handed over",
					"the caller's context is consulted after the frame was handed to the writer (semaphore taken / request enqueued): writeContext can return n=0 with a context error although the frame is (or will be) on the wire, and exec then releases its stream id")
				return true
			})
		}
		if nsend == 0 {
			r.Bad(fi.Decl, fi.Name+" honours ctx before writing", "writeContext never looks at its context: a cancelled request still writes")
		}
		// after hand-over the result must come from the writer: every return after handedOver must not be a constant-0 + ctx error; covered by the rule above.
	}
}

// pathSends computes (min,max) number of matching sends over all paths through one iteration of a loop
// body; `continue`, `break` and `return` end a path.
func pathSends(info *types.Info, stmts []ast.Stmt, match func(*ast.SendStmt) bool) (min, max int) {
	type set map[int]bool
	capAdd := func(a, b int) int {
		if a+b > 2 {
			return 2
		}
		return a + b
	}
	var walk func(stmts []ast.Stmt, in set) (fall set, term set)
	walk = func(stmts []ast.Stmt, in set) (set, set) {
		cur, term := in, set{}
		for _, s := range stmts {
			if len(cur) == 0 {
				break
			}
			switch x := s.(type) {
			case *ast.SendStmt:
				if match(x) {
					n := set{}
					for c := range cur {
						n[capAdd(c, 1)] = true
					}
					cur = n
				}
			case *ast.BranchStmt, *ast.ReturnStmt:
				for c := range cur {
					term[c] = true
				}
				cur = set{}
			case *ast.IfStmt:
				tf, tt := walk(x.Body.List, cur)
				var ef, et set
				switch e := x.Else.(type) {
				case *ast.BlockStmt:
					ef, et = walk(e.List, cur)
				case *ast.IfStmt:
					ef, et = walk([]ast.Stmt{e}, cur)
				default:
					ef, et = cur, set{}
				}
				n := set{}
				for c := range tf {
					n[c] = true
				}
				for c := range ef {
					n[c] = true
				}
				for c := range tt {
					term[c] = true
				}
				for c := range et {
					term[c] = true
				}
				cur = n
			case *ast.BlockStmt:
				f, t := walk(x.List, cur)
				for c := range t {
					term[c] = true
				}
				cur = f
			case *ast.ForStmt, *ast.RangeStmt, *ast.SelectStmt, *ast.SwitchStmt, *ast.TypeSwitchStmt:
				cnt := 0
				ast.Inspect(x, func(n ast.Node) bool {
					if ss, ok := n.(*ast.SendStmt); ok && match(ss) {
						cnt++
					}
					return true
				})
				if cnt > 0 {
					n := set{}
					for c := range cur {
						n[c] = true
						n[capAdd(c, 2)] = true
					}
					cur = n
				}
			}
		}
		return cur, term
	}
	fall, term := walk(stmts, set{0: true})
	min, max = 99, -1
	for _, st := range []set{fall, term} {
		for c := range st {
			if c < min {
				min = c
			}
			if c > max {
				max = c
			}
		}
	}
	if max < 0 {
		return 0, 0
	}
	return
}

func c07r5(p *Program, r *Report) {
	fl := r.NeedFunc("(*writeCoalescer).flush")
	impl := r.NeedFunc("(*writeCoalescer).writeFlusherImpl")
	if fl == nil || impl == nil {
		return
	}
	isResultChanSend := func(info *types.Info) func(*ast.SendStmt) bool {
		return func(s *ast.SendStmt) bool {
			t := info.TypeOf(s.Chan)
			if t == nil {
				return false
			}
			ch, ok := t.Underlying().(*types.Chan)
			return ok && typeNameOf(ch.Elem()) == "writeResult"
		}
	}
	// the functions that deliver results: flush, the flusher loop and the private helpers they were split into
	sendsResults := func(fi *FuncInfo) bool {
		has := false
		m := isResultChanSend(fi.Pkg.TypesInfo)
		ast.Inspect(fi.Decl.Body, func(x ast.Node) bool {
			if s, ok := x.(*ast.SendStmt); ok && m(s) {
				has = true
			}
			return true
		})
		return has
	}
	scope := []*FuncInfo{fl, impl}
	helperLoops := map[*FuncInfo]int{}
	for _, root := range []*FuncInfo{fl, impl} {
		for _, h := range p.privateCallees(root) {
			if sendsResults(h) {
				dup := false
				for _, x := range scope {
					if x == h {
						dup = true
					}
				}
				if !dup {
					scope = append(scope, h)
				}
			}
		}
	}
	// loops that send results: each iteration sends exactly one
	for _, fi := range scope {
		info := fi.Pkg.TypesInfo
		m := isResultChanSend(info)
		nloops := 0
		ast.Inspect(fi.Decl.Body, func(n ast.Node) bool {
			var body *ast.BlockStmt
			switch l := n.(type) {
			case *ast.RangeStmt:
				body = l.Body
			case *ast.ForStmt:
				if l.Cond == nil {
					return true // the flusher's outer loop
				}
				body = l.Body
			default:
				return true
			}
			has := false
			ast.Inspect(body, func(x ast.Node) bool {
				if s, ok := x.(*ast.SendStmt); ok && m(s) {
					has = true
				}
				return true
			})
			if !has {
				return true
			}
			nloops++
			mn, mx := pathSends(info, body.List, m)
			r.Check(mn == 1 && mx == 1, n, fi.Name+" result loop sends exactly one result per writer", "one result per iteration on every path",
				"a path through this loop body sends "+itoa(mn)+".."+itoa(mx)+" results for one pending writer (0: the writer blocks forever; 2: the flusher blocks on the full channel)")
			return false
		})
		helperLoops[fi] = nloops
		if nloops == 0 {
			// the loops of flush / the flusher may have moved into helpers
			moved := false
			for _, h := range p.privateCallees(fi) {
				if sendsResults(h) {
					moved = true
				}
			}
			if !moved {
				r.Unresolved("%s: no result-delivery loop found", fi.Name)
			}
		}
		// sends outside loops are not allowed (a single send cannot serve all pending writers)
		ast.Inspect(fi.Decl.Body, func(n ast.Node) bool {
			s, ok := n.(*ast.SendStmt)
			if !ok || !m(s) {
				return true
			}
			inRange := p.enclosing(s, fi.Decl, func(x ast.Node) bool {
				switch l := x.(type) {
				case *ast.RangeStmt:
					return true
				case *ast.ForStmt:
					return l.Cond != nil
				}
				return false
			}) != nil
			if !inRange && !singleWriterSend(p, fi, s) {
				r.Bad(s, fi.Name+" result sent outside a per-writer loop", "a result is sent outside a loop over the pending writers")
			}
			return true
		})
	}
	// flush: every return is preceded by a delivery loop (all pending writers served): returns only directly after a loop or at end
	{
		info := fl.Pkg.TypesInfo
		m := isResultChanSend(info)
		g := p.GraphOf(fl)
		ef := g.Events(func(st Step) []string {
			if st.Kind == StNode {
				if s, ok := st.Node.(*ast.SendStmt); ok && m(s) {
					if singleWriterSend(p, fl, s) {
						return []string{"delivered", "loopDone"}
					}
					return []string{"delivered"}
				}
			}
			loopSends := func(body *ast.BlockStmt) bool {
				has := false
				ast.Inspect(body, func(x ast.Node) bool {
					if s, ok := x.(*ast.SendStmt); ok && m(s) {
						has = true
					}
					return true
				})
				return has
			}
			if st.Kind == StRange && !st.Val {
				if rs, ok := st.Node.(*ast.RangeStmt); ok && loopSends(rs.Body) {
					return []string{"loopDone"}
				}
			}
			if st.Kind == StCond && !st.Val {
				if f, ok := p.Parent(st.Node).(*ast.ForStmt); ok && f.Cond == st.Node && loopSends(f.Body) {
					return []string{"loopDone"}
				}
			}
			return nil
		})
		for _, e := range g.Exits() {
			s, ok := ef.ExitState(e)
			if !ok || e.Kind == ExitPanic {
				continue
			}
			r.Check(s.Must["loopDone"], e.Node, "(*writeCoalescer).flush exit "+exitDesc(p, e)+" after delivery loop", "all pending writers were served before returning",
				"flush can return without running a delivery loop over the pending writers: they wait forever")
		}
		_ = info
	}
	// success result only under the fully-written guard; budget consumed / zeroed before the next iteration.
	// Decided in whichever function of the scope sends the success results (flush itself or a helper that
	// receives the byte count as a parameter).
	{
		countersOf := map[*FuncInfo]map[types.Object]bool{}
		for _, fi := range scope {
			countersOf[fi] = map[types.Object]bool{}
		}
		// seeds: variables assigned from net.Buffers.WriteTo
		for _, fi := range scope {
			info := fi.Pkg.TypesInfo
			ast.Inspect(fi.Decl.Body, func(n ast.Node) bool {
				as, ok := n.(*ast.AssignStmt)
				if !ok || len(as.Rhs) != 1 {
					return true
				}
				if c, ok := ast.Unparen(as.Rhs[0]).(*ast.CallExpr); ok && calleeName(info, c) == "net.(*Buffers).WriteTo" {
					if id, ok := as.Lhs[0].(*ast.Ident); ok {
						if o := info.Defs[id]; o != nil {
							countersOf[fi][o] = true
						} else if o := info.Uses[id]; o != nil {
							countersOf[fi][o] = true
						}
					}
				}
				return true
			})
		}
		for changed := true; changed; {
			changed = false
			for _, fi := range scope {
				info := fi.Pkg.TypesInfo
				counters := countersOf[fi]
				ast.Inspect(fi.Decl.Body, func(n ast.Node) bool {
					switch x := n.(type) {
					case *ast.AssignStmt:
						if len(x.Lhs) != 1 || len(x.Rhs) != 1 || (x.Tok != token.DEFINE && x.Tok != token.ASSIGN) {
							return true
						}
						if rid, ok := ast.Unparen(x.Rhs[0]).(*ast.Ident); ok && counters[info.Uses[rid]] {
							if lid, ok := x.Lhs[0].(*ast.Ident); ok {
								o := info.Defs[lid]
								if o == nil {
									o = info.Uses[lid]
								}
								if o != nil && !counters[o] {
									counters[o] = true
									changed = true
								}
							}
						}
					case *ast.CallExpr:
						// a counter passed to a helper of the scope: the parameter is a counter there
						fn := calleeOf(info, x)
						if fn == nil {
							return true
						}
						callee := p.FuncOf(fn)
						if callee == nil || countersOf[callee] == nil {
							return true
						}
						k := 0
						for _, pf := range callee.Decl.Type.Params.List {
							for _, pn := range pf.Names {
								if k < len(x.Args) {
									if aid, ok := ast.Unparen(x.Args[k]).(*ast.Ident); ok && counters[info.Uses[aid]] {
										if po := callee.Pkg.TypesInfo.Defs[pn]; po != nil && !countersOf[callee][po] {
											countersOf[callee][po] = true
											changed = true
										}
									}
								}
								k++
							}
						}
					}
					return true
				})
			}
		}
		nsuccAll := 0
		for _, fl := range scope {
			info := fl.Pkg.TypesInfo
			m := isResultChanSend(info)
			g := p.GraphOf(fl)
			counters := countersOf[fl]
			isCounter := func(e ast.Expr) bool {
				id, ok := ast.Unparen(e).(*ast.Ident)
				return ok && counters[info.Uses[id]]
			}
			counterNames := map[string]bool{}
			for o := range counters {
				counterNames[o.Name()] = true
			}
			classify := func(s *ast.SendStmt) string { // "ok" | "fail" | ""
				if !m(s) {
					return ""
				}
				cl, ok := ast.Unparen(s.Value).(*ast.CompositeLit)
				if !ok {
					return "fail"
				}
				for _, el := range cl.Elts {
					if kv, ok := el.(*ast.KeyValueExpr); ok && exprStr(kv.Key) == "err" && !isNil(info, kv.Value) {
						return "fail"
					}
				}
				return "ok"
			}
			facts := g.GuardFacts()
			type budget struct{ unreduced, unzeroed bool }
			bs := Solve(g, Lattice[budget]{
				Join: func(a, b budget) budget { return budget{a.unreduced || b.unreduced, a.unzeroed || b.unzeroed} },
				Eq:   func(a, b budget) bool { return a == b },
				Step: func(st budget, step Step) budget {
					if step.Kind != StNode {
						return st
					}
					switch x := step.Node.(type) {
					case *ast.SendStmt:
						switch classify(x) {
						case "ok":
							st.unreduced = true
						case "fail":
							st.unzeroed = true
						}
					case *ast.AssignStmt:
						if len(x.Lhs) == 1 && isCounter(x.Lhs[0]) {
							if x.Tok == token.SUB_ASSIGN {
								st.unreduced = false
							}
							if x.Tok == token.ASSIGN {
								if v, ok := constInt(info, x.Rhs[0]); ok && v == 0 {
									st.unzeroed = false
								}
								if b, ok := ast.Unparen(x.Rhs[0]).(*ast.BinaryExpr); ok && b.Op == token.SUB && isCounter(b.X) {
									st.unreduced = false
								}
							}
						}
					}
					return st
				},
			})
			nsucc, nfail := 0, 0
			ast.Inspect(fl.Decl.Body, func(n ast.Node) bool {
				s, ok := n.(*ast.SendStmt)
				if !ok {
					return true
				}
				switch classify(s) {
				case "ok":
					// only sends that happen after the write count (the early error loops never report success)
					nsucc++
					f, _ := facts.Before(s)
					okGuard := false
					for atom, v := range f.m {
						// "<counter> < <size>" known false  ==  size <= counter
						if i := strings.Index(atom, " < "); i > 0 && !v && counterNames[atom[:i]] {
							okGuard = true
						}
					}
					r.Check(okGuard, s, "(*writeCoalescer).flush success result guarded", "success reported only when the buffer's length <= bytes remaining",
						"a nil-error result is sent without the guard len(buffer) <= remaining bytes: a writer is told its frame was written although it was cut")
				case "fail":
					nfail++
				}
				return true
			})
			nsuccAll += nsucc
			// at the start of every iteration of a result loop the budget must be consistent
			ast.Inspect(fl.Decl.Body, func(n ast.Node) bool {
				rs, ok := n.(*ast.RangeStmt)
				if !ok {
					return true
				}
				hasOK := false
				ast.Inspect(rs.Body, func(x ast.Node) bool {
					if s, ok := x.(*ast.SendStmt); ok && classify(s) == "ok" {
						hasOK = true
					}
					return true
				})
				if !hasOK || len(rs.Body.List) == 0 {
					return true
				}
				st, ok := bs.Before(g.FirstNodeIn(rs.Body.List[0]))
				if !ok {
					return true
				}
				r.Check(!st.unreduced, rs, "(*writeCoalescer).flush consumes the byte budget", "remaining bytes reduced by each fully written buffer before the next one is judged",
					"the remaining-bytes counter is not reduced after a fully written buffer: later buffers are reported written from the same bytes")
				r.Check(!st.unzeroed, rs, "(*writeCoalescer).flush zeroes the budget after a cut buffer", "remaining bytes = 0 once a buffer was cut",
					"after the first partially written buffer the remaining-bytes counter is not zeroed: a later, shorter buffer in the same batch is reported written although none of its bytes were")
				return true
			})
		}
		if nsuccAll == 0 {
			r.Unresolved("coalescer: no success result send found in flush or its helpers")
		}
	}
	// writeFlusherImpl: buffers and resultChans appended pairwise in the same clause
	{
		info := impl.Pkg.TypesInfo
		ok1 := false
		ast.Inspect(impl.Decl.Body, func(n ast.Node) bool {
			cc, ok := n.(*ast.CommClause)
			if !ok {
				return true
			}
			nb, nr := 0, 0
			stmts := append([]ast.Stmt{}, cc.Body...)
			// a helper called from the clause that does the enqueueing
			for _, st := range cc.Body {
				if es, ok := st.(*ast.ExprStmt); ok {
					if c, ok := es.X.(*ast.CallExpr); ok {
						if fn := calleeOf(info, c); fn != nil {
							if h := p.FuncOf(fn); h != nil && h.Pkg == p.Root && h.Decl.Body != nil {
								stmts = append(stmts, h.Decl.Body.List...)
							}
						}
					}
				}
			}
			for _, st := range stmts {
				if as, ok := st.(*ast.AssignStmt); ok && len(as.Rhs) == 1 {
					if c, ok := as.Rhs[0].(*ast.CallExpr); ok && calleeName(info, c) == "builtin.append" {
						t := info.TypeOf(as.Lhs[0])
						if typeNameOf(t) == "Buffers" {
							nb++
						} else if sl, ok := t.Underlying().(*types.Slice); ok {
							if ch, ok := sl.Elem().Underlying().(*types.Chan); ok && typeNameOf(ch.Elem()) == "writeResult" {
								nr++
							}
							// one queue of requests, each carrying its frame and its result channel
							if st, ok := sl.Elem().Underlying().(*types.Struct); ok {
								hasBuf, hasCh := false, false
								for i := 0; i < st.NumFields(); i++ {
									ft := st.Field(i).Type()
									if isByteSlice(ft) {
										hasBuf = true
									}
									if ch, isCh := ft.Underlying().(*types.Chan); isCh && typeNameOf(ch.Elem()) == "writeResult" {
										hasCh = true
									}
								}
								if hasBuf && hasCh {
									nb++
									nr++
								}
							}
						}
					}
				}
			}
			if nb == 1 && nr == 1 {
				ok1 = true
			} else if nb != nr {
				r.Bad(cc, "(*writeCoalescer).writeFlusherImpl pairwise enqueue", "buffers and result channels are not appended pairwise")
			}
			return true
		})
		r.Check(ok1, impl.Decl, "(*writeCoalescer).writeFlusherImpl enqueues buffer and result channel together", "pairwise append", "no clause appends one buffer and one result channel together")
	}
}

func c07r6(p *Program, r *Report) {
	fi := r.NeedFunc("(*Conn).exec")
	if fi == nil {
		return
	}
	g := p.GraphOf(fi)
	ef := g.Events(connEvents(p, g))
	n := 0
	for _, e := range g.Exits() {
		s, ok := ef.ExitState(e)
		if !ok || !s.Must["writeErr"] || e.Kind == ExitPanic {
			continue
		}
		n++
		r.Check(s.Must["releasedOrClosed"], e.Node, "(*Conn).exec write-error exit "+exitDesc(p, e), "failed write releases an unstarted request or closes the connection",
			"a write error is returned without closing the connection: further frames follow a possibly half-written one")
	}
	if n == 0 {
		r.Unresolved("no exit of exec dominated by a writeContext error check")
	}
}

func c07r7(p *Program, r *Report) {
	// each socket write site inside a writer must be guarded by a recorded-failure field of the writer
	// that is assigned on the write's error path.
	sites := socketSites(p)
	n := 0
	for _, s := range sites {
		if s.kind == "handoff" && s.callee != "net.(*Buffers).WriteTo" {
			continue
		}
		fi := s.inFunc
		if fi.Decl.Recv == nil {
			continue
		}
		n++
		g := p.GraphOf(fi)
		info := g.Info
		// path-sensitive facts: the failure state may be tested through a local copy, possibly merged with another
		// error (failure := w.writeErr; if failure == nil { failure = SetWriteDeadline(...) }; if failure != nil { return })
		ps, ok := g.GuardFactsPS().Before(p.stmtOf(s.call, fi))
		recvName := ""
		if len(fi.Decl.Recv.List) > 0 && len(fi.Decl.Recv.List[0].Names) > 0 {
			recvName = fi.Decl.Recv.List[0].Names[0].Name
		}
		guard := ""
		if ok && len(ps) > 0 {
			// a guard atom must be decided the same way in every disjunct
			cands := map[string]int{}
			for _, f := range ps {
				for atom, v := range f.m {
					// "<recv>.<field> == nil" true, or "<recv>.<field>" false
					if strings.HasPrefix(atom, recvName+".") {
						if strings.HasSuffix(atom, " == nil") && v {
							cands[strings.TrimSuffix(atom, " == nil")]++
						} else if !strings.Contains(atom, " ") && !v {
							cands[atom]++
						}
					}
				}
			}
			for c, k := range cands {
				if k == len(ps) {
					guard = c
				}
			}
		}
		// the guard must be assigned somewhere in the function (after a failed write)
		assigned := false
		if guard != "" {
			ast.Inspect(fi.Decl.Body, func(x ast.Node) bool {
				for _, l := range assignedLHS(x) {
					if exprStr(l) == guard && x.Pos() > s.call.Pos() {
						assigned = true
					}
				}
				return true
			})
		}
		// ... and on every path from this write to an exit on which the write may have failed
		if guard != "" && assigned {
			errVar := ""
			if fn := calleeOf(info, s.call); fn != nil {
				sig := fn.Type().(*types.Signature)
				for i := 0; i < sig.Results().Len(); i++ {
					if isErrorType(sig.Results().At(i).Type()) {
						errVar = resultVarOf(p, s.call, i)
					}
				}
			}
			callStmt := p.stmtOf(s.call, fi)
			sol := Solve(g, Lattice[bool]{
				Join: func(a, b bool) bool { return a || b },
				Eq:   func(a, b bool) bool { return a == b },
				Step: func(pending bool, st Step) bool {
					switch st.Kind {
					case StNode:
						if st.Node == callStmt {
							return true
						}
						for _, l := range assignedLHS(st.Node) {
							if exprStr(l) == guard {
								return false
							}
						}
					case StCond:
						if errVar != "" && errVar != "_" {
							if b, ok := ast.Unparen(st.Node.(ast.Expr)).(*ast.BinaryExpr); ok && (b.Op == token.NEQ || b.Op == token.EQL) {
								x := ""
								if isNil(info, b.Y) {
									x = exprStr(b.X)
								} else if isNil(info, b.X) {
									x = exprStr(b.Y)
								}
								if x == errVar && st.Val == (b.Op == token.EQL) {
									return false // the write succeeded on this edge
								}
							}
						}
					}
					return pending
				},
			})
			for _, e := range g.Exits() {
				if e.Kind == ExitPanic {
					continue
				}
				if pend, ok := sol.AtExit(e); ok && pend {
					assigned = false
				}
			}
		}
		// the failure state is examined while the serialisation token is held: a test made before waiting for the
		// token can be out of date by the time the token is granted (the writer before us may just have failed)
		if guard != "" && assigned {
			hasAcquire := false
			sol2 := Solve(g, Lattice[int]{
				Join: func(a, b int) int {
					if a < b {
						return a
					}
					return b
				},
				Eq: func(a, b int) bool { return a == b },
				Step: func(st int, step Step) int {
					switch step.Kind {
					case StComm:
						if cc, ok := step.Clause.(*ast.CommClause); ok {
							if snd, isSend := cc.Comm.(*ast.SendStmt); isSend {
								if fv := fieldOf(info, snd.Chan); fv != nil && strings.Contains(strings.ToLower(fv.Name()), "sem") {
									hasAcquire = true
									return 1
								}
							}
						}
					case StNode:
						if snd, isSend := step.Node.(*ast.SendStmt); isSend {
							if fv := fieldOf(info, snd.Chan); fv != nil && strings.Contains(strings.ToLower(fv.Name()), "sem") {
								hasAcquire = true
								return 1
							}
						}
						// the failure state read into a local after the token was acquired (err = c.err; if err == nil ..):
						// the value that decides is the current one
						if as, isAs := step.Node.(*ast.AssignStmt); isAs && st == 1 {
							for _, rhs := range as.Rhs {
								if mentions(exprStr(rhs), guard) {
									return 2
								}
							}
						}
					case StCond:
						if st == 1 && mentions(exprStr(step.Node.(ast.Expr)), guard) {
							return 2
						}
					}
					return st
				},
			})
			if stw, ok := sol2.Before(p.stmtOf(s.call, fi)); ok && hasAcquire && stw != 2 {
				r.Bad(s.call, fi.Name+" examines the failure state while holding the write token", "the recorded failure ("+guard+") is tested before the write token is acquired, not after: a writer that was waiting behind a write that then failed reads a stale nil and writes its frame after the torn one")
			}
		}
		_ = info
		r.Check(guard != "" && assigned, s.call, fi.Name+" socket write guarded by sticky failure state",
			"write refused once "+guard+" records an earlier failure",
			"nothing stops the next frame from being written after this write failed or was cut: the serialisation token (semaphore / flusher iteration) is given up before exec closes the connection, so another request's frame can follow a partial one")
	}
	if n == 0 {
		r.Unresolved("no socket write sites in writer methods")
	}
}

// c07r8: (*net.Buffers).WriteTo advances and nils the elements of the slice it is called on. The coalescer's
// accounting loop attributes the written byte count to the queued frames by their lengths, so WriteTo must be
// called on a copy (make + copy) that shares no backing array with the slice the accounting iterates.
func c07r8(p *Program, r *Report) {
	n := 0
	p.forEachFunc(false, func(fi *FuncInfo) {
		if fi.Pkg != p.Root || fi.Decl.Body == nil {
			return
		}
		info := fi.Pkg.TypesInfo
		for _, c := range callsIn(fi.Decl.Body) {
			if calleeName(info, c) != "net.(*Buffers).WriteTo" {
				continue
			}
			n++
			rcv := recvExpr(c)
			id, ok := ast.Unparen(rcv).(*ast.Ident)
			private := false
			why := exprStr(rcv)
			if ok {
				if d := localDef(info, fi, id); d != nil && singleAssigned(info, fi.Decl.Body, info.Uses[id]) {
					why = id.Name + " := " + exprStr(d)
					if mk, isCall := ast.Unparen(d).(*ast.CallExpr); isCall && exprStr(mk.Fun) == "make" {
						// filled by copy(id, original)
						for _, cc := range callsIn(fi.Decl.Body) {
							if exprStr(cc.Fun) == "copy" && len(cc.Args) == 2 && exprStr(cc.Args[0]) == id.Name {
								private = true
							}
						}
					}
				}
			}
			// is the original (or the receiver itself) read after the call?
			readAfter := false
			ast.Inspect(fi.Decl.Body, func(x ast.Node) bool {
				if rs, ok := x.(*ast.RangeStmt); ok && rs.Pos() > c.End() {
					if t := info.TypeOf(rs.X); t != nil && strings.Contains(t.String(), "net.Buffers") || strings.Contains(exprStr(rs.X), "buffers") {
						readAfter = true
					}
				}
				if ix, ok := x.(*ast.IndexExpr); ok && ix.Pos() > c.End() {
					if t := info.TypeOf(ix.X); t != nil && t.String() == "net.Buffers" {
						readAfter = true
					}
				}
				return true
			})
			r.Check(private || !readAfter, c, fi.Name+": WriteTo runs on a private copy of the batch", why,
				"WriteTo is called on `"+why+"`, which shares its backing array with the slice the per-request accounting reads afterwards: WriteTo nils and re-slices the written entries, so the accounting compares wrong lengths and reports torn or unwritten frames as sent")
		}
	})
	if n == 0 {
		r.Unresolved("no net.Buffers.WriteTo call found")
	}
}

// singleWriterSend: the result is sent to element 0 of the pending-writer list at a point where the batch is known
// to hold exactly one entry (a fast path for a lone frame): that one send serves every pending writer.
func singleWriterSend(p *Program, fi *FuncInfo, s *ast.SendStmt) bool {
	info := fi.Pkg.TypesInfo
	ix, ok := ast.Unparen(s.Chan).(*ast.IndexExpr)
	if !ok {
		return false
	}
	if k, isK := constInt(info, ix.Index); !isK || k != 0 {
		return false
	}
	f, ok := p.GraphOf(fi).GuardFacts().Before(s)
	if !ok {
		return false
	}
	for atom, v := range f.m {
		a := strings.ReplaceAll(atom, " ", "")
		if v && (strings.HasPrefix(a, "1==len(") || strings.HasPrefix(a, "len(") && strings.HasSuffix(a, ")==1")) {
			return true
		}
	}
	return false
}

// c07r10: the contextWriter honours the context until it starts writing. exec must give it the context of the request
// (its ctx parameter): with the connection's context a request whose caller gave up while waiting for the write slot
// still writes its whole frame later.
func c07r10(p *Program, r *Report) {
	fi := r.NeedFunc("(*Conn).exec")
	if fi == nil {
		return
	}
	info := fi.Pkg.TypesInfo
	ctxParam := paramObj(info, fi.Decl.Type, 0)
	n := 0
	for _, u := range p.unitsOf(fi) {
		uinfo := u.Pkg.TypesInfo
		for _, c := range callsIn(u.Decl.Body) {
			if !strings.HasSuffix(calleeName(uinfo, c), ".writeContext") || len(c.Args) != 2 {
				continue
			}
			if rx := recvExpr(c); rx == nil || !p.isField(uinfo, rx, "Conn", "w") {
				continue
			}
			n++
			rf, re := p.resolveValue(u, c.Args[0], 0)
			ok := rf == fi && isIdentOf(info, re, ctxParam)
			if !ok && u != fi {
				// a helper that is handed the context: what exec passes for that parameter at each of its calls
				for k := 0; ; k++ {
					po := paramObj(uinfo, u.Decl.Type, k)
					if po == nil {
						break
					}
					if !isIdentOf(uinfo, re, po) {
						continue
					}
					sites, good := 0, 0
					for _, cc := range callsIn(fi.Decl.Body) {
						if fn := calleeOf(info, cc); fn != nil && p.FuncOf(fn) == u && k < len(cc.Args) {
							sites++
							if rf2, re2 := p.resolveValue(fi, cc.Args[k], 0); rf2 == fi && isIdentOf(info, re2, ctxParam) {
								good++
							}
						}
					}
					ok = sites > 0 && sites == good
				}
			}
			r.Check(ok, c, u.Name+" writes the frame under the request's context", "writeContext(ctx, ...) with exec's ctx parameter",
				"the writer is given "+exprStr(c.Args[0])+" instead of the context of the request: a request cancelled while it waits for the write slot is not withdrawn and its frame is written after the caller has gone")
		}
	}
	if n == 0 {
		r.Unresolved("exec does not call the connection's contextWriter")
	}
}
