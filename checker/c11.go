package main

import (
	"go/ast"
	"go/token"
	"go/types"
	"strings"
)

func init() {
	register(&PropertySpec{
		ID: "C11",
		Explanation: "Structural necessary conditions of 'host selection offers each live node once, nearest and replicas first': R1 every host a NextHost closure returns by conversion is dominated by h.IsUp(); R2 token-aware closure: every returned replica is marked used on that path, fallback hosts are returned only if unused and are marked; " +
			"R3 copy-on-write: slices obtained from cowHostList.get() are never written through or appended to, every Store publishes a slice allocated in that function, clusterMeta is only written on the copy from getMetadataForUpdate and its replica maps are never updated in place; R4 rotation: roundRobbin indexes every layer with (shift+k) modulo that layer's size, every Pick passes the per-pick atomic counter unreduced and the tiers nearest first; R5 the replica lists the token-aware generator walks are duplicate-free by construction (membership test before every append in every placement strategy)." +
			" R7 = C10.R9 (whole-ring search, wrap to entry 0); R8 the token-aware generator takes the replicas from the map of the keyspace of the query it routes." +
			" R9 = C10.R10, R10 = C10.R4 (placement walks cover every ring position and wrap).",
		NotDecided: "completeness of the offered sequence, exact tier order and rotation for every cluster state; that replica lists contain no duplicates (C10.R1); that a user-supplied HostTierer keeps HostTier() <= MaxHostTier().",
		Rules: []*Rule{
			{ID: "C11.R1", Floor: 3, Doc: "NextHost closures return only hosts dominated by IsUp()", Run: c11r1},
			{ID: "C11.R2", Floor: 4, Doc: "token-aware used-set discipline", Run: c11r2},
			{ID: "C11.R3", Floor: 6, Doc: "copy-on-write of host lists and cluster metadata", Run: c11r3},
			{ID: "C11.R4", Floor: 4, Doc: "rotation: per-layer modulo in roundRobbin; Pick passes the atomic counter unreduced", Run: c11r4},
			{ID: "C11.R5", Floor: 3, Doc: "replica lists handed to the token-aware generator are duplicate-free by construction (=C10.R1)", Run: c10r1},
			{ID: "C11.R6", Floor: 4, Doc: "slices taken from published host/token snapshots are never written (no in-place filter, sort, shuffle or element store; helpers followed)", Run: ruleSharedSlices},
			{ID: "C11.R7", Floor: 4, Doc: "the replicas of a token are looked up in the range that owns it: whole-ring search, wrap to entry 0 (=C10.R9)", Run: c10r9},
			{ID: "C11.R8", Floor: 1, Doc: "the token-aware policy takes the replicas from the map of the keyspace the query runs in", Run: c11r8},
			{ID: "C11.R9", Floor: 3, Doc: "ring construction and replica-map maintenance (=C10.R10)", Run: c10r10},
			{ID: "C11.R10", Floor: 2, Doc: "the placement walks cover every ring position and wrap around (=C10.R4)", Run: c10r4},
			{ID: "C11.R12", Floor: 1, Doc: "updateReplicas carries over the replica maps of the other keyspaces only: the updated keyspace never keeps its old entry", Run: c11r12},
			{ID: "C11.R13", Floor: 1, Doc: "a generator that walks a list of lists with persistent cursors compares the position with the list's length after every advance, before the next iteration or a return (the tier walk never strands on the end of a list)", Run: c11NestedCursor},
			{ID: "C11.R11", Floor: 1, Doc: "no node twice in a replica list: hosts stored during the placement walk are entered into the seen set (=C10.R11)", Run: c10r11},
		},
	})
}

// nextHostLits returns the function literals of type NextHost (func() SelectedHost) in the root package.
func nextHostLits(p *Program) map[*ast.FuncLit]*FuncInfo {
	out := map[*ast.FuncLit]*FuncInfo{}
	p.forEachFunc(false, func(fi *FuncInfo) {
		info := fi.Pkg.TypesInfo
		ast.Inspect(fi.Decl.Body, func(n ast.Node) bool {
			lit, ok := n.(*ast.FuncLit)
			if !ok {
				return true
			}
			sig, ok := info.TypeOf(lit).(*types.Signature)
			if ok && sig.Params().Len() == 0 && sig.Results().Len() == 1 && typeNameOf(sig.Results().At(0).Type()) == "SelectedHost" {
				out[lit] = fi
			}
			return true
		})
	})
	return out
}

// nextHostMethodUnits: methods whose method value is used as a NextHost (`return it.next`), each with the private
// helpers it is split into.
func nextHostMethodUnits(p *Program) [][]*FuncInfo {
	var out [][]*FuncInfo
	seen := map[*types.Func]bool{}
	p.forEachFunc(false, func(fi *FuncInfo) {
		info := fi.Pkg.TypesInfo
		calledFun := map[ast.Expr]bool{}
		ast.Inspect(fi.Decl.Body, func(n ast.Node) bool {
			if c, ok := n.(*ast.CallExpr); ok {
				calledFun[ast.Unparen(c.Fun)] = true
			}
			sel, ok := n.(*ast.SelectorExpr)
			if !ok || calledFun[sel] {
				return true
			}
			s := info.Selections[sel]
			if s == nil || s.Kind() != types.MethodVal {
				return true
			}
			fn, _ := s.Obj().(*types.Func)
			sig, _ := s.Type().(*types.Signature)
			if fn == nil || sig == nil || seen[fn] || sig.Params().Len() != 0 || sig.Results().Len() != 1 || typeNameOf(sig.Results().At(0).Type()) != "SelectedHost" {
				return true
			}
			if m := p.FuncOf(fn); m != nil && m.Decl.Body != nil {
				seen[fn] = true
				out = append(out, p.unitsOf(m))
			}
			return true
		})
	})
	return out
}

func c11r1(p *Program, r *Report) {
	n := 0
	type unit struct {
		g     *Graph
		fi    *FuncInfo
		name  string
		group []*FuncInfo
	}
	var units []unit
	for lit, fi := range nextHostLits(p) {
		units = append(units, unit{p.GraphOfLit(fi, lit), fi, fi.Name + " NextHost", nil})
	}
	for _, grp := range nextHostMethodUnits(p) {
		for _, u := range grp {
			// only the parts that produce hosts
			ft := u.Decl.Type
			if ft.Results == nil || len(ft.Results.List) != 1 {
				continue
			}
			ts := u.Pkg.TypesInfo.TypeOf(ft.Results.List[0].Type).String()
			if !strings.HasSuffix(ts, "HostInfo") && !strings.HasSuffix(ts, "SelectedHost") {
				continue
			}
			units = append(units, unit{p.GraphOf(u), u, u.Name + " (NextHost generator)", grp})
		}
	}
	for _, u := range units {
		fi, g := u.fi, u.g
		info := fi.Pkg.TypesInfo
		inGroup := func(c *ast.CallExpr) bool {
			fn := calleeOf(info, c)
			for _, m := range u.group {
				if fn != nil && m.Obj == fn {
					return true
				}
			}
			return false
		}
		fromGroup := func(e ast.Expr) bool { // a variable bound to the result of another part of the generator
			id, ok := ast.Unparen(e).(*ast.Ident)
			if !ok || u.group == nil {
				return false
			}
			if d := localDefMulti(info, fi, id); d != nil {
				if c, isC := ast.Unparen(d).(*ast.CallExpr); isC && inGroup(c) {
					return true
				}
			}
			return false
		}
		facts := g.GuardFacts()
		for _, e := range g.Exits() {
			rs, ok := e.Node.(*ast.ReturnStmt)
			if !ok || len(rs.Results) != 1 || isNil(info, rs.Results[0]) {
				continue
			}
			res := ast.Unparen(rs.Results[0])
			// (*selectedHost)(h)
			conv, isConv := res.(*ast.CallExpr)
			if isConv {
				if tv, ok := info.Types[conv.Fun]; !ok || !tv.IsType() {
					isConv = false
				}
			}
			name := u.name + " returns " + exprStr(res)
			isHostPtr := false
			if t := info.TypeOf(res); t != nil && strings.HasSuffix(t.String(), "HostInfo") {
				isHostPtr = true
			}
			switch {
			case isConv && len(conv.Args) == 1 && fromGroup(conv.Args[0]):
				n++
				r.OK(rs, name, "the host comes from another part of the generator, whose returns are checked there")
			case isConv && len(conv.Args) == 1:
				n++
				f, _ := facts.Before(rs)
				v, known := f.KnownStr(exprStr(conv.Args[0]) + ".IsUp()")
				r.Check(known && v, rs, name, "dominated by "+exprStr(conv.Args[0])+".IsUp()", "a host is offered without having been found up: queries are sent to nodes the driver knows are down")
			case isHostPtr && fromGroup(res):
				n++
				r.OK(rs, name, "the host comes from another part of the generator, whose returns are checked there")
			case isHostPtr:
				// a generator part that hands a *HostInfo to the part that converts it
				n++
				f, _ := facts.Before(rs)
				v, known := f.KnownStr(exprStr(res) + ".IsUp()")
				r.Check(known && v, rs, name, "dominated by "+exprStr(res)+".IsUp()", "a host is offered without having been found up: queries are sent to nodes the driver knows are down")
			default:
				// a host produced by another NextHost (already filtered) or by the third-party host pool
				if id, ok := res.(*ast.Ident); ok {
					n++
					r.OK(rs, name, "host obtained from the fallback policy's iterator (filtered there): "+id.Name)
				} else if dc, ok := res.(*ast.CallExpr); ok && typeNameOf(info.TypeOf(dc.Fun)) == "NextHost" {
					n++
					r.OK(rs, name, "delegates to another NextHost (filtered there)")
				} else if dc, ok := res.(*ast.CallExpr); ok && inGroup(dc) {
					n++
					r.OK(rs, name, "delegates to another part of the generator, whose returns are checked there")
				} else if cl, ok := res.(*ast.CompositeLit); ok && typeNameOf(info.TypeOf(cl)) == "selectedHostPoolHost" {
					n++
					r.OK(rs, name, "frozen exception: hostPoolHostPolicy delegates liveness to the go-hostpool library")
				} else {
					r.Bad(rs, name, "NextHost returns a host through an unrecognised expression: cannot establish that it is up")
				}
			}
		}
	}
	if n == 0 {
		r.Unresolved("no NextHost closures found")
	}
}

func c11r2(p *Program, r *Report) {
	fi := r.NeedFunc("(*tokenAwareHostPolicy).Pick")
	if fi == nil {
		return
	}
	info := fi.Pkg.TypesInfo
	// the generator Pick returns: a closure, or a method value of an iterator object (then the method and the
	// helper methods it is split into are the generator)
	type unit struct {
		g    *Graph
		body ast.Node
		fn   *FuncInfo // nil for the closure
		name string
	}
	var units []unit
	for l, f := range nextHostLits(p) {
		if f == fi {
			units = append(units, unit{p.GraphOfLit(fi, l), l, nil, "(*tokenAwareHostPolicy).Pick closure"})
		}
	}
	if len(units) == 0 {
		inspectNoLit(fi.Decl.Body, func(x ast.Node) bool {
			rs, ok := x.(*ast.ReturnStmt)
			if !ok || len(rs.Results) != 1 {
				return true
			}
			if sel, ok := ast.Unparen(rs.Results[0]).(*ast.SelectorExpr); ok {
				if fn, ok := info.Uses[sel.Sel].(*types.Func); ok {
					if m := p.FuncOf(fn); m != nil && m.Decl.Body != nil && len(units) == 0 {
						for _, u := range p.unitsOf(m) {
							units = append(units, unit{p.GraphOf(u), u.Decl.Body, u, u.Name})
						}
					}
				}
			}
			return true
		})
	}
	if len(units) == 0 {
		r.Unresolved("token-aware Pick returns neither a closure nor a method value of this package")
		return
	}
	inUnits := func(fn *types.Func) bool {
		for _, u := range units {
			if u.fn != nil && u.fn.Obj == fn {
				return true
			}
		}
		return false
	}
	isHostKeyed := func(e ast.Expr) bool { // used[...] : a map[*HostInfo]bool
		if t := info.TypeOf(e); t != nil {
			if m, ok := t.Underlying().(*types.Map); ok {
				if b, ok := m.Elem().Underlying().(*types.Basic); ok && b.Kind() == types.Bool && strings.Contains(m.Key().String(), "HostInfo") {
					return true
				}
				// a set: map[*HostInfo]struct{}
				if st, ok := m.Elem().Underlying().(*types.Struct); ok && st.NumFields() == 0 && strings.Contains(m.Key().String(), "HostInfo") {
					return true
				}
			}
		}
		return false
	}
	returnsHost := func(u unit) bool {
		var ft *ast.FuncType
		if u.fn != nil {
			ft = u.fn.Decl.Type
		} else {
			ft = u.body.(*ast.FuncLit).Type
		}
		if ft.Results == nil || len(ft.Results.List) != 1 {
			return false
		}
		ts := info.TypeOf(ft.Results.List[0].Type).String()
		return strings.HasSuffix(ts, "HostInfo") || strings.HasSuffix(ts, "SelectedHost")
	}
	n := 0
	nUsed := 0
	for _, u := range units {
		if !returnsHost(u) {
			continue
		}
		g := u.g
		// marked[x]: used[x] = true executed for key expression x (string) since x was last assigned
		marked := Solve(g, Lattice[strset]{
			Init: strset{}, Join: func(a, b strset) strset { return a.intersect(b) }, Eq: func(a, b strset) bool { return a.eq(b) },
			Step: func(s strset, st Step) strset {
				if st.Kind != StNode {
					return s
				}
				for _, l := range assignedLHS(st.Node) {
					if ix, ok := ast.Unparen(l).(*ast.IndexExpr); ok && isHostKeyed(ix.X) {
						if as, ok := st.Node.(*ast.AssignStmt); ok && len(as.Rhs) == 1 {
							if v, ok := info.Types[as.Rhs[0]]; ok && v.Value != nil && v.Value.String() == "true" {
								s = s.with(exprStr(ix.Index))
								nUsed++
							} else if _, isLit := ast.Unparen(as.Rhs[0]).(*ast.CompositeLit); isLit {
								// offered[x] = struct{}{}: membership in a set
								if m, isM := info.TypeOf(ix.X).Underlying().(*types.Map); isM {
									if _, isSt := m.Elem().Underlying().(*types.Struct); isSt {
										s = s.with(exprStr(ix.Index))
										nUsed++
									}
								}
							}
						}
						continue
					}
					// re-assignment of a key variable invalidates marks that mention it
					ls := exprStr(l)
					for k := range s {
						if mentions(k, ls) {
							s = s.without(k)
						}
					}
				}
				return s
			},
		})
		// testedUnused[x]: a test of used[x] came out false since x was last assigned (marking x afterwards keeps it)
		testedUnused := Solve(g, Lattice[strset]{
			Init: strset{}, Join: func(a, b strset) strset { return a.intersect(b) }, Eq: func(a, b strset) bool { return a.eq(b) },
			Step: func(s strset, st Step) strset {
				switch st.Kind {
				case StCond:
					ce, val := ast.Unparen(st.Node.(ast.Expr)), st.Val
					for {
						if un, ok := ce.(*ast.UnaryExpr); ok && un.Op == token.NOT {
							ce, val = ast.Unparen(un.X), !val
							continue
						}
						break
					}
					if ix, ok := ce.(*ast.IndexExpr); ok && isHostKeyed(ix.X) && !val {
						s = s.with(exprStr(ix.Index))
					}
					// `_, seen := offered[x]` ... seen false
					if id, ok := ce.(*ast.Ident); ok && !val {
						if ix := commaOkSource(g, info, id, st.Node); ix != nil && isHostKeyed(ix.X) {
							s = s.with(exprStr(ix.Index))
						}
					}
				case StNode:
					for _, l := range assignedLHS(st.Node) {
						if ix, ok := ast.Unparen(l).(*ast.IndexExpr); ok && isHostKeyed(ix.X) {
							continue
						}
						ls := exprStr(l)
						for k := range s {
							if mentions(k, ls) {
								s = s.without(k)
							}
						}
					}
				}
				return s
			},
		})
		for _, e := range g.Exits() {
			rs, ok := e.Node.(*ast.ReturnStmt)
			if !ok || len(rs.Results) != 1 || isNil(info, rs.Results[0]) {
				continue
			}
			res := ast.Unparen(rs.Results[0])
			key := ""
			var keyExpr ast.Expr
			isConv := false
			if c, ok := res.(*ast.CallExpr); ok {
				if tv, isT := info.Types[c.Fun]; isT && tv.IsType() && len(c.Args) == 1 {
					key, keyExpr, isConv = exprStr(c.Args[0]), c.Args[0], true
				} else if fn := calleeOf(info, c); fn != nil && inUnits(fn) {
					continue // the host comes from another part of the generator, whose returns are checked there
				} else {
					r.Bad(rs, u.name+" returns a host obtained from "+exprStr(c.Fun), "the generator returns the result of a call that is not part of it, so nothing records the host as used")
					continue
				}
			} else if t := info.TypeOf(res); t != nil && strings.HasSuffix(t.String(), "SelectedHost") {
				key, keyExpr = exprStr(res)+".Info()", res
			} else {
				key, keyExpr = exprStr(res), res
			}
			// a host variable that was produced by another part of the generator
			if id, isId := ast.Unparen(keyExpr).(*ast.Ident); isId && u.fn != nil {
				if d := localDefMulti(info, u.fn, id); d != nil {
					if c, isC := ast.Unparen(d).(*ast.CallExpr); isC {
						if fn := calleeOf(info, c); fn != nil && inUnits(fn) {
							continue
						}
					}
				}
			}
			n++
			m, _ := marked.Before(rs)
			r.Check(m[key], rs, u.name+" marks "+key+" as used before returning it", "used["+key+"] = true on every path to this return",
				"a host is returned without being recorded in the used set: the fallback iterator offers it a second time for the same query")
			if !isConv && strings.HasSuffix(key, ".Info()") {
				// the enclosing if tests !used[key] (the mark that follows kills the fact, so look at the guard itself)
				tu, _ := testedUnused.Before(rs)
				guarded := tu[key]
				r.Check(guarded, rs, u.name+" returns fallback hosts only if unused", "dominated by !used["+key+"]", "a fallback host is returned without checking that it was not already offered as a replica")
			}
		}
	}
	if n < 3 {
		r.Unresolved("token-aware generator: fewer than 3 host returns (%d)", n)
	}
	_ = nUsed
}

func c11r3(p *Program, r *Report) {
	n := 0
	p.forEachFunc(false, func(fi *FuncInfo) {
		info := fi.Pkg.TypesInfo
		// variables assigned from cowHostList.get()
		hasGet := false
		ast.Inspect(fi.Decl.Body, func(x ast.Node) bool {
			if c, ok := x.(*ast.CallExpr); ok && isCallTo(info, c, "(*cowHostList).get") {
				hasGet = true
			}
			return true
		})
		hasStore := false
		ast.Inspect(fi.Decl.Body, func(x ast.Node) bool {
			if c, ok := x.(*ast.CallExpr); ok && calleeName(info, c) == "atomic.(*Value).Store" {
				if rx := recvExpr(c); rx != nil && p.isField(info, rx, "cowHostList", "list") {
					hasStore = true
				}
			}
			return true
		})
		if !hasGet && !hasStore {
			return
		}
		g := p.GraphOf(fi)
		// shared: variables currently holding the published slice; fresh: variables holding a slice allocated here
		type st struct{ shared, fresh strset }
		isFreshExpr := func(s st, e ast.Expr) bool {
			e = ast.Unparen(e)
			switch x := e.(type) {
			case *ast.CompositeLit:
				return true
			case *ast.CallExpr:
				switch calleeName(info, x) {
				case "builtin.make":
					return true
				case "builtin.append":
					if len(x.Args) > 0 {
						if id, ok := ast.Unparen(x.Args[0]).(*ast.Ident); ok {
							return s.fresh[id.Name]
						}
					}
				}
			case *ast.SliceExpr:
				if id, ok := ast.Unparen(x.X).(*ast.Ident); ok {
					return s.fresh[id.Name]
				}
			case *ast.Ident:
				return s.fresh[x.Name]
			}
			return false
		}
		sol := Solve(g, Lattice[st]{
			Init: st{strset{}, strset{}},
			Join: func(a, b st) st { return st{a.shared.union(b.shared), a.fresh.intersect(b.fresh)} },
			Eq:   func(a, b st) bool { return a.shared.eq(b.shared) && a.fresh.eq(b.fresh) },
			Step: func(s st, step Step) st {
				if step.Kind != StNode {
					return s
				}
				as, ok := step.Node.(*ast.AssignStmt)
				if !ok || len(as.Lhs) != len(as.Rhs) {
					return s
				}
				for i, l := range as.Lhs {
					id, ok := l.(*ast.Ident)
					if !ok {
						continue
					}
					rhs := ast.Unparen(as.Rhs[i])
					if c, ok := rhs.(*ast.CallExpr); ok && isCallTo(info, c, "(*cowHostList).get") {
						s = st{s.shared.with(id.Name), s.fresh.without(id.Name)}
						continue
					}
					if isFreshExpr(s, rhs) {
						s = st{s.shared.without(id.Name), s.fresh.with(id.Name)}
						continue
					}
					if rid, ok := rhs.(*ast.Ident); ok && s.shared[rid.Name] {
						s = st{s.shared.with(id.Name), s.fresh.without(id.Name)}
						continue
					}
					if sl, ok := rhs.(*ast.SliceExpr); ok {
						if rid, ok := ast.Unparen(sl.X).(*ast.Ident); ok && s.shared[rid.Name] {
							s = st{s.shared.with(id.Name), s.fresh.without(id.Name)}
							continue
						}
					}
					s = st{s.shared.without(id.Name), s.fresh.without(id.Name)}
				}
				return s
			},
		})
		ast.Inspect(fi.Decl.Body, func(x ast.Node) bool {
			switch s := x.(type) {
			case *ast.AssignStmt:
				for _, l := range s.Lhs {
					if ix, ok := ast.Unparen(l).(*ast.IndexExpr); ok {
						if id, ok := ast.Unparen(ix.X).(*ast.Ident); ok {
							state, reach := sol.Before(s)
							if reach && state.shared[id.Name] {
								n++
								r.Bad(s, fi.Name+" writes through the published host list "+id.Name, "an element of the slice obtained from cowHostList.get() is overwritten in place: concurrent NextHost iterators walk a list that changes under them (hosts skipped or offered twice)")
							}
						}
					}
				}
			case *ast.CallExpr:
				switch calleeName(info, s) {
				case "builtin.append":
					if len(s.Args) > 0 {
						if id, ok := ast.Unparen(s.Args[0]).(*ast.Ident); ok {
							state, reach := sol.Before(s)
							if reach && state.shared[id.Name] {
								n++
								r.Bad(s, fi.Name+" appends to the published host list "+id.Name, "append on the slice obtained from cowHostList.get() can write into the shared backing array")
							}
						}
						if sl, ok := ast.Unparen(s.Args[0]).(*ast.SliceExpr); ok {
							if id, ok := ast.Unparen(sl.X).(*ast.Ident); ok {
								state, reach := sol.Before(s)
								if reach && state.shared[id.Name] {
									n++
									r.Bad(s, fi.Name+" appends to a sub-slice of the published host list "+id.Name, "append(l[:i], l[i+1:]...) on the published slice compacts it in place: concurrent iterators see hosts twice or miss them")
								}
							}
						}
					}
				case "atomic.(*Value).Store":
					rx := recvExpr(s)
					if rx == nil || !p.isField(info, rx, "cowHostList", "list") || len(s.Args) != 1 {
						return true
					}
					n++
					state, _ := sol.Before(s)
					okFresh := false
					if u, ok := ast.Unparen(s.Args[0]).(*ast.UnaryExpr); ok && u.Op == token.AND {
						if id, ok := ast.Unparen(u.X).(*ast.Ident); ok && state.fresh[id.Name] {
							okFresh = true
						}
					}
					r.Check(okFresh, s, fi.Name+" publishes a freshly allocated host list", "the stored slice was allocated in this function on every path", "the slice published with list.Store is (or may be) the one obtained from get(): readers holding the old value see it change")
				}
			}
			return true
		})
		if hasGet {
			n++
			r.OK(fi.Decl, fi.Name+" reads the host list without writing through it", "no element store / append on the shared slice")
		}
	})
	// clusterMeta: field writes only on the copy from getMetadataForUpdate; replica maps never updated in place
	p.forEachFunc(false, func(fi *FuncInfo) {
		info := fi.Pkg.TypesInfo
		ast.Inspect(fi.Decl.Body, func(x ast.Node) bool {
			as, ok := x.(*ast.AssignStmt)
			if !ok {
				return true
			}
			for _, l := range as.Lhs {
				l = ast.Unparen(l)
				if ix, ok := l.(*ast.IndexExpr); ok {
					if sel, ok := ast.Unparen(ix.X).(*ast.SelectorExpr); ok && p.isField(info, sel, "clusterMeta", "replicas") {
						n++
						r.Bad(as, fi.Name+" updates clusterMeta.replicas in place", "the replica map is shared between the published metadata and its copies: an in-place update races with Pick")
					}
					continue
				}
				sel, ok := l.(*ast.SelectorExpr)
				if !ok || fieldOf(info, sel) == nil || typeNameOf(info.TypeOf(sel.X)) != "clusterMeta" {
					continue
				}
				n++
				root := rootIdent(sel.X)
				okCopy := false
				if root != nil {
					obj := info.Uses[root]
					// parameter documented as the update copy, or local assigned from getMetadataForUpdate / literal
					ast.Inspect(fi.Decl.Body, func(m ast.Node) bool {
						if a2, ok := m.(*ast.AssignStmt); ok && len(a2.Rhs) == 1 {
							for _, l2 := range a2.Lhs {
								if id, ok := l2.(*ast.Ident); ok && info.Defs[id] == obj {
									rhs := ast.Unparen(a2.Rhs[0])
									if c, ok := rhs.(*ast.CallExpr); ok && isCallTo(info, c, "(*tokenAwareHostPolicy).getMetadataForUpdate") {
										okCopy = true
									}
									if u, ok := rhs.(*ast.UnaryExpr); ok && u.Op == token.AND {
										if _, ok := ast.Unparen(u.X).(*ast.CompositeLit); ok {
											okCopy = true
										}
									}
								}
							}
						}
						return true
					})
					if v, ok := obj.(*types.Var); ok && !okCopy {
						sig := fi.Obj.Type().(*types.Signature)
						for i := 0; i < sig.Params().Len(); i++ {
							if sig.Params().At(i) == v {
								// helper operating on the caller's copy: every caller must pass an update copy
								okCopy = callersPassUpdateCopy(p, fi, i)
							}
						}
						if sig.Recv() == v {
							okCopy = callersReceiverIsUpdateCopy(p, fi)
						}
					}
				}
				r.Check(okCopy, as, fi.Name+" writes "+exprStr(l)+" on an unpublished copy", "the metadata object comes from getMetadataForUpdate (or a literal) in this call chain", "a field of the published cluster metadata is written in place: Pick reads it without a lock")
			}
			return true
		})
	})
	if n == 0 {
		r.Unresolved("no copy-on-write sites found")
	}
}

// callersPassUpdateCopy: every static call of fi passes, at parameter idx, a variable assigned from getMetadataForUpdate.
func callersPassUpdateCopy(p *Program, fi *FuncInfo, idx int) bool {
	ok, n := true, 0
	p.forEachFunc(false, func(caller *FuncInfo) {
		info := caller.Pkg.TypesInfo
		ast.Inspect(caller.Decl.Body, func(x ast.Node) bool {
			c, isCall := x.(*ast.CallExpr)
			if !isCall {
				return true
			}
			fn := calleeOf(info, c)
			if fn == nil || p.FuncOf(fn) != fi || idx >= len(c.Args) {
				return true
			}
			n++
			if !isUpdateCopy(p, caller, c.Args[idx]) {
				ok = false
			}
			return true
		})
	})
	return ok && n > 0
}

func callersReceiverIsUpdateCopy(p *Program, fi *FuncInfo) bool {
	ok, n := true, 0
	p.forEachFunc(false, func(caller *FuncInfo) {
		info := caller.Pkg.TypesInfo
		ast.Inspect(caller.Decl.Body, func(x ast.Node) bool {
			c, isCall := x.(*ast.CallExpr)
			if !isCall {
				return true
			}
			fn := calleeOf(info, c)
			if fn == nil || p.FuncOf(fn) != fi {
				return true
			}
			n++
			if rx := recvExpr(c); rx == nil || !isUpdateCopy(p, caller, rx) {
				ok = false
			}
			return true
		})
	})
	return ok && n > 0
}

func isUpdateCopy(p *Program, fi *FuncInfo, e ast.Expr) bool {
	info := fi.Pkg.TypesInfo
	id, ok := ast.Unparen(e).(*ast.Ident)
	if !ok {
		return false
	}
	obj := info.Uses[id]
	found := false
	ast.Inspect(fi.Decl.Body, func(m ast.Node) bool {
		if a2, ok := m.(*ast.AssignStmt); ok && len(a2.Rhs) == 1 {
			for _, l2 := range a2.Lhs {
				if lid, ok := l2.(*ast.Ident); ok && info.Defs[lid] == obj {
					if c, ok := ast.Unparen(a2.Rhs[0]).(*ast.CallExpr); ok && isCallTo(info, c, "(*tokenAwareHostPolicy).getMetadataForUpdate") {
						found = true
					}
				}
			}
		}
		return true
	})
	return found
}

func c11r4(p *Program, r *Report) {
	rr := r.NeedFunc("roundRobbin")
	if rr == nil {
		return
	}
	info := rr.Pkg.TypesInfo
	shiftObj := paramObj(info, rr.Decl.Type, 0)
	hostsObj := paramObj(info, rr.Decl.Type, 1)
	// the generator: closures of roundRobbin, or the method (with its helpers) of an iterator object whose fields
	// roundRobbin initialises from its parameters
	type genUnit struct {
		fi   *FuncInfo
		body ast.Node
		g    *Graph
	}
	var gens []genUnit
	isShift := func(e ast.Expr) bool { return isIdentOf(info, e, shiftObj) }
	isHosts := func(e ast.Expr) bool { return isIdentOf(info, e, hostsObj) }
	hostsName := hostsObj.Name()
	for _, lit := range funcLitsIn(rr.Decl.Body) {
		gens = append(gens, genUnit{rr, lit, p.GraphOfLit(rr, lit)})
	}
	if len(gens) == 0 {
		var shiftF, hostsF types.Object
		ast.Inspect(rr.Decl.Body, func(x ast.Node) bool {
			cl, ok := x.(*ast.CompositeLit)
			if !ok {
				return true
			}
			for _, el := range cl.Elts {
				kv, ok := el.(*ast.KeyValueExpr)
				if !ok {
					continue
				}
				k, ok := kv.Key.(*ast.Ident)
				if !ok {
					continue
				}
				if isIdentOf(info, kv.Value, shiftObj) {
					shiftF = info.Uses[k]
				}
				if isIdentOf(info, kv.Value, hostsObj) {
					hostsF = info.Uses[k]
				}
			}
			return true
		})
		if shiftF != nil && hostsF != nil && neverStoredField(p, shiftF) && neverStoredField(p, hostsF) {
			for _, grp := range nextHostMethodUnits(p) {
				uses := false
				for _, u := range grp {
					ast.Inspect(u.Decl.Body, func(x ast.Node) bool {
						if sel, ok := x.(*ast.SelectorExpr); ok && info.Uses[sel.Sel] == hostsF {
							uses = true
							hostsName = exprStr(sel)
						}
						return true
					})
				}
				if !uses {
					continue
				}
				for _, u := range grp {
					gens = append(gens, genUnit{u, u.Decl.Body, p.GraphOf(u)})
				}
			}
			isShift = func(e ast.Expr) bool {
				sel, ok := ast.Unparen(e).(*ast.SelectorExpr)
				return ok && info.Uses[sel.Sel] == shiftF
			}
			isHosts = func(e ast.Expr) bool {
				sel, ok := ast.Unparen(e).(*ast.SelectorExpr)
				return ok && info.Uses[sel.Sel] == hostsF
			}
		}
	}
	found := false
	for _, gu := range gens {
		ast.Inspect(gu.body, func(x ast.Node) bool {
			ix, ok := x.(*ast.IndexExpr)
			if !ok {
				return true
			}
			var inner ast.Expr
			if in2, ok := ast.Unparen(ix.X).(*ast.IndexExpr); ok && isHosts(in2.X) {
				inner = in2
			} else if lid, ok := ast.Unparen(ix.X).(*ast.Ident); ok {
				// layer := hosts[k]; layer[...]
				if d := localDef(info, gu.fi, lid); d != nil {
					if in3, ok := ast.Unparen(d).(*ast.IndexExpr); ok && isHosts(in3.X) {
						inner = lid
					}
				}
			}
			if inner == nil {
				return true
			}
			found = true
			// index: (… shift …) % size, size == len(hosts[layer])
			b, ok := ast.Unparen(ix.Index).(*ast.BinaryExpr)
			usesShift := false
			if ok && b.Op == token.REM {
				ast.Inspect(b.X, func(m ast.Node) bool {
					if e, ok := m.(ast.Expr); ok && isShift(e) {
						usesShift = true
					}
					return true
				})
			}
			sizeOK := false
			if ok {
				want := "len(" + exprStr(inner) + ")"
				if exprStr(b.Y) == want {
					sizeOK = true
				} else if id, isId := ast.Unparen(b.Y).(*ast.Ident); isId {
					ast.Inspect(gu.body, func(m ast.Node) bool {
						if as, ok := m.(*ast.AssignStmt); ok && len(as.Lhs) == 1 && len(as.Rhs) == 1 && isIdentOf(info, as.Lhs[0], info.Uses[id]) && exprStr(as.Rhs[0]) == want {
							sizeOK = true
						}
						return true
					})
				}
			}
			r.Check(ok && usesShift && sizeOK, ix, "roundRobbin rotates every layer by the shift modulo that layer's size", "hosts[layer][(shift+k) % len(hosts[layer])]", "the host index of a layer is not (shift + k) modulo that layer's own size: tiers do not rotate their starting host (or index out of range)")
			return true
		})
	}
	if !found {
		r.Unresolved("roundRobbin: no hosts[layer][i] access")
	}
	// the generator reports exhaustion (nil) only after every layer was visited: an empty nearer layer must not
	// end the walk while farther layers still hold hosts
	for _, gu := range gens {
		g := gu.g
		facts := g.GuardFacts()
		for _, e := range g.Exits() {
			rs, ok := e.Node.(*ast.ReturnStmt)
			if !ok || len(rs.Results) != 1 || !isNil(info, rs.Results[0]) {
				continue
			}
			f, _ := facts.Before(rs)
			allVisited := false
			for atom, v := range f.m {
				a := strings.ReplaceAll(atom, " ", "")
				if v && (strings.Contains(a, "==len("+hostsName+")") || strings.Contains(a, "len("+hostsName+")==")) {
					allVisited = true
				}
				if !v && strings.HasSuffix(a, "<len("+hostsName+")") && !strings.Contains(a, "&&") {
					allVisited = true
				}
			}
			r.Check(allVisited, rs, "roundRobbin reports exhaustion only after the last layer", "return nil dominated by layer == len(hosts)",
				"the generator can return nil (no more hosts) while layers remain: an empty nearer layer (no live local hosts) ends the walk and the remote hosts are never offered")
		}
	}
	// Pick functions pass the atomic counter unreduced
	n := 0
	p.forEachFunc(false, func(fi *FuncInfo) {
		finfo := fi.Pkg.TypesInfo
		ast.Inspect(fi.Decl.Body, func(x ast.Node) bool {
			c, ok := x.(*ast.CallExpr)
			if !ok || !isCallTo(finfo, c, "roundRobbin") || len(c.Args) == 0 {
				return true
			}
			n++
			arg := stripWidening(finfo, c.Args[0])
			// strip any conversion
			for {
				cv, ok := ast.Unparen(arg).(*ast.CallExpr)
				if !ok || len(cv.Args) != 1 {
					break
				}
				if tv, ok := finfo.Types[cv.Fun]; !ok || !tv.IsType() {
					break
				}
				arg = cv.Args[0]
			}
			okCounter := false
			if id, ok := ast.Unparen(arg).(*ast.Ident); ok {
				ast.Inspect(fi.Decl.Body, func(m ast.Node) bool {
					if as, ok := m.(*ast.AssignStmt); ok && len(as.Lhs) == 1 && len(as.Rhs) == 1 && isIdentOf(finfo, as.Lhs[0], finfo.Uses[id]) {
						if ac, ok := ast.Unparen(as.Rhs[0]).(*ast.CallExpr); ok && strings.HasPrefix(calleeName(finfo, ac), "atomic.Add") {
							okCounter = true
						}
					}
					return true
				})
			}
			r.Check(okCounter, c, fi.Name+" passes the per-pick counter to roundRobbin", "shift = atomic counter (converted only)", "the start offset given to roundRobbin is not the plain per-pick atomic counter ("+exprStr(c.Args[0])+"): reducing it by one tier's size (or fixing it) stops the other tiers from rotating, so load is not spread")
			// tiers nearest first: textual order local < remote, hosts[0] < hosts[1] < hosts[2]
			var tiers []string
			for _, a := range c.Args[1:] {
				tiers = append(tiers, exprStr(a))
			}
			okOrder := true
			for i, t := range tiers {
				if strings.Contains(t, "remote") && i == 0 && len(tiers) > 1 {
					okOrder = false
				}
				if strings.Contains(t, "hosts[") {
					want := "hosts[" + itoa(i) + "]"
					if !strings.Contains(t, want) {
						okOrder = false
					}
				}
			}
			r.Check(okOrder, c, fi.Name+" passes tiers nearest first", strings.Join(tiers, ", "), "host tiers are passed to roundRobbin out of order: farther hosts are offered before nearer ones")
			return true
		})
	})
	if n < 3 {
		r.Unresolved("fewer than 3 roundRobbin call sites (%d)", n)
	}
}

// neverStoredField: the field is only initialised in composite literals, never assigned afterwards.
func neverStoredField(p *Program, f types.Object) bool {
	ok := true
	p.forEachFunc(false, func(fi *FuncInfo) {
		info := fi.Pkg.TypesInfo
		ast.Inspect(fi.Decl.Body, func(x ast.Node) bool {
			for _, l := range assignedLHS(x) {
				if sel, isS := ast.Unparen(l).(*ast.SelectorExpr); isS && info.Uses[sel.Sel] == f {
					ok = false
				}
			}
			if u, isU := x.(*ast.UnaryExpr); isU && u.Op == token.AND {
				if sel, isS := ast.Unparen(u.X).(*ast.SelectorExpr); isS && info.Uses[sel.Sel] == f {
					ok = false
				}
			}
			return true
		})
	})
	return ok
}

// c11r8: replica placement is per keyspace. The token-aware generator must look the token up in the replica map of
// the keyspace of the query it was asked about (qry.Keyspace()), not of the session's default keyspace or any other.
func c11r8(p *Program, r *Report) {
	fi := r.NeedFunc("(*tokenAwareHostPolicy).Pick")
	if fi == nil {
		return
	}
	replicasField := p.Field("clusterMeta", "replicas")
	n := 0
	for _, u := range p.unitsOf(fi) {
		info := u.Pkg.TypesInfo
		inspectNoLit(u.Decl.Body, func(x ast.Node) bool {
			ix, ok := x.(*ast.IndexExpr)
			if !ok || fieldOf(info, ix.X) == nil || fieldOf(info, ix.X) != replicasField {
				return true
			}
			n++
			kf, key := p.resolveValue(u, ix.Index, 0)
			okKey := false
			why := exprStr(key)
			if c, isCall := ast.Unparen(key).(*ast.CallExpr); isCall && len(c.Args) == 0 {
				if sel, isSel := ast.Unparen(c.Fun).(*ast.SelectorExpr); isSel && sel.Sel.Name == "Keyspace" {
					// the receiver is the query handed to Pick
					rf, re := p.resolveValue(kf, sel.X, 0)
					if id, isId := ast.Unparen(re).(*ast.Ident); isId && rf == fi {
						if po := paramObj(fi.Pkg.TypesInfo, fi.Decl.Type, 0); po != nil && fi.Pkg.TypesInfo.Uses[id] == po {
							okKey = true
						}
					}
				}
			}
			r.Check(okKey, ix, u.Name+" looks the token up in the replica map of the query's keyspace", "replicas[qry.Keyspace()]",
				"the replicas are taken from the map of keyspace `"+why+"` instead of the keyspace of the query being routed: a query on another keyspace (or from a session without a default keyspace) is not sent to its replicas first")
			return true
		})
	}
	if n == 0 {
		r.Unresolved("token-aware Pick never indexes clusterMeta.replicas")
	}
}
