package main

import (
	"go/ast"
	"go/constant"
	"go/token"
	"go/types"
	"sort"

	"golang.org/x/tools/go/cfg"
)

// Graph wraps the go/cfg control-flow graph of one function body (declaration or literal).
type Graph struct {
	P    *Program
	Info *types.Info
	Fn   ast.Node // *ast.FuncDecl or *ast.FuncLit
	Body *ast.BlockStmt
	CFG  *cfg.CFG
	Name string
	Fi   *FuncInfo // the declared function this graph belongs to (also for its function literals)

	nodeAt map[ast.Node]nodeLoc
	live   map[*cfg.Block]bool

	factsCache   *Solution[Facts]
	factsPSCache *Solution[FactsPS]

	// inlined graphs (inline.go): every location of a node (helpers expanded at several call sites), what was expanded
	nodeAll     map[ast.Node][]nodeLoc
	inl         *inlineInfo
	deadEdges   map[*cfg.Block][]bool
	boolOver    map[string][]string
	markNodes   map[ast.Node]string // statements that leave a mark atom ("§name") in the guard facts when executed
	unmarkNodes map[ast.Node]string // nodes (loop conditions) at which such a mark is forgotten
}

type nodeLoc struct {
	b *cfg.Block
	i int
}

// StepKind classifies what the dataflow transfer function is told about.
type StepKind int

const (
	StNode     StepKind = iota // a CFG node (statement or expression) is executed
	StCond                     // boolean condition Node evaluated to Val
	StCase                     // expression switch: Tag == Node evaluated to Val
	StTypeCase                 // type switch: clause Clause was selected
	StComm                     // select: communication of Clause was chosen
	StRange                    // range loop: body entered (Val=true) or done (Val=false)
	StDefault                  // select/switch default (no fact)
)

type Step struct {
	Kind   StepKind
	Node   ast.Node
	Val    bool
	Tag    ast.Expr
	Clause ast.Node
}

func (p *Program) mayReturn(info *types.Info) func(*ast.CallExpr) bool {
	return func(call *ast.CallExpr) bool {
		switch fun := ast.Unparen(call.Fun).(type) {
		case *ast.Ident:
			if b, ok := info.Uses[fun].(*types.Builtin); ok && b.Name() == "panic" {
				return false
			}
		case *ast.SelectorExpr:
			if fn, ok := info.Uses[fun.Sel].(*types.Func); ok && fn.Pkg() != nil {
				full := fn.Pkg().Path() + "." + fn.Name()
				switch full {
				case "os.Exit", "log.Fatal", "log.Fatalf", "log.Fatalln", "log.Panic", "log.Panicf", "log.Panicln", "runtime.Goexit":
					return false
				}
			}
		}
		return true
	}
}

// GraphOf returns the (cached) graph of a declared function.
func (p *Program) GraphOf(fi *FuncInfo) *Graph {
	if fi.g == nil {
		fi.g = p.newGraph(fi.Decl, fi.Decl.Body, fi.Pkg.TypesInfo, fi.Name)
		fi.g.Fi = fi
	}
	return fi.g
}

// GraphOfLit builds the graph of a function literal found inside fi.
func (p *Program) GraphOfLit(fi *FuncInfo, lit *ast.FuncLit) *Graph {
	if g := litGraphs[lit]; g != nil {
		return g
	}
	g := p.newGraph(lit, lit.Body, fi.Pkg.TypesInfo, fi.Name+"$lit@"+p.Pos(lit))
	g.Fi = fi
	litGraphs[lit] = g
	return g
}

var litGraphs = map[*ast.FuncLit]*Graph{}

func (p *Program) newGraph(fn ast.Node, body *ast.BlockStmt, info *types.Info, name string) *Graph {
	g := &Graph{P: p, Info: info, Fn: fn, Body: body, Name: name, nodeAt: map[ast.Node]nodeLoc{}, live: map[*cfg.Block]bool{}}
	g.CFG = cfg.New(body, p.mayReturn(info))
	for _, b := range g.CFG.Blocks {
		for i, n := range b.Nodes {
			if _, dup := g.nodeAt[n]; !dup {
				g.nodeAt[n] = nodeLoc{b, i}
			}
		}
	}
	var walk func(b *cfg.Block)
	walk = func(b *cfg.Block) {
		if g.live[b] {
			return
		}
		g.live[b] = true
		for _, s := range b.Succs {
			walk(s)
		}
	}
	if len(g.CFG.Blocks) > 0 {
		walk(g.CFG.Blocks[0])
	}
	return g
}

// cfgNodeOf returns the CFG node that contains n (walking up the syntax tree).
// Select communications are hoisted by go/cfg into the block before the case
// chain; they are attributed to the case body instead (see loc()).
func (g *Graph) cfgNodeOf(n ast.Node) (ast.Node, bool) {
	for cur := n; cur != nil && cur != g.Fn; cur = g.P.Parent(cur) {
		if _, ok := g.nodeAt[cur]; ok {
			return cur, true
		}
		if _, isLit := cur.(*ast.FuncLit); isLit && cur != n {
			// n is inside a nested literal: belongs to the statement containing the literal
			continue
		}
	}
	return nil, false
}

// FirstNodeIn returns the first CFG node (in source order) inside statement n, or n itself.
func (g *Graph) FirstNodeIn(n ast.Node) ast.Node {
	var found ast.Node
	ast.Inspect(n, func(x ast.Node) bool {
		if found != nil || x == nil {
			return false
		}
		if _, ok := g.nodeAt[x]; ok {
			found = x
			return false
		}
		if _, isLit := x.(*ast.FuncLit); isLit {
			return false
		}
		return true
	})
	if found == nil {
		return n
	}
	return found
}

// ExitKind distinguishes function exits.
type ExitKind int

const (
	ExitReturn ExitKind = iota
	ExitFallOff
	ExitPanic
)

type Exit struct {
	Block *cfg.Block
	Kind  ExitKind
	Node  ast.Node // ReturnStmt, panic call statement, or nil
}

// Exits lists the live exits of the function.
func (g *Graph) Exits() []Exit {
	var out []Exit
	for _, b := range g.CFG.Blocks {
		if !g.live[b] || len(b.Succs) != 0 {
			continue
		}
		if len(b.Nodes) > 0 {
			last := b.Nodes[len(b.Nodes)-1]
			if rs, ok := last.(*ast.ReturnStmt); ok {
				out = append(out, Exit{b, ExitReturn, rs})
				continue
			}
			if es, ok := last.(*ast.ExprStmt); ok {
				if call, ok := es.X.(*ast.CallExpr); ok && !g.P.mayReturn(g.Info)(call) {
					out = append(out, Exit{b, ExitPanic, es})
					continue
				}
			}
		}
		if b.Kind == cfg.KindSelectAfterCase {
			// tail of a select without default: blocks forever, not an exit —
			// unless go/cfg placed the default body here (then it has successors or nodes ending in return)
			if len(b.Nodes) == 0 {
				continue
			}
		}
		out = append(out, Exit{b, ExitFallOff, nil})
	}
	return out
}

// edgeSteps returns the steps implied by taking edge b -> b.Succs[i].
func (g *Graph) edgeSteps(b *cfg.Block, i int) []Step {
	if len(b.Succs) != 2 {
		return nil
	}
	first := b.Succs[0]
	var last ast.Node
	if len(b.Nodes) > 0 {
		last = b.Nodes[len(b.Nodes)-1]
	}
	switch first.Kind {
	case cfg.KindIfThen, cfg.KindForBody:
		if e, ok := last.(ast.Expr); ok {
			return []Step{{Kind: StCond, Node: e, Val: i == 0}}
		}
	case cfg.KindSwitchCaseBody:
		cc, _ := first.Stmt.(*ast.CaseClause)
		if cc == nil {
			return nil
		}
		switch sw := g.P.Parent(g.P.Parent(cc)).(type) {
		case *ast.SwitchStmt:
			e, ok := last.(ast.Expr)
			if !ok {
				return nil
			}
			if sw.Tag == nil {
				return []Step{{Kind: StCond, Node: e, Val: i == 0}}
			}
			return []Step{{Kind: StCase, Node: e, Tag: sw.Tag, Val: i == 0, Clause: cc}}
		case *ast.TypeSwitchStmt:
			if i == 0 {
				return []Step{{Kind: StTypeCase, Clause: cc, Node: sw}}
			}
		}
	case cfg.KindSelectCaseBody:
		if i == 0 {
			return []Step{{Kind: StComm, Clause: first.Stmt}}
		}
	case cfg.KindRangeBody:
		return []Step{{Kind: StRange, Node: first.Stmt, Val: i == 0}}
	}
	return nil
}

// isHoistedComm reports whether CFG node n in block b is a select communication
// statement that go/cfg hoisted in front of the case chain.
func (g *Graph) isHoistedComm(n ast.Node) bool {
	if _, ok := n.(ast.Stmt); !ok {
		return false
	}
	cc, ok := g.P.Parent(n).(*ast.CommClause)
	return ok && cc.Comm == n
}

// Lattice describes a forward dataflow problem.
type Lattice[S any] struct {
	Init  S
	Widen func(a, b S) S // optional: used instead of Join once a block was revisited often
	Join  func(a, b S) S
	Eq    func(a, b S) bool
	Step  func(s S, st Step) S // must not mutate its argument
	// SkipEdge (optional): the edge b -> b.Succs[i] is infeasible and is not propagated along
	SkipEdge func(b *cfg.Block, i int) bool
	// Dead (optional): the state describes an infeasible point and is not propagated
	Dead func(s S) bool
}

type Solution[S any] struct {
	g   *Graph
	l   Lattice[S]
	in  map[*cfg.Block]S
	has map[*cfg.Block]bool
}

// Solve runs the forward dataflow to a fixed point.
func Solve[S any](g *Graph, l Lattice[S]) *Solution[S] {
	sol := &Solution[S]{g: g, l: l, in: map[*cfg.Block]S{}, has: map[*cfg.Block]bool{}}
	if len(g.CFG.Blocks) == 0 {
		return sol
	}
	entry := g.CFG.Blocks[0]
	sol.in[entry] = l.Init
	sol.has[entry] = true
	work := []*cfg.Block{entry}
	inWork := map[*cfg.Block]bool{entry: true}
	visits := map[*cfg.Block]int{}
	// a block with many predecessors (the join behind a switch) is legitimately updated once per predecessor:
	// widening starts only after that many updates and three more
	npreds := map[*cfg.Block]int{}
	for _, b := range g.CFG.Blocks {
		for _, s := range b.Succs {
			npreds[s]++
		}
	}
	iter := 0
	for len(work) > 0 {
		iter++
		if iter > 200000 {
			panic("dataflow did not converge in " + g.Name)
		}
		b := work[0]
		work = work[1:]
		inWork[b] = false
		out := sol.blockOut(b)
		for i, s := range b.Succs {
			if l.SkipEdge != nil && l.SkipEdge(b, i) {
				continue
			}
			st := out
			for _, es := range g.edgeSteps(b, i) {
				st = l.Step(st, es)
			}
			if l.Dead != nil && l.Dead(st) {
				continue
			}
			if !sol.has[s] {
				sol.in[s] = st
				sol.has[s] = true
			} else {
				visits[s]++
				join := l.Join
				if l.Widen != nil && visits[s] > 3+npreds[s] {
					join = l.Widen
				}
				j := join(sol.in[s], st)
				if l.Eq(j, sol.in[s]) {
					continue
				}
				sol.in[s] = j
			}
			if !inWork[s] {
				inWork[s] = true
				work = append(work, s)
			}
		}
	}
	return sol
}

func (sol *Solution[S]) blockOut(b *cfg.Block) S {
	st := sol.in[b]
	for _, n := range b.Nodes {
		if sol.g.isHoistedComm(n) {
			continue // attributed to StComm on the case edge
		}
		st = sol.l.Step(st, Step{Kind: StNode, Node: n})
	}
	return st
}

// Before returns the state immediately before the CFG node containing n; ok=false
// when n is unreachable or not part of this graph.
func (sol *Solution[S]) Before(n ast.Node) (S, bool) {
	var zero S
	g := sol.g
	// a select communication: state on entry of its case body
	if cc := enclosingCommOf(g.P, n, g.Fn); cc != nil {
		for _, b := range g.CFG.Blocks {
			if b.Kind == cfg.KindSelectCaseBody && b.Stmt == ast.Stmt(cc) && sol.has[b] {
				// state before the comm = in-state of predecessor chain; approximate by
				// the body's in-state minus the comm step: use predecessor out-state
				for _, pb := range g.CFG.Blocks {
					if !sol.has[pb] {
						continue
					}
					for _, s := range pb.Succs {
						if s == b {
							return sol.blockOut(pb), true
						}
					}
				}
			}
		}
		return zero, false
	}
	if br, isBr := n.(*ast.BranchStmt); isBr {
		return sol.beforeBranch(br)
	}
	cn, ok := g.cfgNodeOf(n)
	if !ok {
		return zero, false
	}
	locs := []nodeLoc{g.nodeAt[cn]}
	if all := g.nodeAll[cn]; len(all) > 1 {
		locs = all // a helper expanded at several call sites: join over its copies
	}
	var acc S
	found := false
	for _, loc := range locs {
		if !sol.has[loc.b] {
			continue
		}
		st := sol.in[loc.b]
		for i := 0; i < loc.i; i++ {
			if g.isHoistedComm(loc.b.Nodes[i]) {
				continue
			}
			st = sol.l.Step(st, Step{Kind: StNode, Node: loc.b.Nodes[i]})
		}
		if !found {
			acc, found = st, true
		} else {
			acc = sol.l.Join(acc, st)
		}
	}
	if !found {
		return zero, false
	}
	return acc, true
}

// BeforeEach returns the state before n at every copy of n in the graph (one per call site for a node of a helper
// that was expanded several times; one element otherwise). Unreachable copies are skipped.
func (sol *Solution[S]) BeforeEach(n ast.Node) []S {
	g := sol.g
	cn, ok := g.cfgNodeOf(n)
	if !ok {
		return nil
	}
	locs := []nodeLoc{g.nodeAt[cn]}
	if all := g.nodeAll[cn]; len(all) > 1 {
		locs = all
	}
	var out []S
	for _, loc := range locs {
		if !sol.has[loc.b] {
			continue
		}
		st := sol.in[loc.b]
		for i := 0; i < loc.i; i++ {
			if g.isHoistedComm(loc.b.Nodes[i]) {
				continue
			}
			st = sol.l.Step(st, Step{Kind: StNode, Node: loc.b.Nodes[i]})
		}
		out = append(out, st)
	}
	return out
}

// blockFor finds the live block of the given kind created for stmt.
func (sol *Solution[S]) blockFor(kind cfg.BlockKind, stmt ast.Node) *cfg.Block {
	for _, b := range sol.g.CFG.Blocks {
		if b.Kind == kind && b.Stmt == stmt && sol.has[b] {
			return b
		}
	}
	return nil
}

// beforeBranch: go/cfg does not record break/continue/goto as nodes; the state before one is the state after
// its previous sibling statement, or the entry state of the enclosing body.
func (sol *Solution[S]) beforeBranch(br *ast.BranchStmt) (S, bool) {
	var zero S
	g := sol.g
	idx, list := g.P.stmtIndex(br)
	if idx < 0 {
		return zero, false
	}
	if idx > 0 {
		prev := list[idx-1]
		if lb, ok := prev.(*ast.LabeledStmt); ok {
			prev = lb.Stmt
		}
		var done *cfg.Block
		switch prev.(type) {
		case *ast.IfStmt:
			done = sol.blockFor(cfg.KindIfDone, prev)
		case *ast.ForStmt:
			done = sol.blockFor(cfg.KindForDone, prev)
		case *ast.RangeStmt:
			done = sol.blockFor(cfg.KindRangeDone, prev)
		case *ast.SwitchStmt, *ast.TypeSwitchStmt:
			done = sol.blockFor(cfg.KindSwitchDone, prev)
		case *ast.SelectStmt:
			done = sol.blockFor(cfg.KindSelectDone, prev)
		case *ast.BlockStmt:
			return zero, false
		default:
			return sol.After(prev)
		}
		if done == nil {
			return zero, false
		}
		return sol.in[done], true
	}
	// first statement of its list: entry of the enclosing body
	var b *cfg.Block
	switch par := g.P.Parent(br).(type) {
	case *ast.CaseClause:
		b = sol.blockFor(cfg.KindSwitchCaseBody, par)
	case *ast.CommClause:
		b = sol.blockFor(cfg.KindSelectCaseBody, par)
	case *ast.BlockStmt:
		switch gp := g.P.Parent(par).(type) {
		case *ast.IfStmt:
			if gp.Body == par {
				b = sol.blockFor(cfg.KindIfThen, gp)
			} else {
				b = sol.blockFor(cfg.KindIfElse, gp)
			}
		case *ast.ForStmt:
			b = sol.blockFor(cfg.KindForBody, gp)
		case *ast.RangeStmt:
			b = sol.blockFor(cfg.KindRangeBody, gp)
		}
	}
	if b == nil {
		return zero, false
	}
	return sol.in[b], true
}

// After returns the state right after the CFG node containing n.
func (sol *Solution[S]) After(n ast.Node) (S, bool) {
	var zero S
	g := sol.g
	cn, ok := g.cfgNodeOf(n)
	if !ok {
		return zero, false
	}
	loc := g.nodeAt[cn]
	if !sol.has[loc.b] {
		return zero, false
	}
	st := sol.in[loc.b]
	for i := 0; i <= loc.i; i++ {
		if g.isHoistedComm(loc.b.Nodes[i]) {
			continue
		}
		st = sol.l.Step(st, Step{Kind: StNode, Node: loc.b.Nodes[i]})
	}
	return st, true
}

// EndOfBody returns the state where control falls off the end of a loop body (and goes on to the post statement /
// condition); ok=false when the end of the body cannot be reached.
func (sol *Solution[S]) EndOfBody(body *ast.BlockStmt) (S, bool) {
	var zero S
	if body == nil || len(body.List) == 0 {
		return zero, false
	}
	last := body.List[len(body.List)-1]
	if lb, ok := last.(*ast.LabeledStmt); ok {
		last = lb.Stmt
	}
	var done *cfg.Block
	switch x := last.(type) {
	case *ast.ReturnStmt, *ast.BranchStmt:
		return zero, false
	case *ast.IfStmt:
		done = sol.blockFor(cfg.KindIfDone, last)
	case *ast.ForStmt:
		done = sol.blockFor(cfg.KindForDone, last)
	case *ast.RangeStmt:
		done = sol.blockFor(cfg.KindRangeDone, last)
	case *ast.SwitchStmt, *ast.TypeSwitchStmt:
		done = sol.blockFor(cfg.KindSwitchDone, last)
	case *ast.SelectStmt:
		done = sol.blockFor(cfg.KindSelectDone, last)
	case *ast.BlockStmt:
		return sol.EndOfBody(x)
	default:
		return sol.After(last)
	}
	if done == nil || !sol.has[done] {
		return zero, false
	}
	return sol.in[done], true
}

// backEdge is one way a loop body hands control back to the loop head.
type backEdge[S any] struct {
	Node  ast.Node // the continue statement, or the last statement of the body
	State S
}

// BackEdges: the states at the `continue` statements of the loop fs positioned after pos and at the end of its body.
func BackEdges[S any](p *Program, sol *Solution[S], fs *ast.ForStmt, pos token.Pos) []backEdge[S] {
	var out []backEdge[S]
	ast.Inspect(fs.Body, func(x ast.Node) bool {
		if _, isLit := x.(*ast.FuncLit); isLit {
			return false
		}
		br, ok := x.(*ast.BranchStmt)
		if !ok || br.Tok != token.CONTINUE || br.Pos() < pos {
			return true
		}
		// a continue of an inner loop is not a back edge of fs
		inner := p.enclosing(br, fs, func(n ast.Node) bool {
			switch n.(type) {
			case *ast.ForStmt, *ast.RangeStmt:
				return true
			}
			return false
		})
		if br.Label == nil && inner != nil && inner != ast.Node(fs) {
			return true
		}
		if st, ok := sol.Before(br); ok {
			out = append(out, backEdge[S]{br, st})
		}
		return true
	})
	if st, ok := sol.EndOfBody(fs.Body); ok && len(fs.Body.List) > 0 {
		out = append(out, backEdge[S]{fs.Body.List[len(fs.Body.List)-1], st})
	}
	return out
}

// AtExit returns the out-state of an exit block.
func (sol *Solution[S]) AtExit(e Exit) (S, bool) {
	var zero S
	if !sol.has[e.Block] {
		return zero, false
	}
	return sol.blockOut(e.Block), true
}

// Reachable reports whether the CFG node containing n is reachable.
func (sol *Solution[S]) Reachable(n ast.Node) bool {
	_, ok := sol.Before(n)
	return ok
}

// enclosingCommOf: if n is (part of) the Comm statement of a select clause inside fn, return that clause.
func enclosingCommOf(p *Program, n ast.Node, fn ast.Node) *ast.CommClause {
	for cur := n; cur != nil && cur != fn; cur = p.Parent(cur) {
		par := p.Parent(cur)
		if cc, ok := par.(*ast.CommClause); ok && cc.Comm == cur {
			return cc
		}
		if _, ok := cur.(ast.Stmt); ok {
			// reached a statement that is not a Comm
			if cc, ok := par.(*ast.CommClause); !ok || cc.Comm != cur {
				return nil
			}
		}
	}
	return nil
}

// ---------------------------------------------------------------------------
// string sets (persistent-ish: copied on write)

type strset map[string]bool

func (s strset) with(k string) strset {
	if s[k] {
		return s
	}
	n := make(strset, len(s)+1)
	for x := range s {
		n[x] = true
	}
	n[k] = true
	return n
}

func (s strset) without(k string) strset {
	if !s[k] {
		return s
	}
	n := make(strset, len(s))
	for x := range s {
		if x != k {
			n[x] = true
		}
	}
	return n
}

func (s strset) intersect(o strset) strset {
	n := strset{}
	for x := range s {
		if o[x] {
			n[x] = true
		}
	}
	return n
}

func (s strset) union(o strset) strset {
	n := strset{}
	for x := range s {
		n[x] = true
	}
	for x := range o {
		n[x] = true
	}
	return n
}

func (s strset) eq(o strset) bool {
	if len(s) != len(o) {
		return false
	}
	for x := range s {
		if !o[x] {
			return false
		}
	}
	return true
}

func (s strset) sorted() []string {
	out := make([]string, 0, len(s))
	for x := range s {
		out = append(out, x)
	}
	sort.Strings(out)
	return out
}

// ---------------------------------------------------------------------------
// Event analysis: which named events MUST / MAY have happened, and how often.

// EvState: Must = events that happened on every path; Max = upper bound (capped at 2)
// of occurrences on some path; Deferred = events registered by defer statements.
type EvState struct {
	Must     strset
	Max      map[string]int
	Deferred strset
	// Pending: `..., ok := helper()` with a boolean last result: the helper's events per outcome, applied when the
	// variable is tested (until then the helper's events count as possible, not as certain)
	Pending map[string]*pendEvents
}

type pendEvents struct {
	whenTrue, whenFalse *evSummary
	applied             map[string]int // what was already added to Max at the call (the larger outcome)
}

// Classifier maps a step to the events it performs (in order).
type Classifier func(st Step) []string

type EventFlow struct {
	Sol *Solution[EvState]
	g   *Graph
}

func copyMax(m map[string]int) map[string]int {
	n := make(map[string]int, len(m)+1)
	for k, v := range m {
		n[k] = v
	}
	return n
}

// Events solves the event analysis. Events emitted by a classifier for a
// *ast.DeferStmt node are recorded as deferred (they happen at every exit after it).
func (g *Graph) Events(cl Classifier) *EventFlow {
	return g.eventsAt(cl, 0, map[*FuncInfo]*evSummary{})
}

// evSummary: what a callee does on all of its (non-panicking) paths: events on every path (must) and the
// largest number of occurrences on any path (max).
type evSummary struct {
	must strset
	max  map[string]int
}

// calleeSummary returns the event summary of a function of the same package called from a node of g, so that
// a block of statements that was extracted into a helper still counts where it is called. Function literals,
// go statements and recursion are not followed.
func (g *Graph) calleeSummary(cl Classifier, fi *FuncInfo, depth int, cache map[*FuncInfo]*evSummary) *evSummary {
	if s, ok := cache[fi]; ok {
		return s // nil while in progress (recursion)
	}
	cache[fi] = nil
	cg := g.P.GraphOf(fi)
	ef := cg.eventsAt(cl, depth+1, cache)
	sum := &evSummary{max: map[string]int{}}
	first := true
	for _, e := range cg.Exits() {
		if e.Kind == ExitPanic {
			continue
		}
		st, ok := ef.ExitState(e)
		if !ok {
			continue
		}
		if first {
			sum.must, first = st.Must, false
		} else {
			sum.must = sum.must.intersect(st.Must)
		}
		for k, v := range st.Max {
			if v > sum.max[k] {
				sum.max[k] = v
			}
		}
	}
	if first {
		sum.must = strset{}
	}
	cache[fi] = sum
	return sum
}

// condCallee: e is (a negation of) a call to a boolean function of this package with a body.
func (g *Graph) condCallee(e ast.Node) (*FuncInfo, bool) {
	x, ok := e.(ast.Expr)
	if !ok || g.Fi == nil {
		return nil, false
	}
	neg := false
	x = ast.Unparen(x)
	for {
		if u, isU := x.(*ast.UnaryExpr); isU && u.Op == token.NOT {
			x, neg = ast.Unparen(u.X), !neg
			continue
		}
		break
	}
	c, ok := x.(*ast.CallExpr)
	if !ok {
		return nil, false
	}
	if g.inl != nil && g.inl.calls[c] {
		return nil, false
	}
	fn := calleeOf(g.Info, c)
	if fn == nil {
		return nil, false
	}
	callee := g.P.FuncOf(fn)
	if callee == nil || callee == g.Fi || callee.Decl.Body == nil || callee.Pkg != g.Fi.Pkg {
		return nil, false
	}
	sig := fn.Type().(*types.Signature)
	if sig.Results().Len() != 1 {
		return nil, false
	}
	if b, isB := sig.Results().At(0).Type().Underlying().(*types.Basic); !isB || b.Kind() != types.Bool {
		return nil, false
	}
	// arguments that are calls themselves would be skipped with it: only plain calls
	for _, a := range c.Args {
		if len(callsIn(a)) > 0 {
			return nil, false
		}
	}
	return callee, neg
}

// calleeSummaryWhen is calleeSummary restricted to the exits of a boolean function that return val (returns of
// a non-constant value count for both outcomes).
func (g *Graph) calleeSummaryWhen(cl Classifier, fi *FuncInfo, val bool, depth int, cache map[*FuncInfo]*evSummary) *evSummary {
	old, had := cache[fi]
	if had && old == nil {
		return nil // in progress (recursion)
	}
	cache[fi] = nil
	defer func() {
		if had {
			cache[fi] = old
		} else {
			delete(cache, fi)
		}
	}()
	cg := g.P.GraphOf(fi)
	ef := cg.eventsAt(cl, depth+1, cache)
	sum := &evSummary{max: map[string]int{}}
	first := true
	for _, e := range cg.Exits() {
		if e.Kind == ExitPanic {
			continue
		}
		if rs, ok := e.Node.(*ast.ReturnStmt); ok && len(rs.Results) >= 1 {
			last := rs.Results[len(rs.Results)-1]
			if tv, has := cg.Info.Types[last]; has && tv.Value != nil && tv.Value.Kind() == constant.Bool && constant.BoolVal(tv.Value) != val {
				continue
			}
		}
		st, ok := ef.ExitState(e)
		if !ok {
			continue
		}
		if first {
			sum.must, first = st.Must, false
		} else {
			sum.must = sum.must.intersect(st.Must)
		}
		for k, v := range st.Max {
			if v > sum.max[k] {
				sum.max[k] = v
			}
		}
	}
	if first {
		sum.must = strset{}
	}
	return sum
}

func (g *Graph) eventsAt(cl Classifier, depth int, cache map[*FuncInfo]*evSummary) *EventFlow {
	// callee events for a node
	calleeEvents := func(n ast.Node) (must []string, may map[string]int) {
		if depth >= 2 || g.Fi == nil {
			return nil, nil
		}
		switch n.(type) {
		case *ast.GoStmt, *ast.DeferStmt:
			return nil, nil
		}
		if callee, _ := g.condCallee(n); callee != nil && g.isBranchCond(n) {
			return nil, nil // attributed per outcome on the branch edges
		}
		if _, callee := g.okHelperAssign(n); callee != nil && depth < 2 {
			return nil, nil // attributed when the ok variable is tested
		}
		inspectNoLit(n, func(x ast.Node) bool {
			c, ok := x.(*ast.CallExpr)
			if !ok {
				return true
			}
			if g.inl != nil && g.inl.calls[c] {
				return true // the callee's own steps are part of this graph
			}
			fn := calleeOf(g.Info, c)
			if fn == nil {
				return true
			}
			callee := g.P.FuncOf(fn)
			if callee == nil || callee == g.Fi || callee.Decl.Body == nil || callee.Pkg != g.Fi.Pkg {
				return true
			}
			sum := g.calleeSummary(cl, callee, depth, cache)
			if sum == nil {
				return true
			}
			for e := range sum.must {
				must = append(must, e)
			}
			for e, k := range sum.max {
				if !sum.must[e] {
					if may == nil {
						may = map[string]int{}
					}
					if k > may[e] {
						may[e] = k
					}
				} else if k > 1 {
					if may == nil {
						may = map[string]int{}
					}
					may[e] = k - 1
				}
			}
			return true
		})
		sort.Strings(must)
		return
	}
	var skip func(b *cfg.Block, i int) bool
	if g.inl != nil {
		skip = g.deadEdge
	}
	l := Lattice[EvState]{
		SkipEdge: skip,
		Init:     EvState{Must: strset{}, Max: map[string]int{}, Deferred: strset{}},
		Join: func(a, b EvState) EvState {
			mx := copyMax(a.Max)
			for k, v := range b.Max {
				if v > mx[k] {
					mx[k] = v
				}
			}
			var pend map[string]*pendEvents
			for k, v := range a.Pending {
				if b.Pending[k] == v {
					if pend == nil {
						pend = map[string]*pendEvents{}
					}
					pend[k] = v
				}
			}
			return EvState{Must: a.Must.intersect(b.Must), Max: mx, Deferred: a.Deferred.intersect(b.Deferred), Pending: pend}
		},
		Eq: func(a, b EvState) bool {
			if !a.Must.eq(b.Must) || !a.Deferred.eq(b.Deferred) || len(a.Max) != len(b.Max) || len(a.Pending) != len(b.Pending) {
				return false
			}
			for k, v := range a.Pending {
				if b.Pending[k] != v {
					return false
				}
			}
			for k, v := range a.Max {
				if b.Max[k] != v {
					return false
				}
			}
			return true
		},
		Step: func(s EvState, st Step) EvState {
			evs := cl(st)
			var may map[string]int
			// a condition with && / ||: only its first operand is certainly evaluated; what the classifier sees in the
			// other operands may happen (go/cfg keeps the whole condition in one node)
			if st.Kind == StNode && len(evs) > 0 {
				if ce, isExpr := st.Node.(ast.Expr); isExpr {
					if first := firstOperand(ce); first != ce {
						certain := cl(Step{Kind: StNode, Node: first})
						left := map[string]int{}
						for _, e := range certain {
							left[e]++
						}
						var rest []string
						for _, e := range evs {
							if left[e] > 0 {
								left[e]--
								continue
							}
							rest = append(rest, e)
						}
						evs = certain
						if len(rest) > 0 {
							may = map[string]int{}
							for _, e := range rest {
								may[e]++
							}
						}
					}
				}
			}
			// a variable holding a pending outcome is re-assigned: forget it
			if st.Kind == StNode && len(s.Pending) > 0 {
				for _, l := range assignedLHS(st.Node) {
					if id, ok := l.(*ast.Ident); ok && s.Pending[id.Name] != nil {
						np := map[string]*pendEvents{}
						for k, v := range s.Pending {
							if k != id.Name {
								np[k] = v
							}
						}
						s = EvState{Must: s.Must, Max: s.Max, Deferred: s.Deferred, Pending: np}
					}
				}
			}
			if st.Kind == StNode && depth < 2 {
				if okName, callee := g.okHelperAssign(st.Node); callee != nil {
					// events of the helper are attributed when ok is tested; until then they are possible
					pt := g.calleeSummaryWhen(cl, callee, true, depth, cache)
					pf := g.calleeSummaryWhen(cl, callee, false, depth, cache)
					if pt != nil && pf != nil {
						pe := &pendEvents{whenTrue: pt, whenFalse: pf, applied: map[string]int{}}
						mx := copyMax(s.Max)
						for _, sum := range []*evSummary{pt, pf} {
							for e, k := range sum.max {
								if k > pe.applied[e] {
									pe.applied[e] = k
								}
							}
						}
						for e, k := range pe.applied {
							mx[e] += k
							if mx[e] > 2 {
								mx[e] = 2
							}
						}
						np := map[string]*pendEvents{}
						for k, v := range s.Pending {
							np[k] = v
						}
						if okName != "_" {
							np[okName] = pe
						}
						// events certain on both outcomes are certain now
						must := s.Must
						for e := range pt.must {
							if pf.must[e] {
								must = must.with(e)
							}
						}
						s = EvState{Must: must, Max: mx, Deferred: s.Deferred, Pending: np}
						evs = cl(st)
						if len(evs) == 0 {
							return s
						}
						must2, mx2 := s.Must, copyMax(s.Max)
						for _, e := range evs {
							must2 = must2.with(e)
							if mx2[e] < 2 {
								mx2[e]++
							}
						}
						return EvState{Must: must2, Max: mx2, Deferred: s.Deferred, Pending: s.Pending}
					}
				}
			}
			if st.Kind == StCond && len(s.Pending) > 0 {
				ce, val := ast.Unparen(st.Node.(ast.Expr)), st.Val
				for {
					if u, ok := ce.(*ast.UnaryExpr); ok && u.Op == token.NOT {
						ce, val = ast.Unparen(u.X), !val
						continue
					}
					break
				}
				if id, ok := ce.(*ast.Ident); ok {
					if pe := s.Pending[id.Name]; pe != nil {
						sum := pe.whenFalse
						if val {
							sum = pe.whenTrue
						}
						must, mx := s.Must, copyMax(s.Max)
						for e := range sum.must {
							must = must.with(e)
						}
						// the outcome is known: the possible count is this outcome's, not the larger one
						for e, k := range pe.applied {
							if d := k - sum.max[e]; d > 0 && mx[e] >= d {
								mx[e] -= d
							}
						}
						s = EvState{Must: must, Max: mx, Deferred: s.Deferred, Pending: s.Pending}
					}
				}
			}
			if st.Kind == StNode {
				m, y := calleeEvents(st.Node)
				evs = append(evs, m...)
				for e, k := range y {
					if may == nil {
						may = map[string]int{}
					}
					may[e] += k
				}
				// defer helper(...): what the helper does on every path happens at the exit
				if d, isDefer := st.Node.(*ast.DeferStmt); isDefer && depth < 2 && g.Fi != nil {
					if _, isLit := ast.Unparen(d.Call.Fun).(*ast.FuncLit); !isLit {
						if fn := calleeOf(g.Info, d.Call); fn != nil {
							if callee := g.P.FuncOf(fn); callee != nil && callee != g.Fi && callee.Decl.Body != nil && callee.Pkg == g.Fi.Pkg {
								if sum := g.calleeSummary(cl, callee, depth, cache); sum != nil {
									var ms []string
									for e := range sum.must {
										ms = append(ms, e)
									}
									sort.Strings(ms)
									evs = append(evs, ms...)
								}
							}
						}
					}
				}
			}
			if st.Kind == StCond && depth < 2 {
				if callee, neg := g.condCallee(st.Node); callee != nil && g.isBranchCond(st.Node) {
					if sum := g.calleeSummaryWhen(cl, callee, st.Val != neg, depth, cache); sum != nil {
						var ms []string
						for e := range sum.must {
							ms = append(ms, e)
						}
						sort.Strings(ms)
						evs = append(evs, ms...)
						for e, k := range sum.max {
							extra := k
							if sum.must[e] {
								extra = k - 1
							}
							if extra > 0 {
								if may == nil {
									may = map[string]int{}
								}
								may[e] = extra
							}
						}
					}
				}
			}
			if len(evs) == 0 && len(may) == 0 {
				return s
			}
			if len(may) > 0 {
				mx := copyMax(s.Max)
				for e, k := range may {
					mx[e] += k
					if mx[e] > 2 {
						mx[e] = 2
					}
				}
				s = EvState{Must: s.Must, Max: mx, Deferred: s.Deferred, Pending: s.Pending}
				if len(evs) == 0 {
					return s
				}
			}
			if st.Kind == StNode {
				if _, isDefer := st.Node.(*ast.DeferStmt); isDefer {
					d := s.Deferred
					for _, e := range evs {
						d = d.with(e)
					}
					return EvState{Must: s.Must, Max: s.Max, Deferred: d, Pending: s.Pending}
				}
			}
			must, mx := s.Must, copyMax(s.Max)
			for _, e := range evs {
				must = must.with(e)
				if mx[e] < 2 {
					mx[e]++
				}
			}
			return EvState{Must: must, Max: mx, Deferred: s.Deferred, Pending: s.Pending}
		},
	}
	return &EventFlow{Sol: Solve(g, l), g: g}
}

// ExitState returns the state at an exit with deferred events applied.
func (ef *EventFlow) ExitState(e Exit) (EvState, bool) {
	s, ok := ef.Sol.AtExit(e)
	if !ok {
		return s, false
	}
	must, mx := s.Must, copyMax(s.Max)
	for d := range s.Deferred {
		must = must.with(d)
		if mx[d] < 2 {
			mx[d]++
		}
	}
	return EvState{Must: must, Max: mx, Deferred: s.Deferred}, true
}

// ---------------------------------------------------------------------------
// helpers on syntax

// inspectNoLit walks n without descending into function literals.
func inspectNoLit(n ast.Node, f func(ast.Node) bool) {
	ast.Inspect(n, func(x ast.Node) bool {
		if x == nil {
			return true
		}
		if _, ok := x.(*ast.FuncLit); ok && x != n {
			return false
		}
		return f(x)
	})
}

func posWithin(n ast.Node, pos token.Pos) bool {
	return n != nil && n.Pos() <= pos && pos < n.End()
}

// MustBefore returns the events that have happened on every path before node n of function fn, including — when
// fn is a private helper — the events that happened in its callers before every call (two levels). mk builds the
// classifier for a given function's graph.
func (p *Program) MustBefore(mk func(g *Graph) Classifier, fn *FuncInfo, n ast.Node, depth int) strset {
	g := p.GraphOf(fn)
	ef := g.Events(mk(g))
	var node ast.Node = n
	if cn, ok := g.cfgNodeOf(n); ok {
		node = cn
	}
	s, ok := ef.Sol.Before(node)
	out := strset{}
	if ok {
		for k := range s.Must {
			out = out.with(k)
		}
	}
	if depth >= 2 || fn.Obj == nil || fn.Obj.Exported() {
		return out
	}
	var common strset
	nsites := 0
	for _, caller := range p.SortedFuncs() {
		if caller.Decl.Body == nil || caller.Pkg != fn.Pkg || caller == fn {
			continue
		}
		for _, c := range callsIn(caller.Decl.Body) {
			if f := calleeOf(caller.Pkg.TypesInfo, c); f != nil && p.FuncOf(f) == fn {
				if _, inLit := p.enclosingFuncNode(c).(*ast.FuncLit); inLit {
					return out // called from a closure: caller state unknown
				}
				nsites++
				cs := p.MustBefore(mk, caller, c, depth+1)
				if common == nil {
					common = cs
				} else {
					common = common.intersect(cs)
				}
			}
		}
	}
	if nsites > 0 {
		for k := range common {
			out = out.with(k)
		}
	}
	return out
}

// isBranchCond: n is the condition expression that ends a CFG block with two successors (if / for).
func (g *Graph) isBranchCond(n ast.Node) bool {
	for _, b := range g.CFG.Blocks {
		if len(b.Succs) == 2 && len(b.Nodes) > 0 && b.Nodes[len(b.Nodes)-1] == n {
			switch b.Succs[0].Kind {
			case cfg.KindIfThen, cfg.KindForBody:
				return true
			}
		}
	}
	return false
}

// okHelperAssign: n is `..., ok := helper(args)` / `=` where helper is a function of this package with a body whose
// last result is a bool and ok is an identifier: returns ok's name and the helper.
func (g *Graph) okHelperAssign(n ast.Node) (string, *FuncInfo) {
	as, isAs := n.(*ast.AssignStmt)
	if !isAs || len(as.Rhs) != 1 || len(as.Lhs) < 2 || g.Fi == nil {
		return "", nil
	}
	c, isCall := ast.Unparen(as.Rhs[0]).(*ast.CallExpr)
	if !isCall || g.inl != nil && g.inl.calls[c] {
		return "", nil
	}
	fn := calleeOf(g.Info, c)
	if fn == nil {
		return "", nil
	}
	callee := g.P.FuncOf(fn)
	if callee == nil || callee == g.Fi || callee.Decl.Body == nil || callee.Pkg != g.Fi.Pkg {
		return "", nil
	}
	sig := fn.Type().(*types.Signature)
	if sig.Results().Len() != len(as.Lhs) {
		return "", nil
	}
	if b, isB := sig.Results().At(sig.Results().Len() - 1).Type().Underlying().(*types.Basic); !isB || b.Kind() != types.Bool {
		return "", nil
	}
	id, isId := as.Lhs[len(as.Lhs)-1].(*ast.Ident)
	if !isId {
		return "", nil
	}
	for _, a := range c.Args {
		if len(callsIn(a)) > 0 {
			return "", nil
		}
	}
	return id.Name, callee
}

// deadEdge: the guard facts prove that the edge b -> b.Succs[i] cannot be taken (the branch condition contradicts
// what is known at the end of b). Used by the other analyses of inlined graphs, where the copies of a branch that
// follow the different returns of a helper each know the value that was returned.
func (g *Graph) deadEdge(b *cfg.Block, i int) bool {
	if g.deadEdges == nil {
		g.deadEdges = map[*cfg.Block][]bool{}
		sol := g.GuardFacts()
		lat := g.factsLattice()
		for _, blk := range g.CFG.Blocks {
			if !sol.has[blk] || len(blk.Succs) < 2 {
				continue
			}
			out := sol.blockOut(blk)
			flags := make([]bool, len(blk.Succs))
			for j := range blk.Succs {
				st := out
				for _, es := range g.edgeSteps(blk, j) {
					st = lat.Step(st, es)
				}
				flags[j] = st.dead
			}
			g.deadEdges[blk] = flags
		}
	}
	fl := g.deadEdges[b]
	return i < len(fl) && fl[i]
}

// firstOperand: the operand of a short-circuit condition that is evaluated whenever the condition is (e itself when
// it has no && / ||).
func firstOperand(e ast.Expr) ast.Expr {
	x := ast.Unparen(e)
	if u, ok := x.(*ast.UnaryExpr); ok && u.Op == token.NOT {
		if inner := firstOperand(u.X); inner != u.X {
			return inner
		}
		return e
	}
	if b, ok := x.(*ast.BinaryExpr); ok && (b.Op == token.LAND || b.Op == token.LOR) {
		return firstOperand(b.X)
	}
	return e
}

func isShortCircuit(e ast.Expr) bool {
	b, ok := ast.Unparen(e).(*ast.BinaryExpr)
	return ok && (b.Op == token.LAND || b.Op == token.LOR)
}
