package main

import (
	"fmt"
	"go/ast"
	"go/token"
	"go/types"
	"sort"
	"strings"
)

// E6b: guarded primitive sequences.
//
// A path-sensitive abstract interpretation of the frame writers / readers: the protocol version is a
// concrete lattice constant, every other branch condition is an atom that is assumed true or false once per
// path, local boolean / flag variables are constant-propagated, and the result of each path is the sequence of
// protocol primitives (write*/read*) performed, with loops kept as nested sequences. No gocql code runs; the
// interpreter only understands the statement shapes the framer uses and reports anything else as
// "unsupported" (which fails the rule rather than being guessed).

type TraceItem struct {
	Prim   string // "[short]", "[int]", "[bytes]", "header", "finish", "loop", "panic", "return-error", ...
	Arg    string // source text of the (first) argument / destination
	Val    int64  // value of the argument when it is a constant or a constant-propagated local (flags)
	HasVal bool
	Body   []TraceItem
	Pos    token.Pos
	Bytes  []ByteItem // "bytes": what is appended to the tracked buffer
	Off    int        // "store": constant offset into the tracked buffer
	Expr   ast.Expr   // "field": the value assigned to a tracked struct field
	Args   []string   // primitive call: every argument, with local copies / inlined parameters resolved
	Recv   string     // primitive call: the receiver, resolved
	Dst    string     // primitive call: the variable its (first) result is assigned to
	End    string     // loop: how the interpreted pass through the body ended ("", "next-iteration", "return", "panic")
	Call   *ast.CallExpr
	Fn     *FuncInfo // function the call appears in
}

func (t TraceItem) String() string {
	if t.Prim == "loop" {
		return "loop{" + traceStr(t.Body) + "}"
	}
	if t.Arg != "" {
		return t.Prim + "(" + t.Arg + ")"
	}
	return t.Prim
}

func traceStr(ts []TraceItem) string {
	var s []string
	for _, t := range ts {
		s = append(s, t.String())
	}
	return strings.Join(s, " ")
}

// primKinds maps framer methods to protocol notations.
var writePrims = map[string]string{
	"(*framer).writeByte": "[byte]", "(*framer).writeShort": "[short]", "(*framer).writeInt": "[int]", "(*framer).writeUint": "[int]",
	"(*framer).writeLong": "[long]", "(*framer).writeString": "[string]", "(*framer).writeLongString": "[long string]",
	"(*framer).writeBytes": "[bytes]", "(*framer).writeShortBytes": "[short bytes]", "(*framer).writeUnset": "[unset]",
	"(*framer).writeConsistency": "[consistency]", "(*framer).writeStringList": "[string list]", "(*framer).writeStringMap": "[string map]",
	"(*framer).writeBytesMap": "[bytes map]", "(*framer).writeInet": "[inet]", "(*framer).writeUUID": "[uuid]",
	"(*framer).writeHeader": "header", "(*framer).finish": "finish", "(*framer).payload": "set-payload-flag", "(*framer).trace": "set-trace-flag",
}

var readPrims = map[string]string{
	"(*framer).readByte": "[byte]", "(*framer).readShort": "[short]", "(*framer).readInt": "[int]", "(*framer).readLong": "[long]",
	"(*framer).readString": "[string]", "(*framer).readLongString": "[long string]", "(*framer).readBytes": "[bytes]",
	"(*framer).readShortBytes": "[short bytes]", "(*framer).readUUID": "[uuid]", "(*framer).readStringList": "[string list]",
	"(*framer).readStringMultiMap": "[string multimap]", "(*framer).readBytesMap": "[bytes map]", "(*framer).readInet": "[inet]",
	"(*framer).readInetAdressOnly": "[inetaddr]", "(*framer).readConsistency": "[consistency]", "(*framer).readBytesInternal": "[bytes]",
	"(*framer).readTrace": "[uuid]", "(*framer).readTypeInfo": "[option]",
}

type pathState struct {
	version  int
	alias    map[string]string // local name -> source text it stands for (len(x) copies, inlined parameters)
	assume   map[string]bool
	store    map[string]int64 // local bool (0/1) and flag variables
	known    map[string]bool  // which store entries are known
	trace    []TraceItem
	done     string // "", "return", "panic"
	depth    int
	rets     []retVal              // values returned by the most recently inlined callee (constant-propagated where known)
	sel      map[string]*selSet    // subject expression -> the constants it can still equal on this path (value dispatch)
	retStmt  *ast.ReturnStmt       // the return statement of the interpreted function that ended this path
	retName  string                // the variable the most recently inlined callee returned as its first result
	retExprs []ast.Expr            // the result expressions of the most recently inlined callee's return
	aliasE   map[string]aliasExpr  // boolean locals that name a condition: the condition itself (valid while alias[name] == text)
	loopSel  map[string]*selSet    // dispatch decisions taken inside a loop body (reported, never used to prune)
	fieldE   map[string]ast.Expr   // "x.f" -> the boolean condition stored in that field by a composite literal / assignment
	fieldA   map[string]fieldAtom  // "x.f" -> the same condition reduced to one atom / a constant (valid in any scope)
	valT     map[string]types.Type // local -> the concrete type of the value an inlined helper returned for it
}

// fieldAtom: a stored boolean condition that is a constant on this path or a single atom.
type fieldAtom struct {
	name    string
	pol     bool // the field is true iff the atom has this value
	isConst bool
	val     bool
}

// condAtom reduces the boolean expression e, evaluated in st, to a constant or a single atom.
func (tr *tracer) condAtom(info *types.Info, e ast.Expr, st *pathState) (fieldAtom, bool) {
	probe := st.clone()
	conts := tr.evalBool(info, e, probe)
	if len(conts) == 1 && len(conts[0].st.assume) == len(st.assume) {
		return fieldAtom{isConst: true, val: conts[0].val}, true
	}
	if len(conts) != 2 {
		return fieldAtom{}, false
	}
	name := ""
	pol := false
	for _, c := range conts {
		var added []string
		for k := range c.st.assume {
			if _, had := st.assume[k]; !had {
				added = append(added, k)
			}
		}
		if len(added) != 1 || name != "" && added[0] != name {
			return fieldAtom{}, false
		}
		name = added[0]
		if c.st.assume[name] {
			pol = c.val
		}
	}
	return fieldAtom{name: name, pol: pol}, true
}

func (tr *tracer) evalFieldAtom(fa fieldAtom, st *pathState) []boolCont {
	if fa.isConst {
		return []boolCont{{st, fa.val}}
	}
	return tr.atom(fa.name, st, fa.pol)
}

type aliasExpr struct {
	text string
	e    ast.Expr
}

// selSet constrains a dispatch subject (an opcode, a kind, a type id, an event name): in is the set of constants
// it equals (nil: unconstrained), out the constants it is known to differ from. Both a switch on the subject and
// a chain of ==/!= tests refine it, so that the two spellings of a dispatch give the same paths.
type selSet struct {
	in, out map[string]string // canonical constant -> display label (Name=0x..)
}

func (s *selSet) clone() *selSet {
	n := &selSet{out: map[string]string{}}
	if s.in != nil {
		n.in = map[string]string{}
		for k, v := range s.in {
			n.in[k] = v
		}
	}
	for k, v := range s.out {
		n.out[k] = v
	}
	return n
}

func (s *selSet) String() string {
	var a []string
	if s.in != nil {
		for k := range s.in {
			a = append(a, k)
		}
		sort.Strings(a)
		return "in{" + strings.Join(a, ",") + "}"
	}
	for k := range s.out {
		a = append(a, k)
	}
	sort.Strings(a)
	return "out{" + strings.Join(a, ",") + "}"
}

func (s *pathState) selOf(subj string) *selSet {
	if s.sel == nil {
		s.sel = map[string]*selSet{}
	}
	if x, ok := s.sel[subj]; ok {
		return x
	}
	x := &selSet{out: map[string]string{}}
	s.sel[subj] = x
	return x
}

// selected returns the display labels (constant names) the subject with the given suffix is restricted to on
// this path; ok=false when the path does not restrict it to a finite set (the "anything else" path).
func (s *pathState) selected(suffix string) (names []string, ok bool) {
	var keys []string
	for k := range s.sel {
		keys = append(keys, k)
	}
	sort.Strings(keys)
	for _, k := range keys {
		if !strings.HasSuffix(k, suffix) || s.sel[k].in == nil {
			continue
		}
		for _, lbl := range s.sel[k].in {
			names = append(names, strings.SplitN(lbl, "=", 2)[0])
		}
		sort.Strings(names)
		return names, true
	}
	return nil, false
}

// excluded: the labels the subject is known to differ from on this path.
func (s *pathState) excluded(suffix string) (names []string) {
	for k, x := range s.sel {
		if strings.HasSuffix(k, suffix) && x.in == nil {
			for _, lbl := range x.out {
				names = append(names, strings.SplitN(lbl, "=", 2)[0])
			}
		}
	}
	sort.Strings(names)
	return
}

func (s *pathState) killSel(name string) {
	for k := range s.sel {
		if mentions(k, name) {
			delete(s.sel, k)
		}
	}
}

func (s *pathState) selStr() string {
	var ks []string
	for k, v := range s.sel {
		ks = append(ks, k+":"+v.String())
	}
	sort.Strings(ks)
	return strings.Join(ks, " ")
}

type retVal struct {
	val   int64
	known bool
}

func (s *pathState) clone() *pathState {
	n := &pathState{version: s.version, alias: map[string]string{}, assume: map[string]bool{}, store: map[string]int64{}, known: map[string]bool{}, done: s.done, depth: s.depth}
	for k, v := range s.alias {
		n.alias[k] = v
	}
	for k, v := range s.assume {
		n.assume[k] = v
	}
	for k, v := range s.store {
		n.store[k] = v
	}
	for k, v := range s.known {
		n.known[k] = v
	}
	n.trace = append([]TraceItem{}, s.trace...)
	n.rets = append([]retVal{}, s.rets...)
	if len(s.sel) > 0 {
		n.sel = map[string]*selSet{}
		for k, v := range s.sel {
			n.sel[k] = v.clone()
		}
	}
	n.retStmt = s.retStmt
	n.retName = s.retName
	n.retExprs = s.retExprs
	if len(s.loopSel) > 0 {
		n.loopSel = map[string]*selSet{}
		for k, v := range s.loopSel {
			n.loopSel[k] = v
		}
	}
	if len(s.valT) > 0 {
		n.valT = map[string]types.Type{}
		for k, v := range s.valT {
			n.valT[k] = v
		}
	}
	if len(s.fieldA) > 0 {
		n.fieldA = map[string]fieldAtom{}
		for k, v := range s.fieldA {
			n.fieldA[k] = v
		}
	}
	if len(s.fieldE) > 0 {
		n.fieldE = map[string]ast.Expr{}
		for k, v := range s.fieldE {
			n.fieldE[k] = v
		}
	}
	if len(s.aliasE) > 0 {
		n.aliasE = map[string]aliasExpr{}
		for k, v := range s.aliasE {
			n.aliasE[k] = v
		}
	}
	return n
}

type tracer struct {
	p             *Program
	prims         map[string]string
	inline        map[string]bool        // callees to inline
	noAuto        func(name string) bool // framer methods that are deliberately not followed
	appendWrites  bool                   // x = append(x, ...) on a byte slice local is recorded as write / writebyte on x
	trackBuf      string                 // byte buffer whose appends / stores are recorded ("f.buf"), "" = off
	trackVar      string                 // struct variable whose field assignments are recorded ("head"), "" = off
	trackField    string                 // field name whose assignments (on any variable) are recorded, "" = off
	primVars      map[string]string      // calls through a function-typed variable of this name are primitives
	markTypeCases bool                   // record which type-switch clause a path took ("typecase" items)
	unsup         []string
	maxPaths      int
	npaths        int
	verField      string // "proto": f.proto / header version selector suffix
}

// autoInline: a framer method with a body that is neither a primitive nor explicitly listed is a helper the
// frame code was split into; its reads/writes belong to the caller's layout, so it is inlined (a refactoring
// that extracts part of a builder/parser into a helper must not change the layout that is compared).
func (tr *tracer) autoInline(name string) bool {
	if !strings.HasPrefix(name, "(*framer).") || tr.noAuto != nil && tr.noAuto(name) {
		return false
	}
	if _, isPrim := tr.prims[name]; isPrim {
		return false
	}
	fi := tr.p.Func(name)
	return fi != nil && fi.Decl.Body != nil
}

func (tr *tracer) unsupported(n ast.Node, what string) {
	tr.unsup = append(tr.unsup, tr.p.Pos(n)+": "+what)
}

// evalVersionCmp evaluates comparisons of the framer's protocol version with constants.
func (tr *tracer) protoOperand(info *types.Info, e ast.Expr) bool {
	e = ast.Unparen(e)
	if sel, ok := e.(*ast.SelectorExpr); ok && sel.Sel.Name == "proto" && tr.p.isField(info, sel, "framer", "proto") {
		return true
	}
	if id, ok := e.(*ast.Ident); ok && (id.Name == "version" || id.Name == "proto") {
		return true
	}
	// conversions
	if c, ok := e.(*ast.CallExpr); ok && len(c.Args) == 1 {
		if tv, ok := info.Types[c.Fun]; ok && tv.IsType() {
			return tr.protoOperand(info, c.Args[0])
		}
	}
	return false
}

// eval returns (value, known) for a boolean expression; unknown atoms fork the path through `fork`.
// It returns the list of (state, value) continuations.
type boolCont struct {
	st  *pathState
	val bool
}

func (tr *tracer) evalBool(info *types.Info, e ast.Expr, st *pathState) []boolCont {
	e = ast.Unparen(e)
	switch x := e.(type) {
	case *ast.Ident:
		if x.Name == "true" {
			return []boolCont{{st, true}}
		}
		if x.Name == "false" {
			return []boolCont{{st, false}}
		}
		if st.known[x.Name] {
			return []boolCont{{st, st.store[x.Name] != 0}}
		}
		if a, ok := st.alias[x.Name]; ok {
			if ae, has := st.aliasE[x.Name]; has && ae.text == a {
				return tr.evalBool(info, ae.e, st)
			}
			switch a {
			case "true":
				return []boolCont{{st, true}}
			case "false":
				return []boolCont{{st, false}}
			}
			// a parameter bound to a field that holds a recorded condition
			if fa, ok := st.fieldA[a]; ok {
				return tr.evalFieldAtom(fa, st)
			}
			return tr.atom(a, st, true)
		}
	case *ast.SelectorExpr:
		if fa, ok := st.fieldA[st.resolve(normAtom(x))]; ok {
			return tr.evalFieldAtom(fa, st)
		}
		if len(st.fieldE) > 0 {
			if fe, ok := st.fieldE[st.resolve(normAtom(x))]; ok {
				return tr.evalBool(info, fe, st)
			}
		}
	case *ast.CallExpr:
		// a predicate method whose body is one boolean return (e.g. meta.morePages()): evaluate its expression
		// on the receiver so that it is the same atom as the inline spelling of the test
		if fn := calleeOf(info, x); fn != nil && len(x.Args) == 0 {
			if callee := tr.p.FuncOf(fn); callee != nil && callee.Decl.Body != nil && len(callee.Decl.Body.List) == 1 && callee.Decl.Recv != nil && len(callee.Decl.Recv.List) == 1 && len(callee.Decl.Recv.List[0].Names) == 1 {
				if rs, ok := callee.Decl.Body.List[0].(*ast.ReturnStmt); ok && len(rs.Results) == 1 {
					if rcv := recvExpr(x); rcv != nil {
						rname := callee.Decl.Recv.List[0].Names[0].Name
						actual := st.resolve(normAtom(rcv))
						old, had := st.alias[rname]
						st.alias[rname] = actual
						out := tr.evalBool(callee.Pkg.TypesInfo, rs.Results[0], st)
						for _, o := range out {
							if had {
								o.st.alias[rname] = old
							} else {
								delete(o.st.alias, rname)
							}
						}
						if had {
							st.alias[rname] = old
						} else {
							delete(st.alias, rname)
						}
						return out
					}
				}
			}
		}
	case *ast.UnaryExpr:
		if x.Op == token.NOT {
			out := tr.evalBool(info, x.X, st)
			for i := range out {
				out[i].val = !out[i].val
			}
			return out
		}
	case *ast.BinaryExpr:
		switch x.Op {
		case token.LAND, token.LOR:
			var out []boolCont
			for _, l := range tr.evalBool(info, x.X, st) {
				if x.Op == token.LAND && !l.val {
					out = append(out, boolCont{l.st, false})
					continue
				}
				if x.Op == token.LOR && l.val {
					out = append(out, boolCont{l.st, true})
					continue
				}
				out = append(out, tr.evalBool(info, x.Y, l.st)...)
			}
			return out
		case token.EQL, token.NEQ, token.LSS, token.LEQ, token.GTR, token.GEQ:
			// protocol version comparison
			if tr.protoOperand(info, x.X) {
				if k, ok := constInt(info, x.Y); ok {
					return []boolCont{{st, cmpInt(int64(st.version), x.Op, k)}}
				}
			}
			if tr.protoOperand(info, x.Y) {
				if k, ok := constInt(info, x.X); ok {
					return []boolCont{{st, cmpInt(k, x.Op, int64(st.version))}}
				}
			}
			// flag bit test: X&C == C, X&C != 0, X&C == 0, X&C != C
			if bit, val, ok := tr.bitTest(info, x, st); ok {
				if bit == "" {
					return []boolCont{{st, val}}
				}
				return tr.atom(bit, st, val)
			}
			// emptiness of a length: len(x) > 0, != 0, >= 1 (true) and == 0, < 1, <= 0 (false) are one atom
			{
				side, k, op, okL := ast.Expr(nil), int64(0), x.Op, false
				if c, ok := constInt(info, x.Y); ok {
					side, k, okL = x.X, c, true
				} else if c, ok := constInt(info, x.X); ok {
					side, k, okL = x.Y, c, true
					op = map[token.Token]token.Token{token.LSS: token.GTR, token.LEQ: token.GEQ, token.GTR: token.LSS, token.GEQ: token.LEQ, token.EQL: token.EQL, token.NEQ: token.NEQ}[x.Op]
				}
				if okL {
					name := st.resolve(normAtom(stripAllConv(info, side)))
					if strings.HasPrefix(name, "len(") && strings.HasSuffix(name, ")") && strings.Count(name, "(") == 1 {
						pol, ok := false, true
						switch {
						case op == token.GTR && k == 0, op == token.GEQ && k == 1, op == token.NEQ && k == 0:
							pol = true
						case op == token.EQL && k == 0, op == token.LSS && k == 1, op == token.LEQ && k == 0:
							pol = false
						default:
							ok = false
						}
						if ok {
							return tr.atom(name+" > 0", st, pol)
						}
					}
				}
			}
			// a local known to be nil / not nil (the error result of an inlined helper)
			if x.Op == token.EQL || x.Op == token.NEQ {
				for _, pr := range [][2]ast.Expr{{x.X, x.Y}, {x.Y, x.X}} {
					if id, ok := ast.Unparen(pr[0]).(*ast.Ident); ok && st.known[id.Name] && isNil(info, pr[1]) {
						return []boolCont{{st, (st.store[id.Name] == 0) == (x.Op == token.EQL)}}
					}
				}
			}
			// comparisons of a known local with a constant
			if id, ok := ast.Unparen(x.X).(*ast.Ident); ok && st.known[id.Name] {
				if k, ok := constInt(info, x.Y); ok {
					return []boolCont{{st, cmpInt(st.store[id.Name], x.Op, k)}}
				}
			}
			// ordering comparisons: one atom "a < b" for a<b, b>a, !(a>=b), !(b<=a)
			if x.Op != token.EQL && x.Op != token.NEQ {
				l, r := st.resolve(normAtom(stripAllConv(info, x.X))), st.resolve(normAtom(stripAllConv(info, x.Y)))
				if k, ok := constInt(info, x.X); ok {
					l = fmt.Sprint(k)
				}
				if k, ok := constInt(info, x.Y); ok {
					r = fmt.Sprint(k)
				}
				switch x.Op {
				case token.LSS:
					return tr.atom(l+" < "+r, st, true)
				case token.GEQ:
					return tr.atom(l+" < "+r, st, false)
				case token.GTR:
					return tr.atom(r+" < "+l, st, true)
				case token.LEQ:
					return tr.atom(r+" < "+l, st, false)
				}
			}
			// value dispatch: subject == constant / subject != constant
			if x.Op == token.EQL || x.Op == token.NEQ {
				if subj, canon, label, ok := tr.selOperands(info, x, st); ok {
					return tr.selTest(subj, canon, label, st, x.Op == token.EQL)
				}
			}
		}
	}
	return tr.atom(st.resolve(normAtom(e)), st, true)
}

// selOperands: x compares a non-constant subject with an integer or string constant.
func (tr *tracer) selOperands(info *types.Info, x *ast.BinaryExpr, st *pathState) (subj, canon, label string, ok bool) {
	side, c := x.X, x.Y
	if _, isC := info.Types[ast.Unparen(x.X)]; isC && info.Types[ast.Unparen(x.X)].Value != nil {
		side, c = x.Y, x.X
	}
	canon, label, ok = constLabel(info, c)
	if !ok {
		return "", "", "", false
	}
	if tv, has := info.Types[ast.Unparen(side)]; has && tv.Value != nil {
		return "", "", "", false
	}
	if isNil(info, c) {
		return "", "", "", false
	}
	subj = st.resolve(normAtom(stripAllConv(info, side)))
	return subj, canon, label, true
}

// constLabel: canonical text and display label of a case / comparison constant.
func constLabel(info *types.Info, e ast.Expr) (canon, label string, ok bool) {
	if k, isK := constInt(info, e); isK {
		canon = fmt.Sprintf("0x%x", k)
		return canon, fmt.Sprintf("%s=%s", exprStr(e), canon), true
	}
	if sv, isS := constString(info, e); isS {
		canon = fmt.Sprintf("%q", sv)
		return canon, canon, true
	}
	return "", "", false
}

// selTest decides or forks on `subject == constant`. The path also records the equivalent boolean atom
// ("subj == Label"), so that rules can ask for it by name.
func (tr *tracer) selTest(subj, canon, label string, st *pathState, isEq bool) []boolCont {
	ss := st.selOf(subj)
	atom := subj + " == " + strings.SplitN(label, "=", 2)[0]
	if ss.in != nil {
		if _, has := ss.in[canon]; !has {
			return []boolCont{{st, !isEq}}
		}
		if len(ss.in) == 1 {
			return []boolCont{{st, isEq}}
		}
	} else if _, no := ss.out[canon]; no {
		return []boolCont{{st, !isEq}}
	}
	t, f := st.clone(), st.clone()
	t.selOf(subj).in = map[string]string{canon: label}
	t.assume[atom] = true
	fs := f.selOf(subj)
	if fs.in != nil {
		delete(fs.in, canon)
	} else {
		fs.out[canon] = label
	}
	f.assume[atom] = false
	return []boolCont{{t, isEq}, {f, !isEq}}
}

// resolve rewrites identifiers that are aliases (copies of len(x), inlined parameters) in an atom.
func (s *pathState) resolve(atom string) string {
	if len(s.alias) == 0 {
		return atom
	}
	var sb strings.Builder
	i := 0
	for i < len(atom) {
		if isIdentChar(atom[i]) && (i == 0 || !isIdentChar(atom[i-1]) && atom[i-1] != '.') {
			j := i
			for j < len(atom) && isIdentChar(atom[j]) {
				j++
			}
			word := atom[i:j]
			if a, ok := s.alias[word]; ok {
				sb.WriteString(a)
			} else {
				sb.WriteString(word)
			}
			i = j
			continue
		}
		sb.WriteByte(atom[i])
		i++
	}
	return sb.String()
}

// atom forks on an unknown atom; polarity=false means the expression is the negation of the atom.
func (tr *tracer) atom(name string, st *pathState, polarity bool) []boolCont {
	if v, ok := st.assume[name]; ok {
		return []boolCont{{st, v == polarity}}
	}
	t, f := st.clone(), st.clone()
	t.assume[name] = true
	f.assume[name] = false
	return []boolCont{{t, polarity}, {f, !polarity}}
}

func normAtom(e ast.Expr) string {
	s := exprStr(e)
	// canonicalise a few equivalent spellings: pointer indirections of the same parameter, != ""
	s = strings.ReplaceAll(s, "(*", "(")
	s = strings.TrimPrefix(s, "*")
	s = strings.ReplaceAll(s, " != \"\"", " nonempty")
	return s
}

// stripAllConv removes any conversion calls around e.
func stripAllConv(info *types.Info, e ast.Expr) ast.Expr {
	for {
		c, ok := ast.Unparen(e).(*ast.CallExpr)
		if !ok || len(c.Args) != 1 {
			return ast.Unparen(e)
		}
		if tv, ok := info.Types[c.Fun]; !ok || !tv.IsType() {
			return ast.Unparen(e)
		}
		e = c.Args[0]
	}
}

func cmpInt(a int64, op token.Token, b int64) bool {
	switch op {
	case token.EQL:
		return a == b
	case token.NEQ:
		return a != b
	case token.LSS:
		return a < b
	case token.LEQ:
		return a <= b
	case token.GTR:
		return a > b
	case token.GEQ:
		return a >= b
	}
	return false
}

// bitTest recognises flag-bit conditions. Returns the atom name ("" when decided from the store), the
// polarity/value and ok.
func (tr *tracer) bitTest(info *types.Info, x *ast.BinaryExpr, st *pathState) (string, bool, bool) {
	and, ok := ast.Unparen(x.X).(*ast.BinaryExpr)
	if !ok || and.Op != token.AND {
		return "", false, false
	}
	mask, okM := constInt(info, and.Y)
	subj := and.X
	if !okM {
		mask, okM = constInt(info, and.X)
		subj = and.Y
	}
	if !okM {
		return "", false, false
	}
	rhs, okR := constInt(info, x.Y)
	if !okR {
		return "", false, false
	}
	var setWhenTrue bool
	switch {
	case x.Op == token.EQL && rhs == mask, x.Op == token.NEQ && rhs == 0:
		setWhenTrue = true
	case x.Op == token.EQL && rhs == 0, x.Op == token.NEQ && rhs == mask:
		setWhenTrue = false
	default:
		return "", false, false
	}
	subjStr := st.resolve(exprStr(stripWidening(info, subj)))
	if id, isId := ast.Unparen(subj).(*ast.Ident); isId && st.known[id.Name] {
		set := st.store[id.Name]&mask == mask
		return "", set == setWhenTrue, true
	}
	return fmt.Sprintf("bit:%s:0x%x", subjStr, mask), setWhenTrue, true
}

// run interprets fn and returns the final states of all paths.
func (tr *tracer) run(fi *FuncInfo, version int) []*pathState {
	st := &pathState{version: version, alias: map[string]string{}, assume: map[string]bool{}, store: map[string]int64{}, known: map[string]bool{}}
	return tr.execList(fi, fi.Decl.Body.List, []*pathState{st})
}

func (tr *tracer) execList(fi *FuncInfo, list []ast.Stmt, states []*pathState) []*pathState {
	for _, s := range list {
		var next []*pathState
		for _, st := range states {
			if st.done != "" {
				next = append(next, st)
				continue
			}
			next = append(next, tr.execStmt(fi, s, st)...)
		}
		states = next
		tr.npaths = len(states)
		if len(states) > tr.maxPaths {
			tr.unsupported(s, fmt.Sprintf("path explosion (> %d paths)", tr.maxPaths))
			return states[:tr.maxPaths]
		}
	}
	return states
}

func (tr *tracer) execStmt(fi *FuncInfo, s ast.Stmt, st *pathState) []*pathState {
	info := fi.Pkg.TypesInfo
	switch x := s.(type) {
	case *ast.ExprStmt:
		return tr.execExpr(fi, x.X, []*pathState{st})
	case *ast.DeclStmt:
		if gd, ok := x.Decl.(*ast.GenDecl); ok {
			for _, sp := range gd.Specs {
				vs, ok := sp.(*ast.ValueSpec)
				if !ok {
					continue
				}
				for i, nm := range vs.Names {
					if i < len(vs.Values) {
						tr.assign(info, nm, vs.Values[i], token.DEFINE, st)
						states := tr.execExpr(fi, vs.Values[i], []*pathState{st})
						if len(states) == 1 {
							st = states[0]
						}
					} else {
						// zero value of bool / integer flag variables
						if b, ok := info.TypeOf(nm).Underlying().(*types.Basic); ok && b.Info()&(types.IsBoolean|types.IsInteger) != 0 {
							st.store[nm.Name], st.known[nm.Name] = 0, true
						}
						// a pointer declared without a value is nil until it is assigned
						if _, isPtr := info.TypeOf(nm).Underlying().(*types.Pointer); isPtr {
							st.store[nm.Name], st.known[nm.Name] = 0, true
						}
					}
				}
			}
		}
		return []*pathState{st}
	case *ast.AssignStmt:
		tr.recordBufOps(fi, x, st)
		states := []*pathState{st}
		for _, r := range x.Rhs {
			states = tr.execExpr(fi, r, states)
		}
		for _, s2 := range states {
			for _, l := range x.Lhs {
				s2.killSel(normAtom(l))
				if len(s2.fieldE) > 0 || len(s2.fieldA) > 0 {
					key := s2.resolve(normAtom(l))
					for k := range s2.fieldE {
						if k == key || strings.HasPrefix(k, key+".") {
							delete(s2.fieldE, k)
						}
					}
					for k := range s2.fieldA {
						if k == key || strings.HasPrefix(k, key+".") {
							delete(s2.fieldA, k)
						}
					}
				}
			}
			if len(x.Lhs) == len(x.Rhs) {
				for i, l := range x.Lhs {
					tr.recordFieldConds(info, l, x.Rhs[i], s2)
				}
			}
			fromCallee := false
			if len(x.Rhs) == 1 && len(s2.rets) == len(x.Lhs) {
				if c, ok := ast.Unparen(x.Rhs[0]).(*ast.CallExpr); ok {
					name := calleeName(info, c)
					if tr.inline[name] || tr.autoInline(name) {
						fromCallee = true
						for i, l := range x.Lhs {
							if id, ok := l.(*ast.Ident); ok {
								delete(s2.alias, id.Name)
								delete(s2.valT, id.Name)
								if i < len(s2.retExprs) {
									if callee := tr.p.Func(name); callee != nil {
										if t := callee.Pkg.TypesInfo.TypeOf(s2.retExprs[i]); t != nil && !types.IsInterface(t) {
											if _, isNilT := t.(*types.Basic); !isNilT {
												if s2.valT == nil {
													s2.valT = map[string]types.Type{}
												}
												s2.valT[id.Name] = t
											}
										}
									}
								}
								if s2.rets[i].known {
									s2.known[id.Name], s2.store[id.Name] = true, s2.rets[i].val
								} else {
									delete(s2.known, id.Name)
								}
							}
						}
					}
				}
			}
			s2.rets = nil
			inlinedCall := false
			if len(x.Rhs) == 1 {
				if c, ok := ast.Unparen(x.Rhs[0]).(*ast.CallExpr); ok {
					name := calleeName(info, c)
					inlinedCall = tr.inline[name] || tr.autoInline(name)
				}
			}
			if inlinedCall {
				// a helper that ends in `return prim(...)`: the primitive's result is what the caller assigns
				for i := len(s2.trace) - 1; i >= 0; i-- {
					it := &s2.trace[i]
					if it.Prim == "leave" {
						continue
					}
					if it.Call != nil && it.Dst == "" {
						if _, isRet := tr.p.Parent(it.Call).(*ast.ReturnStmt); isRet {
							it.Dst = exprStr(x.Lhs[0])
						}
					}
					break
				}
				// a helper that returns the variable a primitive's result was bound to
				if s2.retName != "" {
					depth := 0
					for i := len(s2.trace) - 1; i >= 0; i-- {
						it := &s2.trace[i]
						if it.Prim == "leave" {
							depth++
							continue
						}
						if it.Prim == "enter" {
							depth--
							if depth <= 0 {
								break
							}
							continue
						}
						if depth == 1 && it.Call != nil && it.Dst == s2.retName {
							it.Dst = exprStr(x.Lhs[0])
							break
						}
					}
				}
			}
			if fromCallee {
				// values taken from the callee's returns
			} else if len(x.Lhs) == len(x.Rhs) {
				for i, l := range x.Lhs {
					tr.assign(info, l, x.Rhs[i], x.Tok, s2)
				}
			} else {
				for _, l := range x.Lhs {
					if id, ok := l.(*ast.Ident); ok {
						delete(s2.known, id.Name)
					}
				}
			}
			// name the destination of a read
			if len(s2.trace) > 0 && len(x.Lhs) >= 1 && len(x.Rhs) == 1 {
				if c, ok := ast.Unparen(x.Rhs[0]).(*ast.CallExpr); ok {
					if s2.trace[len(s2.trace)-1].Call == c && s2.trace[len(s2.trace)-1].Pos == c.Pos() {
						s2.trace[len(s2.trace)-1].Dst = exprStr(x.Lhs[0])
					}
					if _, isPrim := tr.prims[calleeName(info, c)]; isPrim && s2.trace[len(s2.trace)-1].Pos == c.Pos() && s2.trace[len(s2.trace)-1].Arg == "" {
						s2.trace[len(s2.trace)-1].Arg = exprStr(x.Lhs[0])
					}
				}
			}
		}
		return states
	case *ast.IncDecStmt:
		if id, ok := x.X.(*ast.Ident); ok {
			delete(st.known, id.Name)
			delete(st.alias, id.Name)
		}
		st.killSel(normAtom(x.X))
		return []*pathState{st}
	case *ast.IfStmt:
		states := []*pathState{st}
		if x.Init != nil {
			states = tr.execList(fi, []ast.Stmt{x.Init}, states)
		}
		var out []*pathState
		for _, s0 := range states {
			if s0.done != "" {
				out = append(out, s0)
				continue
			}
			for _, bc := range tr.evalBool(info, x.Cond, s0) {
				if bc.val {
					out = append(out, tr.execList(fi, x.Body.List, []*pathState{bc.st})...)
				} else if x.Else != nil {
					switch e := x.Else.(type) {
					case *ast.BlockStmt:
						out = append(out, tr.execList(fi, e.List, []*pathState{bc.st})...)
					default:
						out = append(out, tr.execList(fi, []ast.Stmt{e}, []*pathState{bc.st})...)
					}
				} else {
					out = append(out, bc.st)
				}
			}
		}
		return out
	case *ast.BlockStmt:
		return tr.execList(fi, x.List, []*pathState{st})
	case *ast.ReturnStmt:
		states := []*pathState{st}
		for _, r := range x.Results {
			states = tr.execExpr(fi, r, states)
		}
		for _, s2 := range states {
			if s2.done == "" && s2.depth > 0 {
				s2.rets = nil
				s2.retName = ""
				s2.retExprs = x.Results
				if len(x.Results) > 0 {
					if rid, isId := ast.Unparen(x.Results[0]).(*ast.Ident); isId {
						s2.retName = rid.Name
					}
				}
				results := x.Results
				if len(results) == 0 {
					// bare return: the named results
					if fd, ok := tr.p.enclosingFuncNode(x).(*ast.FuncDecl); ok && fd.Type.Results != nil {
						for _, f := range fd.Type.Results.List {
							for _, nm := range f.Names {
								results = append(results, nm)
							}
						}
					}
				}
				for _, re := range results {
					rv := retVal{}
					re = ast.Unparen(re)
					if k, ok := constInt(info, re); ok {
						rv = retVal{k, true}
					} else if id, ok := re.(*ast.Ident); ok {
						switch {
						case id.Name == "true":
							rv = retVal{1, true}
						case id.Name == "false":
							rv = retVal{0, true}
						case s2.known[id.Name]:
							rv = retVal{s2.store[id.Name], true}
						case id.Name == "nil" && isNil(info, id):
							rv = retVal{0, true}
						}
					} else if _, ok := re.(*ast.CompositeLit); ok {
						rv = retVal{1, true} // a value, not nil
					} else if u, ok := re.(*ast.UnaryExpr); ok && u.Op == token.AND {
						if _, isLit := ast.Unparen(u.X).(*ast.CompositeLit); isLit {
							rv = retVal{1, true}
						}
					} else if c, ok := re.(*ast.CallExpr); ok {
						// a freshly built error is not nil
						if n := calleeName(info, c); n == "fmt.Errorf" || n == "errors.New" || n == "NewErrProtocol" {
							rv = retVal{1, true}
						}
					}
					s2.rets = append(s2.rets, rv)
				}
			}
			if s2.done == "" {
				s2.done = "return"
				if s2.depth == 0 {
					s2.retStmt = x
				}
				// returning a freshly built error: mark
				for _, r := range x.Results {
					if c, ok := ast.Unparen(r).(*ast.CallExpr); ok {
						n := calleeName(info, c)
						if n == "fmt.Errorf" || n == "errors.New" || n == "NewErrProtocol" {
							s2.trace = append(s2.trace, TraceItem{Prim: "return-error", Pos: x.Pos()})
						}
					}
				}
			}
		}
		return states
	case *ast.ForStmt, *ast.RangeStmt:
		var body *ast.BlockStmt
		if f, ok := x.(*ast.ForStmt); ok {
			body = f.Body
			if f.Init != nil {
				tr.execList(fi, []ast.Stmt{f.Init}, []*pathState{st})
			}
		} else {
			body = x.(*ast.RangeStmt).Body
		}
		// interpret the body once per combination of inner atoms; each yields a path whose trace holds one loop item
		inner := st.clone()
		inner.trace = nil
		loopArg := ""
		if rs, ok := x.(*ast.RangeStmt); ok {
			// `for i, v := range X`: v stands for X[i]
			xs := st.resolve(normAtom(rs.X))
			key := ""
			if kid, ok := rs.Key.(*ast.Ident); ok && kid.Name != "_" {
				key = kid.Name
				delete(inner.alias, key)
				delete(inner.known, key)
			}
			if vid, ok := rs.Value.(*ast.Ident); ok && vid.Name != "_" {
				delete(inner.known, vid.Name)
				if key != "" {
					inner.alias[vid.Name] = xs + "[" + key + "]"
				} else {
					delete(inner.alias, vid.Name)
				}
			}
			loopArg = "range " + xs + " key " + key
		}
		if f, ok := x.(*ast.ForStmt); ok {
			// `for k := 0; k < len(X); k++` with k not written in the body walks X like `for k := range X`
			if k, xs, ok := indexLoopOver(info, f); ok {
				delete(inner.alias, k)
				delete(inner.known, k)
				loopArg = "range " + st.resolve(normAtom(xs)) + " key " + k
			}
		}
		var out []*pathState
		for _, b := range tr.execList(fi, body.List, []*pathState{inner}) {
			n := st.clone()
			for k, v := range b.assume {
				n.assume[k] = v
			}
			// variables assigned inside the loop are unknown afterwards, except monotone flag ORs which are merged
			for k := range b.known {
				if st.known[k] && b.store[k] != st.store[k] {
					n.store[k] = st.store[k] | b.store[k]
				}
			}
			n.trace = append(n.trace, TraceItem{Prim: "loop", Arg: loopArg, Body: b.trace, Pos: x.Pos(), End: b.done})
			if b.done == "return" || b.done == "panic" {
				// a return inside the loop body: keep both the early-exit path and nothing else
				n.done = b.done
				n.retStmt = b.retStmt
			}
			// what the body decided about dispatch subjects stays visible to the rule (not used for pruning)
			for k, v := range b.sel {
				if n.loopSel == nil {
					n.loopSel = map[string]*selSet{}
				}
				n.loopSel[k] = v.clone()
			}
			out = append(out, n)
		}
		return out
	case *ast.SwitchStmt:
		states := []*pathState{st}
		if x.Init != nil {
			states = tr.execList(fi, []ast.Stmt{x.Init}, states)
		}
		var out []*pathState
		for _, s0 := range states {
			if x.Tag != nil {
				s0s := tr.execExpr(fi, x.Tag, []*pathState{s0})
				if len(s0s) == 1 {
					s0 = s0s[0]
				}
			}
			endSwitch := func(list []*pathState) []*pathState {
				for _, r := range list {
					if r.done == "break-switch" {
						r.done = ""
					}
				}
				return list
			}
			if x.Tag == nil {
				// switch { case c1: ...; case c2: ...; default: ... } is an if / else-if chain
				pending := []*pathState{s0}
				var def *ast.CaseClause
				for _, cl := range x.Body.List {
					cc := cl.(*ast.CaseClause)
					if cc.List == nil {
						def = cc
						continue
					}
					var still []*pathState
					for _, ps := range pending {
						// any of the listed conditions selects the clause
						cur := []*pathState{ps}
						for _, ce := range cc.List {
							var next []*pathState
							for _, c0 := range cur {
								for _, bc := range tr.evalBool(info, ce, c0) {
									if bc.val {
										out = append(out, endSwitch(tr.execList(fi, cc.Body, []*pathState{bc.st}))...)
									} else {
										next = append(next, bc.st)
									}
								}
							}
							cur = next
						}
						still = append(still, cur...)
					}
					pending = still
				}
				for _, ps := range pending {
					if def != nil {
						out = append(out, endSwitch(tr.execList(fi, def.Body, []*pathState{ps}))...)
					} else {
						out = append(out, ps)
					}
				}
				continue
			}
			// switch len(x) { case 0: ...; default: ... }: the emptiness atom of that length
			if lc, ok := ast.Unparen(x.Tag).(*ast.CallExpr); ok && exprStr(lc.Fun) == "len" && len(lc.Args) == 1 {
				zeroOnly := true
				for _, cl := range x.Body.List {
					cc := cl.(*ast.CaseClause)
					if cc.List != nil {
						if len(cc.List) != 1 {
							zeroOnly = false
						} else if k, ok := constInt(info, cc.List[0]); !ok || k != 0 {
							zeroOnly = false
						}
					}
				}
				if zeroOnly {
					atomName := s0.resolve(normAtom(x.Tag)) + " > 0"
					for _, bc := range tr.atom(atomName, s0, true) {
						taken := false
						for _, cl := range x.Body.List {
							cc := cl.(*ast.CaseClause)
							if (cc.List != nil) == !bc.val { // case 0 when empty, default when non-empty
								out = append(out, endSwitch(tr.execList(fi, cc.Body, []*pathState{bc.st}))...)
								taken = true
							}
						}
						if !taken {
							out = append(out, bc.st)
						}
					}
					continue
				}
			}
			hasDefault := false
			// value dispatch: the clauses refine what the tag can equal (same bookkeeping as ==/!= tests)
			subj := ""
			allConst := x.Tag != nil
			type lab struct{ canon, label string }
			var allLabels []lab
			if x.Tag != nil {
				subj = s0.resolve(normAtom(stripAllConv(info, x.Tag)))
				for _, cl := range x.Body.List {
					for _, e := range cl.(*ast.CaseClause).List {
						if c, l, ok := constLabel(info, e); ok {
							allLabels = append(allLabels, lab{c, l})
						} else {
							allConst = false
						}
					}
				}
			}
			// rest: the state in which no clause label matched
			restrict := func(n *pathState) bool {
				if !allConst {
					return true
				}
				ss := n.selOf(subj)
				for _, l := range allLabels {
					if ss.in != nil {
						delete(ss.in, l.canon)
					} else {
						ss.out[l.canon] = l.label
					}
				}
				return ss.in == nil || len(ss.in) > 0
			}
			for _, cl := range x.Body.List {
				cc := cl.(*ast.CaseClause)
				n := s0.clone()
				if cc.List == nil {
					hasDefault = true
					if !restrict(n) {
						continue
					}
					n.assume["switch:"+exprStr(x.Tag)] = true
					n.trace = append(n.trace, TraceItem{Prim: "case", Arg: "default", Pos: cc.Pos()})
				} else {
					var labels []string
					feasible := map[string]string{}
					for _, e := range cc.List {
						if c, l, ok := constLabel(info, e); ok {
							if allConst {
								ss := n.selOf(subj)
								if ss.in != nil {
									if _, has := ss.in[c]; !has {
										continue
									}
								} else if _, no := ss.out[c]; no {
									continue
								}
								feasible[c] = l
							}
							labels = append(labels, l)
						} else {
							labels = append(labels, exprStr(e))
						}
					}
					if allConst {
						if len(feasible) == 0 {
							continue
						}
						n.selOf(subj).in = feasible
					}
					n.trace = append(n.trace, TraceItem{Prim: "case", Arg: strings.Join(labels, ","), Pos: cc.Pos()})
				}
				out = append(out, endSwitch(tr.execList(fi, cc.Body, []*pathState{n}))...)
			}
			if !hasDefault && x.Tag != nil {
				n := s0.clone()
				if restrict(n) {
					n.trace = append(n.trace, TraceItem{Prim: "case", Arg: "none", Pos: x.Pos()})
					out = append(out, n)
				}
			}
		}
		return out
	case *ast.TypeSwitchStmt:
		// fork per clause (the dynamic type is an unknown); clauses perform no reads of their own condition
		var out []*pathState
		hasDefault := false
		for _, cl := range x.Body.List {
			cc := cl.(*ast.CaseClause)
			if cc.List == nil {
				hasDefault = true
			}
			n := st.clone()
			if tr.markTypeCases {
				var ts []string
				for _, e := range cc.List {
					ts = append(ts, exprStr(e))
				}
				if cc.List == nil {
					ts = []string{"default"}
				}
				n.trace = append(n.trace, TraceItem{Prim: "typecase", Arg: strings.Join(ts, ","), Pos: cc.Pos()})
			}
			out = append(out, tr.execList(fi, cc.Body, []*pathState{n})...)
		}
		if !hasDefault {
			if tr.markTypeCases {
				st.trace = append(st.trace, TraceItem{Prim: "typecase", Arg: "default", Pos: x.Pos()})
			}
			out = append(out, st)
		}
		// paths that performed no primitive in any clause are indistinguishable: keep one
		return dedupStates(out)
	case *ast.DeferStmt:
		return []*pathState{st}
	case *ast.BranchStmt:
		// continue / break end this pass through the enclosing loop body (the loop handler resets the marker);
		// inside a switch clause, break only leaves the switch
		if st.done == "" && (x.Tok == token.CONTINUE || x.Tok == token.BREAK) && x.Label == nil {
			if x.Tok == token.BREAK {
				if _, inSwitch := tr.p.enclosing(x, fi.Decl, func(n ast.Node) bool {
					switch n.(type) {
					case *ast.SwitchStmt, *ast.TypeSwitchStmt, *ast.SelectStmt, *ast.ForStmt, *ast.RangeStmt:
						return true
					}
					return false
				}).(*ast.SwitchStmt); inSwitch {
					st.done = "break-switch"
					return []*pathState{st}
				}
			}
			st.done = "next-iteration"
		}
		return []*pathState{st}
	case *ast.EmptyStmt, *ast.LabeledStmt:
		return []*pathState{st}
	}
	tr.unsupported(s, fmt.Sprintf("statement %T", s))
	return []*pathState{st}
}

func (tr *tracer) assign(info *types.Info, lhs ast.Expr, rhs ast.Expr, tok token.Token, st *pathState) {
	_ = tr
	id, ok := ast.Unparen(lhs).(*ast.Ident)
	if !ok {
		return
	}
	rhs = ast.Unparen(rhs)
	// an interface variable that is given a value of a concrete type holds that type on this path
	if tok == token.DEFINE || tok == token.ASSIGN {
		if lt := info.TypeOf(lhs); lt != nil && types.IsInterface(lt) {
			delete(st.valT, id.Name)
			if rt := info.TypeOf(rhs); rt != nil && !types.IsInterface(rt) && !isNil(info, rhs) {
				if st.valT == nil {
					st.valT = map[string]types.Type{}
				}
				st.valT[id.Name] = rt
			}
		}
	}
	switch tok {
	case token.DEFINE, token.ASSIGN:
		if rid, ok := rhs.(*ast.Ident); ok && (rid.Name == "true" || rid.Name == "false") {
			st.known[id.Name] = true
			st.store[id.Name] = map[bool]int64{true: 1, false: 0}[rid.Name == "true"]
			return
		}
		if k, ok := constInt(info, rhs); ok {
			st.known[id.Name], st.store[id.Name] = true, k
			return
		}
		delete(st.known, id.Name)
		delete(st.alias, id.Name)
		if c, ok := rhs.(*ast.CallExpr); ok && exprStr(c.Fun) == "len" && len(c.Args) == 1 {
			st.alias[id.Name] = st.resolve(normAtom(rhs))
		}
		// an error just made is not nil
		if c, ok := rhs.(*ast.CallExpr); ok && isErrorType(info.TypeOf(lhs)) {
			switch calleeName(info, c) {
			case "fmt.Errorf", "errors.New", "NewErrProtocol":
				st.known[id.Name], st.store[id.Name] = true, 1
				return
			}
		}
		// a pointer to something just made (new(T), &T{...}) is not nil
		if c, ok := rhs.(*ast.CallExpr); ok && calleeName(info, c) == "builtin.new" {
			st.known[id.Name], st.store[id.Name] = true, 1
			return
		}
		if u, ok := rhs.(*ast.UnaryExpr); ok && u.Op == token.AND {
			if _, isLit := ast.Unparen(u.X).(*ast.CompositeLit); isLit {
				st.known[id.Name], st.store[id.Name] = true, 1
				return
			}
		}
		// a local copy of a variable / field path (head := f.header; flags := head.flags) stands for that path
		if rid, ok := rhs.(*ast.Ident); ok && st.known[rid.Name] {
			st.known[id.Name], st.store[id.Name] = true, st.store[rid.Name]
			return
		}
		if isFieldPath(rhs) && !isNil(info, rhs) {
			if a := st.resolve(normAtom(rhs)); !mentions(a, id.Name) {
				st.alias[id.Name] = a
			}
			return
		}
		// a boolean whose value is decided on this path (a protocol-version comparison, a test of a known flag)
		if t := info.TypeOf(rhs); t != nil {
			if bt, ok := t.Underlying().(*types.Basic); ok && bt.Info()&types.IsBoolean != 0 {
				probe := st.clone()
				if conts := tr.evalBool(info, rhs, probe); len(conts) == 1 && len(conts[0].st.assume) == len(st.assume) {
					st.known[id.Name] = true
					st.store[id.Name] = map[bool]int64{true: 1, false: 0}[conts[0].val]
					return
				}
			}
		}
		// a boolean local that names a condition (globalSpec := flags&X == X): alias it to that condition's atom
		if b, ok := rhs.(*ast.BinaryExpr); ok {
			if t := info.TypeOf(rhs); t != nil {
				if bt, ok := t.Underlying().(*types.Basic); ok && bt.Info()&types.IsBoolean != 0 {
					if bit, pol, ok := tr.bitTest(info, b, st); ok && bit != "" && pol {
						st.alias[id.Name] = bit
					} else {
						st.alias[id.Name] = st.resolve(normAtom(rhs))
						if !mentions(exprStr(rhs), id.Name) {
							if st.aliasE == nil {
								st.aliasE = map[string]aliasExpr{}
							}
							st.aliasE[id.Name] = aliasExpr{st.alias[id.Name], rhs}
						}
					}
				}
			}
		}
	case token.OR_ASSIGN:
		if k, ok := constInt(info, rhs); ok && st.known[id.Name] {
			st.store[id.Name] |= k
			return
		}
		delete(st.known, id.Name)
		delete(st.alias, id.Name)
	case token.AND_NOT_ASSIGN:
		if k, ok := constInt(info, rhs); ok && st.known[id.Name] {
			st.store[id.Name] &^= k
			return
		}
		delete(st.known, id.Name)
		delete(st.alias, id.Name)
	default:
		delete(st.known, id.Name)
		delete(st.alias, id.Name)
	}
}

// execExpr walks an expression in evaluation order and records primitive calls / inlines framer helpers.
func (tr *tracer) execExpr(fi *FuncInfo, e ast.Expr, states []*pathState) []*pathState {
	info := fi.Pkg.TypesInfo
	var calls []*ast.CallExpr
	var collect func(n ast.Node)
	collect = func(n ast.Node) {
		inspectNoLit(n, func(m ast.Node) bool {
			if c, ok := m.(*ast.CallExpr); ok && m != n {
				collect(c)
				return false
			}
			return true
		})
		if c, ok := n.(*ast.CallExpr); ok {
			calls = append(calls, c)
		}
	}
	collect(e)
	for _, c := range calls {
		name := calleeName(info, c)
		for _, st := range states {
			tr.recordBufCall(fi, c, st)
		}
		if name == "builtin.panic" {
			for _, st := range states {
				if st.done == "" {
					st.trace = append(st.trace, TraceItem{Prim: "panic", Pos: c.Pos()})
					st.done = "panic"
				}
			}
			continue
		}
		prim, isPrim := tr.prims[name]
		if !isPrim && name == "" && tr.primVars != nil {
			if id, isId := ast.Unparen(c.Fun).(*ast.Ident); isId {
				prim, isPrim = tr.primVars[id.Name]
			}
		}
		if isPrim {
			arg := ""
			if len(c.Args) > 0 {
				arg = exprStr(c.Args[0])
				if prim == "header" && len(c.Args) == 3 {
					arg = exprStr(c.Args[0]) + "," + exprStr(c.Args[1]) + "," + exprStr(c.Args[2])
				}
			}
			for _, st := range states {
				if st.done == "" {
					it := TraceItem{Prim: prim, Arg: arg, Pos: c.Pos(), Call: c, Fn: fi}
					for _, a := range c.Args {
						it.Args = append(it.Args, st.resolve(normAtom(a)))
					}
					if rc := recvExpr(c); rc != nil {
						it.Recv = st.resolve(normAtom(rc))
					}
					if len(c.Args) > 0 {
						a0 := stripAllConv(info, c.Args[0])
						if k, ok := constInt(info, a0); ok {
							it.Val, it.HasVal = k, true
						} else if id, ok := ast.Unparen(a0).(*ast.Ident); ok && st.known[id.Name] {
							it.Val, it.HasVal = st.store[id.Name], true
						}
					}
					st.trace = append(st.trace, it)
				}
			}
			continue
		}
		if tr.inline[name] || tr.autoInline(name) {
			callee := tr.p.Func(name)
			if callee == nil || callee.Decl.Body == nil {
				tr.unsupported(c, "cannot inline "+name)
				continue
			}
			var next []*pathState
			for _, st := range states {
				if st.done != "" || st.depth > 4 {
					next = append(next, st)
					continue
				}
				sub := st.clone()
				sub.depth++
				// callee locals are separate: hide caller's known locals (names may clash)
				savedStore, savedKnown, savedAlias := sub.store, sub.known, sub.alias
				sub.store, sub.known = map[string]int64{}, map[string]bool{}
				sub.alias = map[string]string{}
				k := 0
				for _, pf := range callee.Decl.Type.Params.List {
					for _, nm := range pf.Names {
						if k < len(c.Args) {
							// an embedded struct passed by address is the outer value as far as promoted fields go
							argE := ast.Unparen(c.Args[k])
							if u, isU := argE.(*ast.UnaryExpr); isU && u.Op == token.AND {
								inner := ast.Unparen(u.X)
								for {
									sel, isSel := inner.(*ast.SelectorExpr)
									if !isSel {
										break
									}
									if fv := fieldOf(info, sel); fv == nil || !fv.Embedded() {
										break
									}
									inner = ast.Unparen(sel.X)
								}
								if inner != ast.Unparen(u.X) {
									argE = &ast.UnaryExpr{Op: token.AND, X: inner}
								}
							}
							a := exprStr(argE)
							a = strings.TrimPrefix(strings.TrimPrefix(a, "&"), "*")
							// resolve through the caller's aliases
							tmp := &pathState{alias: savedAlias}
							a = tmp.resolve(a)
							// a struct built in the argument list: its boolean fields are the conditions given there
							{
								lit := argE
								if u, isU := lit.(*ast.UnaryExpr); isU && u.Op == token.AND {
									lit = ast.Unparen(u.X)
								}
								if cl, isCL := lit.(*ast.CompositeLit); isCL {
									a = nm.Name
									for fk := range sub.fieldA {
										if strings.HasPrefix(fk, nm.Name+".") {
											delete(sub.fieldA, fk)
										}
									}
									for _, el := range cl.Elts {
										kv, isKV := el.(*ast.KeyValueExpr)
										if !isKV {
											continue
										}
										kid, isId := kv.Key.(*ast.Ident)
										if t := info.TypeOf(kv.Value); !isId || t == nil {
											continue
										} else if b, isB := t.Underlying().(*types.Basic); !isB || b.Info()&types.IsBoolean == 0 {
											continue
										}
										if fa, ok := tr.condAtom(info, kv.Value, st); ok {
											if sub.fieldA == nil {
												sub.fieldA = map[string]fieldAtom{}
											}
											sub.fieldA[nm.Name+"."+kid.Name] = fa
										}
									}
								}
							}
							if id, isId := ast.Unparen(c.Args[k]).(*ast.Ident); isId && savedKnown[id.Name] {
								// a constant-propagated local of the caller keeps its value in the callee
								sub.store[nm.Name], sub.known[nm.Name] = savedStore[id.Name], true
							} else if a != nm.Name {
								sub.alias[nm.Name] = a
							}
						}
						k++
					}
				}
				// the receiver name stands for the receiver expression of the call
				if callee.Decl.Recv != nil && len(callee.Decl.Recv.List) == 1 && len(callee.Decl.Recv.List[0].Names) == 1 {
					if rc := recvExpr(c); rc != nil {
						rn := callee.Decl.Recv.List[0].Names[0].Name
						tmp := &pathState{alias: savedAlias}
						a := tmp.resolve(strings.TrimPrefix(strings.TrimPrefix(exprStr(rc), "&"), "*"))
						if a != rn && rn != "_" {
							sub.alias[rn] = a
						}
					}
				}
				if callee.Decl.Type.Results != nil {
					for _, rf := range callee.Decl.Type.Results.List {
						for _, nm := range rf.Names {
							if t := callee.Pkg.TypesInfo.TypeOf(rf.Type); t != nil {
								if b, ok := t.Underlying().(*types.Basic); ok && b.Info()&(types.IsInteger|types.IsBoolean) != 0 {
									sub.store[nm.Name], sub.known[nm.Name] = 0, true
								}
							}
						}
					}
				}
				sub.rets = nil
				sub.trace = append(sub.trace, TraceItem{Prim: "enter", Arg: name, Pos: c.Pos()})
				for _, r := range tr.execList(callee, callee.Decl.Body.List, []*pathState{sub}) {
					if r.done == "return" {
						r.done = ""
					}
					r.store, r.known = copyStore(savedStore), copyKnown(savedKnown)
					r.alias = map[string]string{}
					for ak, av := range savedAlias {
						r.alias[ak] = av
					}
					r.depth--
					r.trace = append(r.trace, TraceItem{Prim: "leave", Arg: name, Pos: c.Pos()})
					next = append(next, r)
				}
			}
			states = next
		}
	}
	return states
}

func copyStore(m map[string]int64) map[string]int64 {
	n := map[string]int64{}
	for k, v := range m {
		n[k] = v
	}
	return n
}

func copyKnown(m map[string]bool) map[string]bool {
	n := map[string]bool{}
	for k, v := range m {
		n[k] = v
	}
	return n
}

// flat returns the primitive items of a trace without enter/leave/case markers (loops kept).
func flat(ts []TraceItem) []TraceItem {
	var out []TraceItem
	for _, t := range ts {
		switch t.Prim {
		case "enter", "leave":
			continue
		case "loop":
			out = append(out, TraceItem{Prim: "loop", Arg: t.Arg, Body: flat(t.Body), Pos: t.Pos, End: t.End})
		default:
			out = append(out, t)
		}
	}
	return out
}

func assumeStr(st *pathState) string {
	var ks []string
	for k, v := range st.assume {
		ks = append(ks, fmt.Sprintf("%s=%v", k, v))
	}
	sort.Strings(ks)
	return fmt.Sprintf("v%d %s", st.version, strings.Join(ks, " "))
}

// dedupStates drops states that are identical in trace, assumptions and termination.
func dedupStates(in []*pathState) []*pathState {
	seen := map[string]bool{}
	var out []*pathState
	for _, s := range in {
		k := assumeStr(s) + "|" + traceStr(s.trace) + "|" + s.done + "|" + s.selStr()
		if !seen[k] {
			seen[k] = true
			out = append(out, s)
		}
	}
	return out
}

// evalInt evaluates a small integer expression from constants and constant-propagated locals.
func (tr *tracer) evalInt(info *types.Info, e ast.Expr, st *pathState) (int64, bool) {
	e = ast.Unparen(e)
	if k, ok := constInt(info, e); ok {
		return k, true
	}
	switch x := e.(type) {
	case *ast.Ident:
		if st.known[x.Name] {
			return st.store[x.Name], true
		}
	case *ast.BinaryExpr:
		a, ok1 := tr.evalInt(info, x.X, st)
		b, ok2 := tr.evalInt(info, x.Y, st)
		if ok1 && ok2 {
			switch x.Op {
			case token.ADD:
				return a + b, true
			case token.SUB:
				return a - b, true
			case token.MUL:
				return a * b, true
			}
		}
	case *ast.CallExpr:
		if len(x.Args) == 1 {
			if tv, ok := info.Types[x.Fun]; ok && tv.IsType() {
				return tr.evalInt(info, x.Args[0], st)
			}
		}
	}
	return 0, false
}

// recordBufOps records appends to / stores into the tracked buffer and assignments to fields of the tracked
// struct variable (used by the header layout rule, which compares writer and reader byte by byte).
func (tr *tracer) recordBufOps(fi *FuncInfo, as *ast.AssignStmt, st *pathState) {
	if st.done != "" || len(as.Lhs) != len(as.Rhs) {
		return
	}
	info := fi.Pkg.TypesInfo
	for i, l := range as.Lhs {
		ls := strings.ReplaceAll(exprStr(l), " ", "")
		rhs := ast.Unparen(as.Rhs[i])
		if tr.appendWrites {
			// x = append(x, y...) / append(x, b) / append(x, b1, b2) on a byte slice: the writes of a buffer
			if c, ok := rhs.(*ast.CallExpr); ok && exprStr(c.Fun) == "append" && len(c.Args) >= 2 && isByteSlice(info.TypeOf(l)) {
				if lid, isId := ast.Unparen(l).(*ast.Ident); isId && exprStr(ast.Unparen(c.Args[0])) == lid.Name {
					it := TraceItem{Pos: as.Pos(), Fn: fi, Recv: st.resolve(lid.Name)}
					switch {
					case c.Ellipsis.IsValid() && len(c.Args) == 2:
						it.Prim = "write"
						it.Call = &ast.CallExpr{Fun: c.Fun, Args: []ast.Expr{c.Args[1]}, Lparen: c.Lparen, Rparen: c.Rparen}
					case len(c.Args) == 2:
						it.Prim = "writebyte"
						it.Call = &ast.CallExpr{Fun: c.Fun, Args: []ast.Expr{c.Args[1]}, Lparen: c.Lparen, Rparen: c.Rparen}
						if k, isK := constInt(info, c.Args[1]); isK {
							it.Val, it.HasVal = k, true
						}
					default:
						it.Prim = "write"
						lit := &ast.CompositeLit{Type: &ast.ArrayType{Elt: ast.NewIdent("byte")}, Elts: c.Args[1:]}
						it.Call = &ast.CallExpr{Fun: c.Fun, Args: []ast.Expr{lit}, Lparen: c.Lparen, Rparen: c.Rparen}
					}
					it.Arg = exprStr(it.Call.Args[0])
					it.Args = []string{st.resolve(normAtom(it.Call.Args[0]))}
					st.trace = append(st.trace, it)
				}
			}
		}
		if tr.trackBuf != "" {
			// a local that carries the buffer while it is being built (hdr := append(f.buf[:0], ...); f.buf = append(hdr, ...))
			isBufName := func(n string) bool { return n == tr.trackBuf || st.alias["buf:"+n] == tr.trackBuf }
			if lid, isId := ast.Unparen(l).(*ast.Ident); isId {
				if c, ok := rhs.(*ast.CallExpr); ok && exprStr(c.Fun) == "append" && len(c.Args) >= 1 && !c.Ellipsis.IsValid() {
					base := strings.ReplaceAll(exprStr(c.Args[0]), " ", "")
					reset := false
					if strings.HasSuffix(base, "[:0]") && isBufName(strings.TrimSuffix(base, "[:0]")) {
						reset, base = true, strings.TrimSuffix(base, "[:0]")
					}
					if isBufName(base) {
						if reset {
							st.trace = append(st.trace, TraceItem{Prim: "reset", Pos: as.Pos()})
						}
						var items []ByteItem
						for _, a := range c.Args[1:] {
							items = append(items, parseByteItem(info, a))
						}
						st.trace = append(st.trace, TraceItem{Prim: "bytes", Bytes: items, Pos: as.Pos()})
						st.alias["buf:"+lid.Name] = tr.trackBuf
						continue
					}
				}
				delete(st.alias, "buf:"+lid.Name)
			}
			if ls == tr.trackBuf {
				if c, ok := rhs.(*ast.CallExpr); ok && exprStr(c.Fun) == "append" && len(c.Args) >= 1 && !c.Ellipsis.IsValid() {
					base := strings.ReplaceAll(exprStr(c.Args[0]), " ", "")
					if base != tr.trackBuf && isBufName(base) {
						var items []ByteItem
						for _, a := range c.Args[1:] {
							items = append(items, parseByteItem(info, a))
						}
						st.trace = append(st.trace, TraceItem{Prim: "bytes", Bytes: items, Pos: as.Pos()})
						continue
					}
				}
				if id, isId := rhs.(*ast.Ident); isId && isBufName(id.Name) {
					continue // f.buf = hdr: the bytes were recorded while hdr was built
				}
			}
			if ls == tr.trackBuf {
				if sl, ok := rhs.(*ast.SliceExpr); ok && strings.ReplaceAll(exprStr(sl.X), " ", "") == tr.trackBuf && sl.High != nil {
					if k, ok := constInt(info, sl.High); ok && k == 0 {
						st.trace = append(st.trace, TraceItem{Prim: "reset", Pos: as.Pos()})
					}
				}
				if c, ok := rhs.(*ast.CallExpr); ok && exprStr(c.Fun) == "append" && len(c.Args) >= 1 && !c.Ellipsis.IsValid() {
					base := strings.ReplaceAll(exprStr(c.Args[0]), " ", "")
					if base == tr.trackBuf+"[:0]" {
						st.trace = append(st.trace, TraceItem{Prim: "reset", Pos: as.Pos()})
						base = tr.trackBuf
					}
					if base == tr.trackBuf {
						var items []ByteItem
						for _, a := range c.Args[1:] {
							items = append(items, parseByteItem(info, a))
						}
						st.trace = append(st.trace, TraceItem{Prim: "bytes", Bytes: items, Pos: as.Pos()})
					}
				}
			}
			if ix, ok := ast.Unparen(l).(*ast.IndexExpr); ok && strings.ReplaceAll(exprStr(ix.X), " ", "") == tr.trackBuf {
				if off, ok := tr.evalInt(info, ix.Index, st); ok {
					st.trace = append(st.trace, TraceItem{Prim: "store", Off: int(off), Bytes: []ByteItem{parseByteItem(info, rhs)}, Pos: as.Pos()})
				} else {
					tr.unsupported(as, "store into "+tr.trackBuf+" at an offset that is not constant on this path")
				}
			}
		}
		if tr.trackVar != "" {
			if sel, ok := ast.Unparen(l).(*ast.SelectorExpr); ok && exprStr(sel.X) == tr.trackVar {
				st.trace = append(st.trace, TraceItem{Prim: "field", Arg: sel.Sel.Name, Expr: rhs, Pos: as.Pos()})
			}
		}
		if tr.trackField != "" {
			if sel, ok := ast.Unparen(l).(*ast.SelectorExpr); ok && sel.Sel.Name == tr.trackField {
				st.trace = append(st.trace, TraceItem{Prim: "field", Arg: sel.Sel.Name, Expr: rhs, Pos: as.Pos()})
			}
			// x = &T{field: v} / m[k] = T{field: v}
			lit := ast.Unparen(rhs)
			if u, ok := lit.(*ast.UnaryExpr); ok && u.Op == token.AND {
				lit = ast.Unparen(u.X)
			}
			if cl, ok := lit.(*ast.CompositeLit); ok {
				for _, el := range cl.Elts {
					if kv, ok := el.(*ast.KeyValueExpr); ok && exprStr(kv.Key) == tr.trackField {
						st.trace = append(st.trace, TraceItem{Prim: "field", Arg: tr.trackField, Expr: kv.Value, Pos: as.Pos()})
					}
				}
			}
		}
	}
}

// recordBufCall records binary.BigEndian.PutUintN(buf[k:], v) on the tracked buffer.
func (tr *tracer) recordBufCall(fi *FuncInfo, c *ast.CallExpr, st *pathState) {
	if tr.trackBuf == "" || st.done != "" {
		return
	}
	info := fi.Pkg.TypesInfo
	name := calleeName(info, c)
	w, okBE := binaryPut[name]
	_, okLE := binaryPutLE[name]
	if !okBE && !okLE || len(c.Args) != 2 {
		return
	}
	dst := ast.Unparen(c.Args[0])
	off := int64(0)
	base := dst
	if sl, ok := dst.(*ast.SliceExpr); ok {
		base = sl.X
		if sl.Low != nil {
			k, ok := tr.evalInt(info, sl.Low, st)
			if !ok {
				tr.unsupported(c, "encoding/binary store at an offset that is not constant on this path")
				return
			}
			off = k
		}
	}
	if strings.ReplaceAll(exprStr(base), " ", "") != tr.trackBuf {
		return
	}
	if okLE {
		st.trace = append(st.trace, TraceItem{Prim: "store-le", Off: int(off), Pos: c.Pos()})
		return
	}
	v := stripConv(info, c.Args[1])
	for i := 0; i < w; i++ {
		st.trace = append(st.trace, TraceItem{Prim: "store", Off: int(off) + i, Bytes: []ByteItem{{Base: v, Shift: 8 * (w - 1 - i)}}, Pos: c.Pos()})
	}
}

// isFieldPath: an identifier or a chain of field selections on one.
func isFieldPath(e ast.Expr) bool {
	switch x := ast.Unparen(e).(type) {
	case *ast.Ident:
		return x.Name != "true" && x.Name != "false" && x.Name != "nil" && x.Name != "_"
	case *ast.SelectorExpr:
		return isFieldPath(x.X)
	case *ast.StarExpr:
		// a copy of what a pointer refers to (payload := *customPayload): normAtom drops the indirection
		return isFieldPath(x.X)
	}
	return false
}

// trueLits: the string literals L for which the path assumed `fn(<anything>, "L")` (e.g. strings.HasSuffix) true.
func trueLits(st *pathState, fn string) []string {
	var out []string
	for k, v := range st.assume {
		if !v || !strings.HasPrefix(k, fn+"(") || !strings.HasSuffix(k, "\")") {
			continue
		}
		if i := strings.LastIndex(k, ", \""); i > 0 {
			out = append(out, k[i+3:len(k)-2])
		}
	}
	sort.Strings(out)
	return out
}

// decided returns, for the dispatch subject whose tested constants include one of names, the constants it is
// restricted to on this path (inside or outside loops) and whether it is restricted at all.
func (s *pathState) decided(names map[string]bool) (in []string, restricted bool, found bool) {
	for _, m := range []map[string]*selSet{s.sel, s.loopSel} {
		var keys []string
		for k := range m {
			keys = append(keys, k)
		}
		sort.Strings(keys)
		for _, k := range keys {
			x := m[k]
			rel := false
			for _, lbl := range x.in {
				if names[strings.SplitN(lbl, "=", 2)[0]] {
					rel = true
				}
			}
			for _, lbl := range x.out {
				if names[strings.SplitN(lbl, "=", 2)[0]] {
					rel = true
				}
			}
			if !rel {
				continue
			}
			if x.in == nil {
				return nil, false, true
			}
			for _, lbl := range x.in {
				in = append(in, strings.SplitN(lbl, "=", 2)[0])
			}
			sort.Strings(in)
			return in, true, true
		}
	}
	return nil, false, false
}

// recordFieldConds: `x := T{flag: cond}` / `x.flag = cond` with a boolean cond that is not a constant: remember the
// condition, so that a later test of x.flag is the test of cond (a small options struct passed to helpers).
func (tr *tracer) recordFieldConds(info *types.Info, lhs, rhs ast.Expr, st *pathState) {
	isBoolCond := func(e ast.Expr) bool {
		t := info.TypeOf(e)
		if t == nil {
			return false
		}
		b, ok := t.Underlying().(*types.Basic)
		if !ok || b.Kind() != types.Bool && b.Kind() != types.UntypedBool {
			return false
		}
		if tv, has := info.Types[e]; has && tv.Value != nil {
			return false
		}
		return true
	}
	set := func(key string, e ast.Expr) {
		if st.fieldE == nil {
			st.fieldE = map[string]ast.Expr{}
		}
		st.fieldE[key] = e
		if fa, ok := tr.condAtom(info, e, st); ok {
			if st.fieldA == nil {
				st.fieldA = map[string]fieldAtom{}
			}
			st.fieldA[key] = fa
		} else {
			delete(st.fieldA, key)
		}
	}
	base := st.resolve(normAtom(lhs))
	r := ast.Unparen(rhs)
	if u, ok := r.(*ast.UnaryExpr); ok && u.Op == token.AND {
		r = ast.Unparen(u.X)
	}
	if cl, ok := r.(*ast.CompositeLit); ok {
		for _, el := range cl.Elts {
			if kv, ok := el.(*ast.KeyValueExpr); ok {
				if kid, ok := kv.Key.(*ast.Ident); ok && isBoolCond(kv.Value) {
					set(base+"."+kid.Name, kv.Value)
				}
			}
		}
		return
	}
	if _, isSel := ast.Unparen(lhs).(*ast.SelectorExpr); isSel && isBoolCond(rhs) {
		if _, isIdent := r.(*ast.Ident); !isIdent {
			set(base, rhs)
		}
	}
}

// indexLoopOver recognises `for k := 0; k < len(X); k++ { ... }` whose body never writes k: the index variable and X.
func indexLoopOver(info *types.Info, f *ast.ForStmt) (string, ast.Expr, bool) {
	init, ok := f.Init.(*ast.AssignStmt)
	if !ok || init.Tok != token.DEFINE || len(init.Lhs) != 1 || len(init.Rhs) != 1 {
		return "", nil, false
	}
	kid, ok := init.Lhs[0].(*ast.Ident)
	if !ok {
		return "", nil, false
	}
	if z, isC := constInt(info, init.Rhs[0]); !isC || z != 0 {
		return "", nil, false
	}
	obj := info.Defs[kid]
	cond, ok := ast.Unparen(f.Cond).(*ast.BinaryExpr)
	if !ok || cond.Op != token.LSS || !isIdentOf(info, cond.X, obj) {
		return "", nil, false
	}
	lc, ok := ast.Unparen(cond.Y).(*ast.CallExpr)
	if !ok || exprStr(lc.Fun) != "len" || len(lc.Args) != 1 {
		return "", nil, false
	}
	post, ok := f.Post.(*ast.IncDecStmt)
	if !ok || post.Tok != token.INC || !isIdentOf(info, post.X, obj) {
		return "", nil, false
	}
	if !neverAssigned(info, f.Body, obj) {
		return "", nil, false
	}
	return kid.Name, lc.Args[0], true
}
