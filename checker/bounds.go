package main

import (
	"bufio"
	"bytes"
	"fmt"
	"go/ast"
	"go/token"
	"go/types"
	"os"
	"os/exec"
	"path/filepath"
	"regexp"
	"sort"
	"strconv"
	"strings"
)

// E5: bounds obligations.
//
// Discharger 1 is the Go compiler's prove pass: `go build -gcflags=-d=ssa/check_bce/debug=1`
// prints exactly the bounds checks it could NOT eliminate. Everything it eliminates is discharged.
// Discharger 2 is the guard-fact engine (dominating length checks, loop conditions, range loops,
// unsigned origin) plus one level of call-site preconditions.

type BCESite struct {
	File string // relative to repo
	Line int
	Col  int
	Kind string // IsInBounds | IsSliceInBounds
}

var bceRe = regexp.MustCompile(`^\./([^:]+):(\d+):(\d+): Found (IsInBounds|IsSliceInBounds)`)

var bceCache = map[string][]BCESite{}

// compilerUnproven runs the compiler over the repo's root-module packages and returns the unproven bounds checks.
func compilerUnproven(repo string, v Variant) ([]BCESite, error) {
	key := repo + "|" + v.Name + "|" + v.Tags
	if s, ok := bceCache[key]; ok {
		return s, nil
	}
	args := []string{"build", "-gcflags=" + rootPath + "/...=-d=ssa/check_bce/debug=1"}
	if v.Tags != "" {
		args = append(args, "-tags="+v.Tags)
	}
	args = append(args, ".", "./internal/...")
	cmd := exec.Command("go", args...)
	cmd.Dir = repo
	cmd.Env = goEnv(v)
	var out bytes.Buffer
	cmd.Stderr = &out
	cmd.Stdout = &out
	if err := cmd.Run(); err != nil {
		return nil, fmt.Errorf("go build (check_bce) failed: %v: %s", err, firstLines(out.String(), 6))
	}
	var sites []BCESite
	sc := bufio.NewScanner(&out)
	curDir := ""
	for sc.Scan() {
		line := sc.Text()
		if strings.HasPrefix(line, "# ") {
			// "# github.com/gocql/gocql/internal/streams"
			pkg := strings.TrimSpace(strings.TrimPrefix(line, "# "))
			curDir = strings.TrimPrefix(strings.TrimPrefix(pkg, rootPath), "/")
			continue
		}
		m := bceRe.FindStringSubmatch(line)
		if m == nil {
			continue
		}
		ln, _ := strconv.Atoi(m[2])
		col, _ := strconv.Atoi(m[3])
		f := m[1]
		// paths are relative to the build directory (repo root); keep as is
		_ = curDir
		sites = append(sites, BCESite{File: filepath.Clean(f), Line: ln, Col: col, Kind: m[4]})
	}
	if len(sites) == 0 {
		return nil, fmt.Errorf("compiler reported no bounds checks at all: the check_bce diagnostic format changed or the build cache dropped diagnostics")
	}
	bceCache[key] = sites
	return sites, nil
}

// BoundsOb is one bounds obligation inside a function.
type BoundsOb struct {
	Fn     *FuncInfo
	Node   ast.Node // IndexExpr, SliceExpr or CallExpr (library precondition)
	Kind   string   // "index" | "slice" | "libcall" | "inlined"
	Site   BCESite
	Callee string
}

func (p *Program) relFile(pos token.Pos) string {
	ps := p.Fset.Position(pos)
	f := ps.Filename
	if strings.HasPrefix(f, p.RepoDir+"/") {
		f = f[len(p.RepoDir)+1:]
	}
	return f
}

// libLenPrecond: library functions (possibly inlined) that index their slice argument: minimum length.
var libLenPrecond = map[string]int{
	"binary.(bigEndian).Uint16": 2, "binary.(bigEndian).Uint32": 4, "binary.(bigEndian).Uint64": 8,
	"binary.(bigEndian).PutUint16": 2, "binary.(bigEndian).PutUint32": 4, "binary.(bigEndian).PutUint64": 8,
	"binary.(littleEndian).Uint16": 2, "binary.(littleEndian).Uint32": 4, "binary.(littleEndian).Uint64": 8,
}

// boundsObligations maps the compiler's unproven sites that fall inside the given functions to syntax.
func boundsObligations(p *Program, sites []BCESite, fns map[*FuncInfo]bool) (obs []BoundsOb, unmatched []BCESite) {
	type key struct {
		file      string
		line, col int
	}
	bySite := map[key]BCESite{}
	for _, s := range sites {
		bySite[key{s.File, s.Line, s.Col}] = s
	}
	used := map[key]bool{}
	var list []*FuncInfo
	for f := range fns {
		list = append(list, f)
	}
	sort.Slice(list, func(i, j int) bool { return list[i].Name < list[j].Name })
	for _, fi := range list {
		file := p.relFile(fi.Decl.Pos())
		info := fi.Pkg.TypesInfo
		ast.Inspect(fi.Decl.Body, func(n ast.Node) bool {
			var lb token.Pos
			kind := ""
			switch x := n.(type) {
			case *ast.IndexExpr:
				lb, kind = x.Lbrack, "index"
			case *ast.SliceExpr:
				lb, kind = x.Lbrack, "slice"
			default:
				return true
			}
			ps := p.Fset.Position(lb)
			k := key{file, ps.Line, ps.Column}
			if s, ok := bySite[k]; ok {
				used[k] = true
				obs = append(obs, BoundsOb{Fn: fi, Node: n, Kind: kind, Site: s})
			}
			return true
		})
		// compiler sites inside this function's range that are not index/slice brackets: inlined callee
		start, end := p.Fset.Position(fi.Decl.Pos()), p.Fset.Position(fi.Decl.End())
		for _, s := range sites {
			k := key{s.File, s.Line, s.Col}
			if used[k] || s.File != file || s.Line < start.Line || s.Line > end.Line {
				continue
			}
			// find innermost call covering the position
			var best *ast.CallExpr
			ast.Inspect(fi.Decl.Body, func(n ast.Node) bool {
				c, ok := n.(*ast.CallExpr)
				if !ok {
					return true
				}
				a, b := p.Fset.Position(c.Pos()), p.Fset.Position(c.End())
				if (a.Line < s.Line || a.Line == s.Line && a.Column <= s.Col) && (b.Line > s.Line || b.Line == s.Line && b.Column >= s.Col) {
					best = c
				}
				return true
			})
			used[k] = true
			if best == nil {
				unmatched = append(unmatched, s)
				continue
			}
			name := calleeName(info, best)
			if _, ok := libLenPrecond[name]; ok {
				obs = append(obs, BoundsOb{Fn: fi, Node: best, Kind: "libcall", Site: s, Callee: name})
			} else {
				obs = append(obs, BoundsOb{Fn: fi, Node: best, Kind: "inlined", Site: s, Callee: name})
			}
		}
	}
	return obs, unmatched
}

// ---------------------------------------------------------------------------
// discharger 2: guard facts + difference-bound prover

// assumedFacts: per-function axioms (frozen after reading the code), each with its reason.
var assumedFacts = map[string][]assumedFact{
	"(*RowData).rowMap": {{"len(r.Columns)", 0, "len(r.Values)", 0,
		"RowData values are only built by (*Iter).RowData, which appends one value per column name (checked by C05.R9)"}},
	"(*Iter).MapScan": {{"len(rowData.Columns)", 0, "len(rowData.Values)", 0,
		"rowData comes from (*Iter).RowData in the same function: one value per column name (checked by C05.R9)"}},
	"decVint": {{zeroNode, 0, "start", 0,
		"start is 0 or the end offset returned by a previous decVint call (decVints is the only caller, checked by C05.R9)"}},
}

// dischargeBounds tries to prove the obligation from guard facts; returns ok and a reason.
func dischargeBounds(p *Program, ob BoundsOb) (bool, string) {
	g := p.GraphOf(ob.Fn)
	// obligations inside function literals use the literal's graph
	if lit, ok := p.enclosingFuncNode(ob.Node).(*ast.FuncLit); ok {
		g = p.GraphOfLit(ob.Fn, lit)
	}
	facts := g.GuardFacts()
	f, ok := facts.Before(ob.Node)
	if !ok {
		return true, "unreachable code"
	}
	d := newDBM(g, f, assumedFacts[ob.Fn.Name])
	d.sums = true
	info := g.Info
	switch x := ob.Node.(type) {
	case *ast.IndexExpr:
		if t := info.TypeOf(x.X); t != nil {
			if _, isMap := t.Underlying().(*types.Map); isMap {
				return true, "map index"
			}
		}
		d.noteLen(x.X)
		lo := d.nonNeg(x.Index)
		hi := d.leExpr(x.Index, 1, lenCall(x.X), 0)
		if lo && hi {
			return true, "0 <= " + exprStr(x.Index) + " < len(" + exprStr(x.X) + ") from dominating guards"
		}
		return false, fmt.Sprintf("cannot prove %s%s for %s; known: %s", ifs(!lo, "0 <= "+exprStr(x.Index)+" ", ""), ifs(!hi, exprStr(x.Index)+" < len("+exprStr(x.X)+")", ""), exprStr(x), factsAbout(f, exprStr(x.X), exprStr(x.Index)))
	case *ast.SliceExpr:
		d.noteLen(x.X)
		lenX := lenCall(x.X)
		var problems []string
		if x.Low != nil && !d.nonNeg(x.Low) {
			problems = append(problems, "0 <= "+exprStr(x.Low))
		}
		if x.High != nil {
			inCap := false
			if t := info.TypeOf(x.X); t != nil {
				if _, isSl := t.Underlying().(*types.Slice); isSl {
					// a slice may be re-sliced up to its capacity
					inCap = d.leExpr(x.High, 0, &ast.CallExpr{Fun: ast.NewIdent("cap"), Args: []ast.Expr{x.X}}, 0)
				}
			}
			if !inCap && !d.leExpr(x.High, 0, lenX, 0) {
				problems = append(problems, exprStr(x.High)+" <= len("+exprStr(x.X)+")")
			}
			if x.Low != nil {
				if !d.leExpr(x.Low, 0, x.High, 0) {
					problems = append(problems, exprStr(x.Low)+" <= "+exprStr(x.High))
				}
			} else if !d.nonNeg(x.High) {
				problems = append(problems, "0 <= "+exprStr(x.High))
			}
		} else if x.Low != nil {
			if !d.leExpr(x.Low, 0, lenX, 0) {
				problems = append(problems, exprStr(x.Low)+" <= len("+exprStr(x.X)+")")
			}
		}
		if len(problems) == 0 {
			return true, "slice bounds within len(" + exprStr(x.X) + ") from dominating guards"
		}
		return false, fmt.Sprintf("cannot prove %s for %s; known: %s", strings.Join(problems, " and "), exprStr(x), factsAbout(f, exprStr(x.X), ""))
	case *ast.CallExpr:
		if ob.Kind == "libcall" && len(x.Args) >= 1 {
			need := libLenPrecond[ob.Callee]
			d.noteLen(x.Args[0])
			lt, lk, ok := d.term(lenCall(x.Args[0]))
			if ok && d.le(zeroNode, need, lt, lk) {
				return true, fmt.Sprintf("len(%s) >= %d from dominating guards", exprStr(x.Args[0]), need)
			}
			return false, fmt.Sprintf("%s needs len(%s) >= %d, not established; known: %s", ob.Callee, exprStr(x.Args[0]), need, factsAbout(f, exprStr(x.Args[0]), ""))
		}
		return true, "bounds check inside inlined library function " + ob.Callee + " (library trusted)"
	}
	return false, "unsupported obligation"
}

func ifs(c bool, a, b string) string {
	if c {
		return a
	}
	return b
}

func factsAbout(f Facts, a, b string) string {
	var out []string
	for atom, v := range f.m {
		if a != "" && strings.Contains(atom, a) || b != "" && len(b) > 1 && strings.Contains(atom, b) {
			out = append(out, fmt.Sprintf("%s=%v", atom, v))
		}
	}
	sort.Strings(out)
	if len(out) == 0 {
		return "nothing relevant"
	}
	if len(out) > 6 {
		out = out[:6]
	}
	return strings.Join(out, "; ")
}

// lenAtLeast proves len(x) >= need at the program point of node n in function fi.
func lenAtLeast(p *Program, fi *FuncInfo, at ast.Node, x ast.Expr, need ast.Expr, needK int) bool {
	g := p.GraphOf(fi)
	if lit, ok := p.enclosingFuncNode(at).(*ast.FuncLit); ok {
		g = p.GraphOfLit(fi, lit)
	}
	f, reach := g.GuardFacts().Before(at)
	if !reach {
		return true
	}
	d := newDBM(g, f, assumedFacts[fi.Name])
	d.noteLen(x)
	lt, lk, ok := d.term(lenCall(x))
	if !ok {
		return false
	}
	if need == nil {
		return d.le(zeroNode, needK, lt, lk)
	}
	nt, nk, ok := d.term(need)
	if !ok {
		return false
	}
	d.noteTerm(need)
	return d.le(nt, nk+needK, lt, lk)
}

// ---------------------------------------------------------------------------
// Relational preconditions: an obligation inside a helper whose operands are the helper's own parameters /
// receiver fields (f.buf[:n] in a `consume(n)` helper) is the helper's precondition; it is discharged when every
// static call site establishes it with the actual arguments.

type leConstraint struct {
	lo  ast.Expr // nil: 0
	lok int
	hi  ast.Expr // nil: 0
	hik int
	txt string
}

func boundsConstraints(ob BoundsOb) []leConstraint {
	var out []leConstraint
	switch x := ob.Node.(type) {
	case *ast.IndexExpr:
		out = append(out, leConstraint{nil, 0, x.Index, 0, "0 <= " + exprStr(x.Index)})
		out = append(out, leConstraint{x.Index, 1, lenCall(x.X), 0, exprStr(x.Index) + " < len(" + exprStr(x.X) + ")"})
	case *ast.SliceExpr:
		if x.Slice3 {
			return nil
		}
		lenX := lenCall(x.X)
		if x.Low != nil {
			out = append(out, leConstraint{nil, 0, x.Low, 0, "0 <= " + exprStr(x.Low)})
		}
		if x.High != nil {
			out = append(out, leConstraint{x.High, 0, lenX, 0, exprStr(x.High) + " <= len(" + exprStr(x.X) + ")"})
			if x.Low != nil {
				out = append(out, leConstraint{x.Low, 0, x.High, 0, exprStr(x.Low) + " <= " + exprStr(x.High)})
			} else {
				out = append(out, leConstraint{nil, 0, x.High, 0, "0 <= " + exprStr(x.High)})
			}
		} else if x.Low != nil {
			out = append(out, leConstraint{x.Low, 0, lenX, 0, exprStr(x.Low) + " <= len(" + exprStr(x.X) + ")"})
		}
	}
	return out
}

var intZero = &ast.BasicLit{Kind: token.INT, Value: "0"}

func (d *dbm) proves(c leConstraint) bool {
	lo, hi := c.lo, c.hi
	if lo == nil {
		lo = intZero
	}
	if hi == nil {
		hi = intZero
	}
	if c.lo == nil && c.lok == 0 && c.hik == 0 && d.nonNeg(hi) {
		return true
	}
	if l, isLen := ast.Unparen(hi).(*ast.CallExpr); isLen && exprStr(l.Fun) == "len" && len(l.Args) == 1 {
		d.noteLen(l.Args[0])
	}
	return d.leExpr(lo, c.lok, hi, c.hik)
}

func dischargeAtCallSitesRel(p *Program, ob BoundsOb) (bool, string) {
	if _, inLit := p.enclosingFuncNode(ob.Node).(*ast.FuncLit); inLit {
		return false, ""
	}
	cons := boundsConstraints(ob)
	if len(cons) == 0 {
		return false, ""
	}
	info := ob.Fn.Pkg.TypesInfo
	g := p.GraphOf(ob.Fn)
	f, reach := g.GuardFacts().Before(ob.Node)
	if !reach {
		return true, "unreachable"
	}
	d := newDBM(g, f, assumedFacts[ob.Fn.Name])
	var open []leConstraint
	for _, c := range cons {
		if !d.proves(c) {
			open = append(open, c)
		}
	}
	if len(open) == 0 {
		return true, "from dominating guards"
	}
	params := p.stableParams(ob.Fn)
	// the operands must still have their entry values: no store to a mentioned field before the obligation
	for _, c := range open {
		for _, e := range []ast.Expr{c.lo, c.hi} {
			if e == nil {
				continue
			}
			if !p.onlyParams(info, e, params) {
				return false, ""
			}
			stale := false
			ast.Inspect(ob.Fn.Decl.Body, func(n ast.Node) bool {
				if as, ok := n.(*ast.AssignStmt); ok && as.End() <= ob.Node.Pos() {
					for _, l := range as.Lhs {
						if ls := exprStr(l); mentions(exprStr(e), ls) {
							stale = true
						}
					}
				}
				return true
			})
			if stale {
				return false, ""
			}
		}
	}
	nsites := 0
	bad := ""
	scope, _ := decodeScope(p, nil)
	for _, caller := range p.SortedFuncs() {
		// callers outside the decode scope (helpers only the tests use) do not handle network data
		if caller.Decl.Body == nil || !scope[caller] {
			continue
		}
		cinfo := caller.Pkg.TypesInfo
		ast.Inspect(caller.Decl.Body, func(n ast.Node) bool {
			c, ok := n.(*ast.CallExpr)
			if !ok {
				return true
			}
			fn := calleeOf(cinfo, c)
			if fn == nil || p.FuncOf(fn) != ob.Fn {
				return true
			}
			nsites++
			cg := p.GraphOf(caller)
			if lit, ok := p.enclosingFuncNode(c).(*ast.FuncLit); ok {
				cg = p.GraphOfLit(caller, lit)
			}
			cf, creach := cg.GuardFacts().Before(p.stmtOf(c, caller))
			if !creach {
				return true
			}
			cd := newDBM(cg, cf, assumedFacts[caller.Name])
			sub := p.callSubst(ob.Fn, c)
			for _, oc := range open {
				sc := oc
				if oc.lo != nil {
					sc.lo = substParamsExpr(info, oc.lo, sub)
				}
				if oc.hi != nil {
					sc.hi = substParamsExpr(info, oc.hi, sub)
				}
				if !cd.proves(sc) {
					bad = fmt.Sprintf("call site %s in %s does not establish %s", p.Pos(c), caller.Name, oc.txt)
				}
			}
			return true
		})
	}
	// a method value / function value use of the helper escapes the call-site enumeration
	if p.usedAsValue(ob.Fn) {
		return false, ob.Fn.Name + " is also used as a function value"
	}
	if bad != "" {
		return false, bad
	}
	if nsites == 0 {
		return false, "no static call site establishes the precondition"
	}
	var txt []string
	for _, c := range open {
		txt = append(txt, c.txt)
	}
	return true, fmt.Sprintf("precondition %s established at all %d call sites", strings.Join(txt, " and "), nsites)
}

// usedAsValue: fi is referenced other than as the function of a call.
func (p *Program) usedAsValue(fi *FuncInfo) bool {
	used := false
	for _, other := range p.SortedFuncs() {
		if other.Decl.Body == nil || used {
			continue
		}
		// an unexported function can only be named inside its own package
		if fi.Obj != nil && !fi.Obj.Exported() && other.Pkg != fi.Pkg {
			continue
		}
		oinfo := other.Pkg.TypesInfo
		calls := map[ast.Expr]bool{}
		ast.Inspect(other.Decl.Body, func(n ast.Node) bool {
			if c, ok := n.(*ast.CallExpr); ok {
				calls[ast.Unparen(c.Fun)] = true
			}
			return true
		})
		ast.Inspect(other.Decl.Body, func(n ast.Node) bool {
			switch x := n.(type) {
			case *ast.SelectorExpr:
				if oinfo.Uses[x.Sel] == fi.Obj && !calls[x] {
					used = true
				}
				return true
			case *ast.Ident:
				if oinfo.Uses[x] == fi.Obj && !calls[x] {
					// the Sel of a selector call is visited too: skip when its parent selector is the call's Fun
					if sel, ok := p.Parent(x).(*ast.SelectorExpr); ok && sel.Sel == x && calls[sel] {
						return true
					}
					if _, ok := p.Parent(x).(*ast.SelectorExpr); ok {
						return true
					}
					used = true
				}
			}
			return true
		})
	}
	return used
}

// ---------------------------------------------------------------------------
// Discharge by constant replay.
//
// A function whose loops run a constant number of times over fixed-size data (a 16-byte UUID formatted into a
// 36-byte buffer with a running output position) has indexes that are constants in every iteration although no
// difference bound relates them to the loop counter. The term interpreter unrolls such loops; when it gets through
// the whole function without meeting anything it cannot interpret, every evaluation of an index expression it saw
// is exact, and an index that was a constant below the constant length of its array / buffer on every evaluation is
// in range. Sites that were never evaluated, or once with a symbolic index or length, are not discharged.

type replayVisit struct {
	n, bad int
}

func (p *Program) replayIndexes(fi *FuncInfo) map[*ast.IndexExpr]*replayVisit {
	if p.replayCache == nil {
		p.replayCache = map[*FuncInfo]map[*ast.IndexExpr]*replayVisit{}
	}
	if v, ok := p.replayCache[fi]; ok {
		return v
	}
	p.replayCache[fi] = nil
	if fi.Decl.Body == nil {
		return nil
	}
	info := fi.Pkg.TypesInfo
	se := newSymEval(p)
	se.errNil = true
	visits := map[*ast.IndexExpr]*replayVisit{}
	se.onIndex = func(ix *ast.IndexExpr, idx sval, n int) {
		v := visits[ix]
		if v == nil {
			v = &replayVisit{}
			visits[ix] = v
		}
		v.n++
		if idx.kind != 'i' || !idx.t.isConst() || n < 0 || int64(idx.t.k) < 0 || int64(idx.t.k) >= int64(n) {
			v.bad++
		}
	}
	symbolic := func(name string, t types.Type) sval {
		if _, _, isInt := se.width(t); isInt {
			return sval{kind: 'i', t: tSym(name), typ: t}
		}
		if at, ok := t.Underlying().(*types.Array); ok && at.Len() <= 256 {
			if _, _, isInt := se.width(at.Elem()); isInt {
				a := &arrVal{elemT: at.Elem()}
				for i := int64(0); i < at.Len(); i++ {
					a.elems = append(a.elems, sval{kind: 'i', t: tSym(fmt.Sprintf("%s[%d]", name, i)), typ: at.Elem()})
				}
				return sval{kind: 'a', arr: a, typ: t}
			}
		}
		if _, ok := t.Underlying().(*types.Slice); ok {
			return sval{kind: 's', base: name, off: tConst(0), slen: tSym("len:" + name), typ: t}
		}
		return sval{kind: 'u'}
	}
	if fi.Decl.Recv != nil && len(fi.Decl.Recv.List) == 1 && len(fi.Decl.Recv.List[0].Names) == 1 {
		if obj := info.Defs[fi.Decl.Recv.List[0].Names[0]]; obj != nil {
			se.env[obj] = symbolic(obj.Name(), obj.Type())
		}
	}
	var args []sval
	if fi.Decl.Type.Params != nil {
		for _, pf := range fi.Decl.Type.Params.List {
			for _, pn := range pf.Names {
				if obj := info.Defs[pn]; obj != nil {
					args = append(args, symbolic(obj.Name(), obj.Type()))
				} else {
					args = append(args, sval{kind: 'u'})
				}
			}
		}
	}
	func() {
		defer func() {
			if x := recover(); x != nil {
				se.unsup = append(se.unsup, fmt.Sprint("panic: ", x))
			}
		}()
		se.evalFunc(fi, args)
	}()
	if os.Getenv("DBGREPLAY") != "" {
		fmt.Println("DBGREPLAY", fi.Name, "unsup:", se.unsup, "sites:", len(visits))
	}
	if len(se.unsup) > 0 {
		return nil
	}
	p.replayCache[fi] = visits
	return visits
}

func dischargeByReplay(p *Program, ob BoundsOb) (bool, string) {
	ix, ok := ob.Node.(*ast.IndexExpr)
	if !ok {
		return false, ""
	}
	if _, inLit := p.enclosingFuncNode(ob.Node).(*ast.FuncLit); inLit {
		return false, ""
	}
	v := p.replayIndexes(ob.Fn)[ix]
	if v == nil || v.n == 0 || v.bad > 0 {
		return false, ""
	}
	return true, fmt.Sprintf("constant replay of %s: the index is a constant below the constant length on each of its %d evaluations", ob.Fn.Name, v.n)
}
