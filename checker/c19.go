package main

import (
	"fmt"
	"go/ast"
	"go/token"
	"go/types"
	"strings"
)

func init() {
	register(&PropertySpec{
		ID: "C19",
		Explanation: "Structural necessary conditions of 'UUIDs parse, print and carry time faithfully; generated time-UUIDs are unique': R1 known-bits dataflow: at every successful return of TimeUUIDWith / RandomUUID the version nibble of byte 6 and the variant bits of byte 8 are the RFC 4122 values (stamping happens last); R2 the byte<->shift table with which TimeUUIDWith stores the 60-bit timestamp equals the table with which Timestamp() reads it; " +
			"R3 the parser classifies the input rune itself against the three hexadecimal ranges, subtracts the matching base, writes u[j/2] only under j < 32 and accepts only j == 32 at the end; R4 the process-wide clock sequence is only touched through sync/atomic after init; R5 every generated time-UUID takes its clock value from a single atomic add on that sequence (never a plain load).",
		NotDecided: "print/parse round trip for all 128-bit values; the min/max time-UUID ordering bounds; uniqueness across processes and clock regressions.",
		Rules: []*Rule{
			{ID: "C19.R1", Floor: 4, Doc: "version / variant bits are as RFC 4122 says at every success return (known-bits dataflow)", Run: c19r1},
			{ID: "C19.R2", Floor: 8, Doc: "timestamp byte/shift tables of TimeUUIDWith and Timestamp() agree", Run: c19r2},
			{ID: "C19.R3", Floor: 5, Doc: "ParseUUID: rune ranges on the input rune, matching base, j < 32 guard, final j == 32", Run: c19r3},
			{ID: "C19.R4", Floor: 1, Doc: "clockSeq only through sync/atomic outside init", Run: c19r4},
			{ID: "C19.R5", Floor: 1, Doc: "UUIDFromTime's clock value is the result of one atomic add on clockSeq on every path", Run: c19r5},
		},
	})
}

// known bits of one byte
type kbits struct{ mask, val uint8 } // mask: which bits are known; val: their values

type kbState map[int]kbits // index -> known bits

func (s kbState) clone() kbState {
	n := kbState{}
	for k, v := range s {
		n[k] = v
	}
	return n
}

func c19r1(p *Program, r *Report) {
	for _, w := range []struct {
		fn      string
		version uint8
	}{{"TimeUUIDWith", 1}, {"RandomUUID", 4}} {
		fi := r.NeedFunc(w.fn)
		if fi == nil {
			continue
		}
		g := p.GraphOf(fi)
		info := g.Info
		// the UUID variable
		var uObj types.Object
		ast.Inspect(fi.Decl.Body, func(x ast.Node) bool {
			if vs, ok := x.(*ast.ValueSpec); ok && uObj == nil {
				for _, nm := range vs.Names {
					if typeNameOf(info.TypeOf(nm)) == "UUID" {
						uObj = info.Defs[nm]
					}
				}
			}
			return true
		})
		if uObj == nil {
			r.Unresolved("%s: no local UUID variable", w.fn)
			continue
		}
		evalByte := func(st kbState, e ast.Expr) kbits {
			var ev func(e ast.Expr) kbits
			ev = func(e ast.Expr) kbits {
				e = ast.Unparen(e)
				if k, ok := constInt(info, e); ok {
					return kbits{0xFF, uint8(k)}
				}
				switch x := e.(type) {
				case *ast.BinaryExpr:
					l, rr := ev(x.X), ev(x.Y)
					switch x.Op {
					case token.AND:
						zeros := (l.mask &^ l.val) | (rr.mask &^ rr.val)
						ones := (l.mask & l.val) & (rr.mask & rr.val)
						return kbits{zeros | ones, ones}
					case token.OR:
						ones := (l.mask & l.val) | (rr.mask & rr.val)
						zeros := (l.mask &^ l.val) & (rr.mask &^ rr.val)
						return kbits{zeros | ones, ones}
					}
				case *ast.IndexExpr:
					if isIdentOf(info, x.X, uObj) {
						if k, ok := constInt(info, x.Index); ok {
							return st[int(k)]
						}
					}
				}
				return kbits{}
			}
			return ev(e)
		}
		sol := Solve(g, Lattice[kbState]{
			Init: kbState{},
			Join: func(a, b kbState) kbState {
				n := kbState{}
				for k, av := range a {
					bv := b[k]
					m := av.mask & bv.mask &^ (av.val ^ bv.val)
					n[k] = kbits{m, av.val & m}
				}
				return n
			},
			Eq: func(a, b kbState) bool {
				if len(a) != len(b) {
					return false
				}
				for k, v := range a {
					if b[k] != v {
						return false
					}
				}
				return true
			},
			Step: func(s kbState, st Step) kbState {
				if st.Kind != StNode {
					return s
				}
				switch x := st.Node.(type) {
				case *ast.ValueSpec:
					for _, nm := range x.Names {
						if info.Defs[nm] == uObj {
							n := kbState{}
							for i := 0; i < 16; i++ {
								n[i] = kbits{0xFF, 0}
							}
							return n
						}
					}
				case *ast.AssignStmt:
					n := s.clone()
					changed := false
					// evaluate all RHS in the old state (tuple assignment)
					var vals []kbits
					for i := range x.Lhs {
						if len(x.Rhs) == len(x.Lhs) {
							vals = append(vals, evalByte(s, x.Rhs[i]))
						} else {
							vals = append(vals, kbits{})
						}
					}
					for i, l := range x.Lhs {
						ix, ok := ast.Unparen(l).(*ast.IndexExpr)
						if !ok || !isIdentOf(info, ix.X, uObj) {
							continue
						}
						k, ok := constInt(info, ix.Index)
						if !ok {
							for j := range n {
								n[j] = kbits{}
							}
							return n
						}
						changed = true
						old := s[int(k)]
						switch x.Tok {
						case token.ASSIGN, token.DEFINE:
							n[int(k)] = vals[i]
						case token.OR_ASSIGN:
							rv := vals[i]
							ones := (old.mask & old.val) | (rv.mask & rv.val)
							zeros := (old.mask &^ old.val) & (rv.mask &^ rv.val)
							n[int(k)] = kbits{zeros | ones, ones}
						case token.AND_ASSIGN:
							rv := vals[i]
							zeros := (old.mask &^ old.val) | (rv.mask &^ rv.val)
							ones := (old.mask & old.val) & (rv.mask & rv.val)
							n[int(k)] = kbits{zeros | ones, ones}
						default:
							n[int(k)] = kbits{}
						}
					}
					if changed {
						return n
					}
				case *ast.ExprStmt:
					// copy(u[k:], ...) / io.ReadFull(r, u[:]) overwrite a range
					n := s.clone()
					touched := false
					ast.Inspect(x, func(m ast.Node) bool {
						sl, ok := m.(*ast.SliceExpr)
						if !ok || !isIdentOf(info, sl.X, uObj) {
							return true
						}
						lo := 0
						if sl.Low != nil {
							if k, ok := constInt(info, sl.Low); ok {
								lo = int(k)
							}
						}
						for i := lo; i < 16; i++ {
							n[i] = kbits{}
						}
						touched = true
						return true
					})
					if touched {
						return n
					}
				}
				// assignments like `_, err := io.ReadFull(rand.Reader, u[:])`
				if as, ok := st.Node.(*ast.AssignStmt); ok {
					n := s.clone()
					touched := false
					for _, rhs := range as.Rhs {
						ast.Inspect(rhs, func(m ast.Node) bool {
							if sl, ok := m.(*ast.SliceExpr); ok && isIdentOf(info, sl.X, uObj) {
								for i := 0; i < 16; i++ {
									n[i] = kbits{}
								}
								touched = true
							}
							return true
						})
					}
					if touched {
						return n
					}
				}
				return s
			},
		})
		nret := 0
		for _, e := range g.Exits() {
			rs, ok := e.Node.(*ast.ReturnStmt)
			if !ok || len(rs.Results) == 0 || !isIdentOf(info, rs.Results[0], uObj) {
				continue
			}
			if len(rs.Results) == 2 && !isNil(info, rs.Results[1]) {
				continue
			}
			nret++
			s, _ := sol.Before(rs)
			b6, b8 := s[6], s[8]
			r.Check(b6.mask&0xF0 == 0xF0 && b6.val&0xF0 == w.version<<4, rs, fmt.Sprintf("%s returns a version %d UUID", w.fn, w.version),
				fmt.Sprintf("byte 6 high nibble known = 0x%X", w.version), fmt.Sprintf("at this return the version nibble of byte 6 is not provably %d (known mask 0x%02X value 0x%02X): the version is stamped before the byte is overwritten, or with the wrong value", w.version, b6.mask, b6.val))
			r.Check(b8.mask&0xC0 == 0xC0 && b8.val&0xC0 == 0x80, rs, w.fn+" returns the RFC 4122 variant", "byte 8 top bits known = 10", fmt.Sprintf("at this return the variant bits of byte 8 are not provably 10 (known mask 0x%02X value 0x%02X)", b8.mask, b8.val))
		}
		if nret == 0 {
			r.Unresolved("%s: no success return of the UUID variable", w.fn)
		}
	}
}

func c19r2(p *Program, r *Report) {
	wr := r.NeedFunc("TimeUUIDWith")
	rd := r.NeedFunc("(UUID).Timestamp")
	if wr == nil || rd == nil {
		return
	}
	winfo := wr.Pkg.TypesInfo
	tName := "t"
	if po := paramObj(winfo, wr.Decl.Type, 0); po != nil {
		tName = po.Name()
	}
	wshift := map[int]int{}
	ast.Inspect(wr.Decl.Body, func(x ast.Node) bool {
		as, ok := x.(*ast.AssignStmt)
		if !ok || len(as.Lhs) != len(as.Rhs) || as.Tok != token.ASSIGN {
			return true
		}
		for i, l := range as.Lhs {
			ix, ok := ast.Unparen(l).(*ast.IndexExpr)
			if !ok {
				continue
			}
			k, ok := constInt(winfo, ix.Index)
			if !ok {
				continue
			}
			rhs := ast.Unparen(as.Rhs[i])
			if b, ok := rhs.(*ast.BinaryExpr); ok && b.Op == token.AND {
				rhs = ast.Unparen(b.X)
			}
			it := parseByteItem(winfo, rhs)
			if !it.IsConst && it.Base == tName {
				wshift[int(k)] = it.Shift
			}
		}
		return true
	})
	rinfo := rd.Pkg.TypesInfo
	rshift := map[int]int{}
	ast.Inspect(rd.Decl.Body, func(x ast.Node) bool {
		b, ok := x.(*ast.BinaryExpr)
		if !ok || b.Op != token.SHL {
			return true
		}
		s, ok := constInt(rinfo, b.Y)
		if !ok {
			return true
		}
		// operand: T(u[i]) or T(u[i] & M)
		var idx ast.Expr
		ast.Inspect(b.X, func(m ast.Node) bool {
			if ix, ok := m.(*ast.IndexExpr); ok && idx == nil {
				idx = ix.Index
			}
			return true
		})
		if idx != nil {
			if k, ok := constInt(rinfo, idx); ok {
				rshift[int(k)] = int(s)
			}
		}
		return true
	})
	// u[3] has shift 0: `uint64(u[3])` without <<
	ast.Inspect(rd.Decl.Body, func(x ast.Node) bool {
		if c, ok := x.(*ast.CallExpr); ok && len(c.Args) == 1 {
			if ix, ok := ast.Unparen(c.Args[0]).(*ast.IndexExpr); ok {
				if k, ok := constInt(rinfo, ix.Index); ok {
					if _, has := rshift[int(k)]; !has {
						if _, isShift := p.Parent(c).(*ast.BinaryExpr); !isShift || p.Parent(c).(*ast.BinaryExpr).Op != token.SHL {
							rshift[int(k)] = 0
						}
					}
				}
			}
		}
		return true
	})
	want := map[int]int{0: 24, 1: 16, 2: 8, 3: 0, 4: 40, 5: 32, 6: 56, 7: 48}
	for i := 0; i < 8; i++ {
		ws, wok := wshift[i]
		rs, rok := rshift[i]
		r.Check(wok && rok && ws == rs && ws == want[i], wr.Decl, fmt.Sprintf("timestamp byte %d: writer and reader use shift %d", i, want[i]), fmt.Sprintf("writer >>%d, reader <<%d", ws, rs),
			fmt.Sprintf("UUID byte %d: TimeUUIDWith stores t>>%d (found=%v) but Timestamp() reads it <<%d (found=%v); RFC 4122 layout says %d: a time-UUID does not return the time it was built from", i, ws, wok, rs, rok, want[i]))
	}
}

func c19r3(p *Program, r *Report) {
	fi := r.NeedFunc("ParseUUID")
	if fi == nil {
		return
	}
	g := p.GraphOf(fi)
	info := g.Info
	var rng *ast.RangeStmt
	ast.Inspect(fi.Decl.Body, func(x ast.Node) bool {
		if rs, ok := x.(*ast.RangeStmt); ok && rng == nil {
			rng = rs
		}
		return true
	})
	if rng == nil || rng.Value == nil {
		r.Unresolved("ParseUUID: no range over the input")
		return
	}
	runeObj := info.Defs[rng.Value.(*ast.Ident)]
	ranges := map[string][2]rune{"digits": {'0', '9'}, "lower": {'a', 'f'}, "upper": {'A', 'F'}}
	found := map[string]bool{}
	nwrite := 0
	ast.Inspect(rng.Body, func(x ast.Node) bool {
		cc, ok := x.(*ast.CaseClause)
		if !ok {
			return true
		}
		// does the clause write u[...]?
		var store *ast.AssignStmt
		for _, st := range cc.Body {
			if as, ok := st.(*ast.AssignStmt); ok {
				if _, isIx := ast.Unparen(as.Lhs[0]).(*ast.IndexExpr); isIx {
					store = as
				}
			}
		}
		if store == nil || len(cc.List) != 1 {
			return true
		}
		nwrite++
		var atoms []ast.Expr
		var split func(e ast.Expr)
		split = func(e ast.Expr) {
			e = ast.Unparen(e)
			if b, ok := e.(*ast.BinaryExpr); ok && b.Op == token.LAND {
				split(b.X)
				split(b.Y)
				return
			}
			atoms = append(atoms, e)
		}
		split(cc.List[0])
		var lo, hi rune = -1, -1
		onRune := true
		guardJ := false
		for _, a := range atoms {
			b, ok := a.(*ast.BinaryExpr)
			if !ok {
				continue
			}
			if k, isC := constInt(info, b.Y); isC {
				if id, isId := ast.Unparen(b.X).(*ast.Ident); isId {
					switch {
					case info.Uses[id] == runeObj && b.Op == token.GEQ:
						lo = rune(k)
					case info.Uses[id] == runeObj && b.Op == token.LEQ:
						hi = rune(k)
					case id.Name == "j" && b.Op == token.LSS && k == 32:
						guardJ = true
					case (b.Op == token.GEQ || b.Op == token.LEQ) && info.Uses[id] != runeObj && id.Name != "j":
						onRune = false
					}
				}
			}
		}
		which := ""
		for nme, rg := range ranges {
			if lo == rg[0] && hi == rg[1] {
				which = nme
			}
		}
		name := "ParseUUID case " + exprStr(cc.List[0])
		r.Check(which != "" && onRune, cc, name+" classifies the input rune against one hexadecimal range", which, "the digit test is not `r >= L && r <= H` on the input rune itself for one of '0'-'9', 'a'-'f', 'A'-'F' (a folded or derived value lets other characters pass as digits)")
		if which != "" {
			found[which] = true
			// value: byte(r - L) or byte(r - L + 10)
			val := exprStr(store.Rhs[0])
			base := fmt.Sprintf("'%c'", ranges[which][0])
			okVal := strings.Contains(val, exprStr(rng.Value)+" - "+base) || strings.Contains(val, exprStr(rng.Value)+"-"+base)
			if which != "digits" {
				okVal = okVal && strings.Contains(val, "10")
			}
			r.Check(okVal, store, name+" converts with the matching base", val, "the digit value is not computed from the same range's base character: "+val)
		}
		r.Check(guardJ, cc, name+" writes only while j < 32", "j < 32 in the case condition", "the store into u[j/2] is not guarded by j < 32: a 33rd digit indexes out of range")
		return true
	})
	if nwrite == 0 {
		r.Unresolved("ParseUUID does not classify the rune in a switch over the hexadecimal ranges (the form this rule compares with the ranges); only the width and length rules below are decided")
	} else {
		for nme := range ranges {
			if !found[nme] {
				r.Bad(rng, "ParseUUID handles "+nme, "no case for the "+nme+" hexadecimal range")
			}
		}
	}
	// the hexadecimal ranges are tested on the input rune itself: a comparison with a character constant made
	// on a value derived from the rune by a bit operation (case folding with |0x20, masking) lets other
	// characters pass as digits
	{
		derived := map[types.Object]string{}
		ast.Inspect(rng.Body, func(x ast.Node) bool {
			as, ok := x.(*ast.AssignStmt)
			if !ok || len(as.Lhs) != len(as.Rhs) {
				return true
			}
			for i, l := range as.Lhs {
				id, ok := l.(*ast.Ident)
				if !ok {
					continue
				}
				bitop := false
				mentions := false
				ast.Inspect(as.Rhs[i], func(y ast.Node) bool {
					if b, ok := y.(*ast.BinaryExpr); ok && (b.Op == token.OR || b.Op == token.AND || b.Op == token.XOR || b.Op == token.AND_NOT) {
						bitop = true
					}
					if rid, ok := y.(*ast.Ident); ok && info.Uses[rid] == runeObj {
						mentions = true
					}
					return true
				})
				if bitop && mentions {
					obj := info.Defs[id]
					if obj == nil {
						obj = info.Uses[id]
					}
					if obj != nil {
						derived[obj] = exprStr(as.Rhs[i])
					}
				}
			}
			return true
		})
		// masks of the foldings: c = r | K
		foldMask := map[types.Object]int64{}
		ast.Inspect(rng.Body, func(x ast.Node) bool {
			as, ok := x.(*ast.AssignStmt)
			if !ok || len(as.Lhs) != len(as.Rhs) {
				return true
			}
			for i, l := range as.Lhs {
				id, ok := l.(*ast.Ident)
				if !ok {
					continue
				}
				obj := info.Defs[id]
				if obj == nil {
					obj = info.Uses[id]
				}
				if b, ok := ast.Unparen(as.Rhs[i]).(*ast.BinaryExpr); ok && b.Op == token.OR && obj != nil {
					if rid, ok := ast.Unparen(b.X).(*ast.Ident); ok && info.Uses[rid] == runeObj {
						if k, ok := constInt(info, b.Y); ok {
							foldMask[obj] = k
						}
					}
				}
			}
			return true
		})
		isHex := func(c int64) bool { return c >= '0' && c <= '9' || c >= 'a' && c <= 'f' || c >= 'A' && c <= 'F' }
		// range tests `c >= L && c <= H` on a derived value
		ast.Inspect(rng.Body, func(x ast.Node) bool {
			land, ok := x.(*ast.BinaryExpr)
			if !ok || land.Op != token.LAND {
				return true
			}
			if pb, ok := p.Parent(land).(*ast.BinaryExpr); ok && pb.Op == token.LAND {
				return true // handled at the top of the chain
			}
			var atoms []*ast.BinaryExpr
			var split func(e ast.Expr)
			split = func(e ast.Expr) {
				e = ast.Unparen(e)
				if b, ok := e.(*ast.BinaryExpr); ok {
					if b.Op == token.LAND {
						split(b.X)
						split(b.Y)
						return
					}
					atoms = append(atoms, b)
				}
			}
			split(land)
			bounds := map[types.Object][2]int64{}
			has := map[types.Object][2]bool{}
			for _, a := range atoms {
				id, ok := ast.Unparen(a.X).(*ast.Ident)
				k, isK := constInt(info, a.Y)
				if !ok || !isK {
					continue
				}
				obj := info.Uses[id]
				if _, isDerived := derived[obj]; !isDerived {
					continue
				}
				b, h := bounds[obj], has[obj]
				switch a.Op {
				case token.GEQ:
					b[0], h[0] = k, true
				case token.GTR:
					b[0], h[0] = k+1, true
				case token.LEQ:
					b[1], h[1] = k, true
				case token.LSS:
					b[1], h[1] = k-1, true
				}
				bounds[obj], has[obj] = b, h
			}
			for obj, b := range bounds {
				if !has[obj][0] || !has[obj][1] {
					continue
				}
				mask, isFold := foldMask[obj]
				if !isFold {
					r.Unresolved("ParseUUID tests the hexadecimal range on %s = %s, a derivation of the rune this rule cannot invert", obj.Name(), derived[obj])
					continue
				}
				// preimage of [lo,hi] under r -> r|mask
				var strays []string
				for v := b[0]; v <= b[1] && v-b[0] < 4096; v++ {
					if v&mask != mask {
						continue
					}
					// every r that differs from v only in bits of the mask
					for sub := mask; ; sub = (sub - 1) & mask {
						rr := v &^ sub
						if !isHex(rr) {
							strays = append(strays, fmt.Sprintf("%#x", rr))
						}
						if sub == 0 {
							break
						}
					}
				}
				r.Check(len(strays) == 0, land, fmt.Sprintf("ParseUUID: range test [%q,%q] on %s = %s accepts only hexadecimal digits", rune(b[0]), rune(b[1]), obj.Name(), derived[obj]), "every rune that folds into the range is a hexadecimal digit",
					fmt.Sprintf("the range test [%q,%q] is made on `%s = %s`; the runes %s also fold into that range and are accepted as hexadecimal digits", rune(b[0]), rune(b[1]), obj.Name(), derived[obj], strings.Join(strays, ", ")))
			}
			return true
		})
	}
	// every conversion of the input rune (or a value derived from it) to a narrower type keeps its value:
	// a rune silently truncated to a byte lets non-ASCII characters pass as digits
	{
		gfacts := g.GuardFacts()
		seq := 0
		inspectNoLit(rng.Body, func(x ast.Node) bool {
			c, ok := x.(*ast.CallExpr)
			if !ok || len(c.Args) != 1 {
				return true
			}
			tv, ok := info.Types[c.Fun]
			if !ok || !tv.IsType() {
				return true
			}
			db, du, ok := p.intWidth(tv.Type)
			if !ok || db >= 32 {
				return true
			}
			mentions := false
			ast.Inspect(c.Args[0], func(y ast.Node) bool {
				if id, ok := y.(*ast.Ident); ok && info.Uses[id] == runeObj {
					mentions = true
				}
				return true
			})
			if !mentions {
				return true
			}
			seq++
			f, _ := gfacts.Before(p.stmtOf(c, fi))
			// the conversion may sit in a case clause whose condition bounds the rune
			if cc, ok := p.enclosing(c, fi.Decl, func(n ast.Node) bool { _, is := n.(*ast.CaseClause); return is }).(*ast.CaseClause); ok && len(cc.List) == 1 {
				f = f.clone()
				f.assume(cc.List[0], true)
			}
			iv, why := p.operandInterval(g, fi, f, c.Args[0])
			acc := typeRange(db, du)
			if !du {
				acc = ival{typeRange(db, false).lo, typeRange(db, true).hi}
			}
			r.Check(iv.lo != nil && iv.within(acc), c, fmt.Sprintf("ParseUUID: %s keeps the rune's value #%d", exprStr(c), seq), "operand in "+iv.String()+" ("+why+")",
				fmt.Sprintf("the input rune is narrowed by %s while it can be anywhere in %s (%s): a non-ASCII character whose low byte is a hexadecimal digit is accepted as that digit", exprStr(c), iv.String(), why))
			return true
		})
	}
	// final length check
	facts := g.GuardFacts()
	okFinal := false
	for _, e := range g.Exits() {
		rs, ok := e.Node.(*ast.ReturnStmt)
		if !ok || len(rs.Results) != 2 || !isNil(info, rs.Results[1]) {
			continue
		}
		f, _ := facts.Before(rs)
		for atom, v := range f.m {
			if v && (atom == "j == 32" || atom == "32 == j") {
				okFinal = true
			}
		}
	}
	r.Check(okFinal, fi.Decl, "ParseUUID accepts only exactly 32 digits", "success return dominated by j == 32", "a string with fewer than 32 hexadecimal digits is accepted")
	// default case rejects
	rej := false
	ast.Inspect(rng.Body, func(x ast.Node) bool {
		if cc, ok := x.(*ast.CaseClause); ok && cc.List == nil && clauseRejects(p, info, cc) {
			rej = true
		}
		return true
	})
	if nwrite > 0 {
		r.Check(rej, rng, "ParseUUID rejects every other character", "default returns an error", "characters that are neither hexadecimal digits nor separators are not rejected")
	}
}

func c19r4(p *Program, r *Report) {
	obj := p.Root.Types.Scope().Lookup("clockSeq")
	if obj == nil {
		r.Unresolved("package variable clockSeq not found")
		return
	}
	n := 0
	for _, f := range p.Root.Syntax {
		ast.Inspect(f, func(x ast.Node) bool {
			fd, ok := x.(*ast.FuncDecl)
			if !ok || fd.Body == nil {
				return true
			}
			if fd.Name.Name == "init" && fd.Recv == nil {
				return false
			}
			info := p.Root.TypesInfo
			ast.Inspect(fd.Body, func(m ast.Node) bool {
				id, ok := m.(*ast.Ident)
				if !ok || info.Uses[id] != obj {
					return true
				}
				n++
				okAtomic := false
				if u, ok := p.Parent(id).(*ast.UnaryExpr); ok && u.Op == token.AND {
					if c, ok := p.Parent(u).(*ast.CallExpr); ok && strings.HasPrefix(calleeName(info, c), "atomic.") {
						okAtomic = true
					}
				}
				r.Check(okAtomic, id, fd.Name.Name+" accesses clockSeq", "through sync/atomic", "the process-wide clock sequence is read or written without sync/atomic: concurrent generators can obtain the same value")
				return true
			})
			return false
		})
	}
	if n == 0 {
		r.Unresolved("clockSeq is never used outside init")
	}
	// every generated UUID consumes a fresh sequence value: the clock argument of TimeUUIDWith in UUIDFromTime is,
	// on every path, the result of an atomic increment of clockSeq (a value merely loaded is shared with every
	// other UUID generated for the same timestamp)
	if fi := r.NeedFunc("UUIDFromTime"); fi != nil {
		info := fi.Pkg.TypesInfo
		isInc := func(e ast.Expr) bool {
			c, ok := ast.Unparen(e).(*ast.CallExpr)
			if !ok || calleeName(info, c) != "atomic.AddUint32" || len(c.Args) != 2 {
				return false
			}
			u, ok := c.Args[0].(*ast.UnaryExpr)
			if !ok || u.Op != token.AND {
				return false
			}
			id, ok := u.X.(*ast.Ident)
			k, isK := constInt(info, c.Args[1])
			return ok && info.Uses[id] == obj && isK && k > 0
		}
		found := false
		for _, c := range callsIn(fi.Decl.Body) {
			if !isCallTo(info, c, "TimeUUIDWith") || len(c.Args) != 3 {
				continue
			}
			found = true
			arg := ast.Unparen(c.Args[1])
			okAll := isInc(arg)
			why := exprStr(arg)
			if id, isId := arg.(*ast.Ident); isId {
				okAll = true
				ndef := 0
				ast.Inspect(fi.Decl.Body, func(x ast.Node) bool {
					if as, ok := x.(*ast.AssignStmt); ok && len(as.Lhs) == len(as.Rhs) {
						for i, l := range as.Lhs {
							if lid, ok := l.(*ast.Ident); ok && (info.Defs[lid] == info.Uses[id] || info.Uses[lid] == info.Uses[id]) {
								ndef++
								if !isInc(as.Rhs[i]) {
									okAll = false
									why = exprStr(as.Rhs[i])
								}
							}
						}
					}
					return true
				})
				if ndef == 0 {
					okAll = false
				}
			}
			r.Check(okAll, c, "UUIDFromTime: every UUID takes a freshly incremented clock sequence", "atomic.AddUint32(&clockSeq, 1) on every path", "on some path the clock sequence used is `"+why+"`, not the result of an atomic increment: two UUIDs generated for the same 100ns timestamp (concurrently, or after the clock stepped back) are identical")
		}
		if !found {
			r.Unresolved("UUIDFromTime does not call TimeUUIDWith")
		}
	}
}

func c19r5(p *Program, r *Report) {
	fi := r.NeedFunc("UUIDFromTime")
	if fi == nil {
		return
	}
	info := fi.Pkg.TypesInfo
	isAtomicAdd := func(inf *types.Info, e ast.Expr) bool {
		c, ok := ast.Unparen(e).(*ast.CallExpr)
		if !ok || calleeName(inf, c) != "atomic.AddUint32" || len(c.Args) != 2 {
			return false
		}
		if !strings.HasSuffix(exprStr(c.Args[0]), "clockSeq") {
			return false
		}
		k, isC := constInt(inf, c.Args[1])
		return isC && k != 0
	}
	var clockArg ast.Expr
	ast.Inspect(fi.Decl.Body, func(x ast.Node) bool {
		if c, ok := x.(*ast.CallExpr); ok && isCallTo(info, c, "TimeUUIDWith") && len(c.Args) == 3 {
			clockArg = c.Args[1]
		}
		return true
	})
	if clockArg == nil {
		r.Unresolved("UUIDFromTime does not call TimeUUIDWith")
		return
	}
	src := clockArg
	if id, ok := ast.Unparen(clockArg).(*ast.Ident); ok {
		if def := localDef(info, fi, id); def != nil {
			src = def
		}
	}
	ok := isAtomicAdd(info, src)
	why := exprStr(src)
	if !ok {
		// one level: a helper all of whose returns are atomic adds
		if c, isCall := ast.Unparen(src).(*ast.CallExpr); isCall {
			if fn := calleeOf(info, c); fn != nil {
				if h := p.FuncOf(fn); h != nil {
					ok = true
					hinfo := h.Pkg.TypesInfo
					for _, e := range p.GraphOf(h).Exits() {
						rs, isR := e.Node.(*ast.ReturnStmt)
						if !isR || len(rs.Results) != 1 || !isAtomicAdd(hinfo, rs.Results[0]) {
							ok = false
							if isR && len(rs.Results) == 1 {
								why = h.Name + " returns " + exprStr(rs.Results[0])
							}
						}
					}
				}
			}
		}
	}
	r.Check(ok, clockArg, "UUIDFromTime takes its clock value from one atomic add on clockSeq", "atomic.AddUint32(&clockSeq, 1)",
		"the clock sequence of a generated time-UUID is "+why+", not the result of a single atomic add: two generators in the same 100ns tick can read the same value and produce identical UUIDs")
}
