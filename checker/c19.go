package main

import (
	"fmt"
	"go/ast"
	"go/token"
	"go/types"
	"os"
	"strings"
)

func init() {
	register(&PropertySpec{
		ID: "C19",
		Explanation: "Structural necessary conditions of 'UUIDs parse, print and carry time faithfully; generated time-UUIDs are unique': R1 known-bits dataflow: at every successful return of TimeUUIDWith / RandomUUID the version nibble of byte 6 and the variant bits of byte 8 are the RFC 4122 values (stamping happens last); R2 the byte<->shift table with which TimeUUIDWith stores the 60-bit timestamp equals the table with which Timestamp() reads it; " +
			"R3 the parser classifies the input rune itself against the three hexadecimal ranges, subtracts the matching base, writes u[j/2] only under j < 32 and accepts only j == 32 at the end; R4 the process-wide clock sequence is only touched through sync/atomic after init; R5 every generated time-UUID takes its clock value from a single atomic add on that sequence (never a plain load)." +
			" R6 getTimestamp builds the tick count from Unix() seconds and Nanosecond() separately, never from UnixNano(); R7 MinTimeUUID / MaxTimeUUID pass the clock and node bytes that are extreme under Cassandra's signed byte order (80 80 .. 80 / bf 7f .. 7f)." +
			" R8 UUID.Time builds the time from seconds (ticks/10^7 + base) and the sub-second remainder, never from one nanosecond count.",
		NotDecided: "print/parse round trip for all 128-bit values; the min/max time-UUID ordering bounds; uniqueness across processes and clock regressions.",
		Rules: []*Rule{
			{ID: "C19.R1", Floor: 4, Doc: "version / variant bits are as RFC 4122 says at every success return (known-bits dataflow)", Run: c19r1},
			{ID: "C19.R2", Floor: 8, Doc: "timestamp byte/shift tables of TimeUUIDWith and Timestamp() agree", Run: c19r2},
			{ID: "C19.R3", Floor: 5, Doc: "ParseUUID: rune ranges on the input rune, matching base, j < 32 guard, final j == 32", Run: c19r3},
			{ID: "C19.R4", Floor: 1, Doc: "clockSeq only through sync/atomic outside init", Run: c19r4},
			{ID: "C19.R5", Floor: 1, Doc: "UUIDFromTime's clock value is the result of one atomic add on clockSeq on every path", Run: c19r5},
			{ID: "C19.R6", Floor: 1, Doc: "getTimestamp counts 100 ns ticks from seconds and nanoseconds separately (no UnixNano, which wraps outside 1678..2262)", Run: c19r6},
			{ID: "C19.R7", Floor: 4, Doc: "MinTimeUUID / MaxTimeUUID use the extreme clock and node bytes under Cassandra's signed byte order", Run: c19r7},
			{ID: "C19.R8", Floor: 1, Doc: "UUID.Time splits the tick count into seconds and the sub-second part before building the time (no nanosecond count in an int64, which only spans 1678..2262)", Run: c19r8},
			{ID: "C19.R10", Floor: 1, Doc: "the parser ORs the hexadecimal digits into a zeroed UUID: a variable declared without a value in the function holding the loop, or one cleared on every path before it (never the live receiver of an unmarshaler)", Run: c19ZeroDest},
			{ID: "C19.R9", Floor: 1, Doc: "(UUID).Time returns the zero time only where the version is known not to be 1", Run: c19r9},
		},
	})
}

// known bits of one byte
type kbits struct{ mask, val uint8 } // mask: which bits are known; val: their values

type kbState map[int]kbits // index -> known bits

func (s kbState) clone() kbState {
	n := kbState{}
	for k, v := range s {
		n[k] = v
	}
	return n
}

// uuidBytes interprets a UUID constructor on symbolic arguments and returns the terms of the 16 bytes it returns.
func uuidBytes(p *Program, fi *FuncInfo) ([]*term, string) {
	se := newSymEval(p)
	se.errNil = true
	se.opaque["io.ReadFull"] = true
	se.opaque["io.ReadAtLeast"] = true
	se.opaque["rand.Read"] = true
	info := fi.Pkg.TypesInfo
	var args []sval
	if fi.Decl.Type.Params != nil {
		for _, pf := range fi.Decl.Type.Params.List {
			for _, pn := range pf.Names {
				t := info.TypeOf(pf.Type)
				if _, _, isInt := se.width(t); isInt {
					args = append(args, sval{kind: 'i', t: tSym(pn.Name), typ: t})
				} else if _, isSl := t.Underlying().(*types.Slice); isSl {
					args = append(args, sval{kind: 's', base: pn.Name, off: tConst(0), slen: tSym("len(" + pn.Name + ")")})
				} else {
					args = append(args, sval{kind: 'u'})
				}
			}
		}
	}
	vals, ok := se.evalFunc(fi, args)
	if len(se.unsup) > 0 || !ok {
		return nil, strings.Join(se.unsup, "; ")
	}
	if len(vals) == 0 || vals[0].kind != 'a' || vals[0].arr == nil || len(vals[0].arr.elems) != 16 {
		return nil, "the first result is not a 16-byte array value"
	}
	var out []*term
	for _, e := range vals[0].arr.elems {
		if e.kind != 'i' {
			return nil, "a byte of the result is not an integer term"
		}
		out = append(out, e.t)
	}
	return out, ""
}

func bitsText(pv [64]pbit, hi, lo int) string {
	var sb strings.Builder
	for i := hi; i >= lo; i-- {
		switch pv[i].kind {
		case '0', '1':
			sb.WriteByte(pv[i].kind)
		case 's':
			sb.WriteByte('x')
		default:
			sb.WriteByte('?')
		}
	}
	return sb.String()
}

func c19r1(p *Program, r *Report) {
	for _, w := range []struct {
		fn      string
		version uint8
	}{{"TimeUUIDWith", 1}, {"RandomUUID", 4}} {
		fi := r.NeedFunc(w.fn)
		if fi == nil {
			continue
		}
		bytes, why := uuidBytes(p, fi)
		if bytes == nil {
			r.Unresolved("%s: %s", w.fn, why)
			continue
		}
		v6, v8 := provenance(bytes[6]), provenance(bytes[8])
		want := fmt.Sprintf("%04b", w.version)
		got := bitsText(v6, 7, 4)
		r.Check(got == want, fi.Decl, fmt.Sprintf("%s returns a version %d UUID", w.fn, w.version), "bits 7..4 of byte 6 are "+want+" in the value returned",
			fmt.Sprintf("in the returned value the version nibble of byte 6 is %s (x: a data bit, ?: unknown), RFC 4122 requires %s: the version is stamped before the byte is overwritten, or with the wrong value", got, want))
		gotV := bitsText(v8, 7, 6)
		r.Check(gotV == "10", fi.Decl, w.fn+" returns the RFC 4122 variant", "bits 7..6 of byte 8 are 10 in the value returned",
			fmt.Sprintf("in the returned value the variant bits of byte 8 are %s, RFC 4122 requires 10", gotV))
	}
}

func c19r2(p *Program, r *Report) {
	wr := r.NeedFunc("TimeUUIDWith")
	rd := r.NeedFunc("(UUID).Timestamp")
	if wr == nil || rd == nil {
		return
	}
	winfo := wr.Pkg.TypesInfo
	tName := "t"
	if po := paramObj(winfo, wr.Decl.Type, 0); po != nil {
		tName = po.Name()
	}
	bytes, why := uuidBytes(p, wr)
	if bytes == nil {
		r.Unresolved("TimeUUIDWith: %s", why)
		return
	}
	// writer: which bit of t lands in which bit of which byte
	wbit := map[[2]int]int{} // (byte, bit) -> bit of t
	for i := 0; i < 8; i++ {
		pv := provenance(bytes[i])
		for j := 0; j < 8; j++ {
			if pv[j].kind == 's' && pv[j].sym == tName {
				wbit[[2]int{i, j}] = pv[j].bit
			}
		}
	}
	// reader: Timestamp() of a version-1 UUID with symbolic bytes
	se := newSymEval(p)
	u := &arrVal{elemT: types.Typ[types.Uint8]}
	for i := 0; i < 16; i++ {
		name := fmt.Sprintf("byte:u[%d]", i)
		u.elems = append(u.elems, sval{kind: 'i', t: tSym(name), typ: types.Typ[types.Uint8]})
	}
	se.attrs["byte:u[6]"] = map[uint64]uint64{0xF0: 0x10}
	rinfo := rd.Pkg.TypesInfo
	if rd.Decl.Recv == nil || len(rd.Decl.Recv.List) != 1 || len(rd.Decl.Recv.List[0].Names) != 1 {
		r.Unresolved("Timestamp has no named receiver")
		return
	}
	se.env[rinfo.Defs[rd.Decl.Recv.List[0].Names[0]]] = sval{kind: 'a', arr: u}
	vals, ok := se.evalFunc(rd, nil)
	if len(se.unsup) > 0 || !ok || len(vals) != 1 || vals[0].kind != 'i' {
		r.Unresolved("(UUID).Timestamp: %s", strings.Join(se.unsup, "; "))
		return
	}
	rp := provenance(vals[0].t)
	rbit := map[[2]int]int{} // (byte, bit) -> bit of the timestamp it becomes
	for b := 0; b < 64; b++ {
		if rp[b].kind == 's' && strings.HasPrefix(rp[b].sym, "byte:u[") {
			var idx int
			fmt.Sscanf(rp[b].sym, "byte:u[%d]", &idx)
			rbit[[2]int{idx, rp[b].bit}] = b
		}
	}
	want := map[int]int{0: 24, 1: 16, 2: 8, 3: 0, 4: 40, 5: 32, 6: 56, 7: 48}
	for i := 0; i < 8; i++ {
		nb := 8
		if i == 6 {
			nb = 4 // the high nibble of byte 6 is the version
		}
		okAll := true
		ws, rs := -1, -1
		for j := 0; j < nb; j++ {
			wb, wok := wbit[[2]int{i, j}]
			rb, rok := rbit[[2]int{i, j}]
			if j == 0 {
				if wok {
					ws = wb
				}
				if rok {
					rs = rb
				}
			}
			if !wok || !rok || wb != want[i]+j || rb != want[i]+j {
				okAll = false
			}
		}
		r.Check(okAll, wr.Decl, fmt.Sprintf("timestamp byte %d: writer and reader use shift %d", i, want[i]), fmt.Sprintf("bit j of the byte is bit %d+j of the timestamp in both directions", want[i]),
			fmt.Sprintf("UUID byte %d: TimeUUIDWith stores bit %d of t in its lowest bit and Timestamp() reads that bit back as bit %d (-1: not found); RFC 4122 layout says %d: a time-UUID does not return the time it was built from", i, ws, rs, want[i]))
	}
	// no other byte, and not the version nibble, contributes to the timestamp
	for k, b := range rbit {
		if k[0] > 7 || k[0] == 6 && k[1] > 3 {
			r.Bad(rd.Decl, "Timestamp() reads only the timestamp fields", fmt.Sprintf("bit %d of byte %d (not a timestamp bit) becomes bit %d of the timestamp", k[1], k[0], b))
		}
	}
}

// c19TableDigits: ParseUUID takes the value of a digit from a package-level table T indexed by the input rune.
// The table is read (it is a composite literal never written to), and for every entry the expression stored into
// the UUID is evaluated over the finite domain of the table's values: each of the 22 hexadecimal characters must
// yield its value, every other entry (and every character without an entry: zero) must be rejected before the
// store - the stores are only reachable where the looked-up code differs from the zero value or the evaluated
// nibble of a non-hex entry would be stored.
func c19TableDigits(p *Program, r *Report, fi *FuncInfo, rng *ast.RangeStmt, runeObj types.Object) (bool, map[string]bool, string) {
	info := fi.Pkg.TypesInfo
	g := p.GraphOf(fi)
	// code := T[r]
	var lookup *ast.IndexExpr
	inspectNoLit(rng.Body, func(x ast.Node) bool {
		ix, ok := x.(*ast.IndexExpr)
		if !ok || lookup != nil {
			return true
		}
		if id, isId := ast.Unparen(stripAllConv(info, ix.Index)).(*ast.Ident); !isId || info.Uses[id] != runeObj {
			return true
		}
		if tid, isId := ast.Unparen(ix.X).(*ast.Ident); isId {
			if v, isVar := info.Uses[tid].(*types.Var); isVar && v.Parent() == v.Pkg().Scope() {
				lookup = ix
			}
		}
		return true
	})
	if lookup == nil {
		return false, nil, ""
	}
	tv := info.Uses[lookup.X.(*ast.Ident)].(*types.Var)
	// the table's literal; the variable is never written or has its address taken
	var lit *ast.CompositeLit
	written := false
	for _, pkg := range p.Pkgs {
		if pkg.Types != tv.Pkg() {
			continue
		}
		for _, f := range pkg.Syntax {
			ast.Inspect(f, func(x ast.Node) bool {
				switch y := x.(type) {
				case *ast.ValueSpec:
					for i, nm := range y.Names {
						if pkg.TypesInfo.Defs[nm] == types.Object(tv) && i < len(y.Values) {
							lit, _ = ast.Unparen(y.Values[i]).(*ast.CompositeLit)
						}
					}
				case *ast.AssignStmt:
					for _, l := range y.Lhs {
						if rid := rootIdent(l); rid != nil && pkg.TypesInfo.Uses[rid] == types.Object(tv) {
							written = true
						}
					}
				case *ast.IncDecStmt:
					if rid := rootIdent(y.X); rid != nil && pkg.TypesInfo.Uses[rid] == types.Object(tv) {
						written = true
					}
				case *ast.UnaryExpr:
					if rid := rootIdent(y.X); y.Op == token.AND && rid != nil && pkg.TypesInfo.Uses[rid] == types.Object(tv) {
						written = true
					}
				}
				return true
			})
		}
	}
	if lit == nil || written {
		return false, nil, "the digit table " + tv.Name() + " is not a composite literal that is never written"
	}
	entries := map[int64]int64{}
	next := int64(0)
	for _, el := range lit.Elts {
		val := el
		if kv, isKV := el.(*ast.KeyValueExpr); isKV {
			k, isK := constInt(info, kv.Key)
			if !isK {
				return false, nil, "a key of the digit table is not a constant"
			}
			next, val = k, kv.Value
		}
		v, isV := constInt(info, val)
		if !isV {
			return false, nil, "an entry of the digit table is not a constant"
		}
		entries[next] = v
		next++
	}
	// the local the looked-up code is held in
	codeName := ""
	if as, isAs := p.Parent(lookup).(*ast.AssignStmt); isAs && len(as.Lhs) == 1 {
		if id, isId := as.Lhs[0].(*ast.Ident); isId {
			codeName = id.Name
		}
	}
	if codeName == "" {
		return false, nil, "the looked-up digit code is not bound to a local"
	}
	// an array table is indexed only where the rune is known to be below its length
	if at, isArr := tv.Type().Underlying().(*types.Array); isArr {
		f, _ := g.GuardFacts().Before(p.stmtOf(lookup, fi))
		d := newDBM(g, f, nil)
		rid := ast.NewIdent(runeObj.Name())
		if !d.leExpr(rid, 1, &ast.BasicLit{Kind: token.INT, Value: fmtInt(int(at.Len()))}, 0) && !d.leExpr(rid, 1, &ast.CallExpr{Fun: ast.NewIdent("len"), Args: []ast.Expr{lookup.X}}, 0) {
			// the comparison may be written on the converted length: r >= rune(len(T)) false
			okIdx := false
			for atom, v := range f.m {
				if !v && strings.HasPrefix(atom, runeObj.Name()+" < ") && strings.Contains(atom, "len("+tv.Name()+")") {
					okIdx = false
				}
				if v && strings.HasPrefix(atom, runeObj.Name()+" < ") && strings.Contains(atom, "len("+tv.Name()+")") {
					okIdx = true
				}
			}
			r.Check(okIdx, lookup, "ParseUUID looks the rune up only where it is inside the digit table", runeObj.Name()+" < len("+tv.Name()+") known", "the digit table is indexed with a rune that is not known to be below its length: a character beyond the table panics")
		} else {
			r.OK(lookup, "ParseUUID looks the rune up only where it is inside the digit table", runeObj.Name()+" < len("+tv.Name()+") known")
		}
	}
	hexval := func(c int64) (int64, bool) {
		switch {
		case c >= '0' && c <= '9':
			return c - '0', true
		case c >= 'a' && c <= 'f':
			return c - 'a' + 10, true
		case c >= 'A' && c <= 'F':
			return c - 'A' + 10, true
		}
		return 0, false
	}
	// the stores into the UUID
	nstore := 0
	okAll := true
	why := ""
	found := map[string]bool{}
	ast.Inspect(rng.Body, func(x ast.Node) bool {
		as, ok := x.(*ast.AssignStmt)
		if !ok || len(as.Lhs) != 1 || len(as.Rhs) != 1 {
			return true
		}
		ix, isIx := ast.Unparen(as.Lhs[0]).(*ast.IndexExpr)
		if !isIx || typeNameOf(info.TypeOf(ix.X)) != "UUID" {
			return true
		}
		nstore++
		val := ast.Unparen(as.Rhs[0])
		shift := int64(0)
		if b, isB := val.(*ast.BinaryExpr); isB && b.Op == token.SHL {
			if k, isK := constInt(info, b.Y); isK {
				shift, val = k, ast.Unparen(b.X)
			}
		}
		f, _ := g.GuardFacts().Before(as)
		zeroExcluded := false
		if v, known := f.Known(&ast.BinaryExpr{X: ast.NewIdent(codeName), Op: token.EQL, Y: &ast.BasicLit{Kind: token.INT, Value: "0"}}); known && !v {
			zeroExcluded = true
		}
		if os.Getenv("DBGC19") != "" {
			fmt.Println("DBGC19", p.Pos(as), f.m)
		}
		for c := int64(0); c < 256; c++ {
			code, has := entries[c]
			if !has || code == 0 {
				if !zeroExcluded {
					okAll, why = false, "a character without an entry in "+tv.Name()+" reaches the store (the zero code is not rejected)"
				}
				continue
			}
			ev := &evalEnv{info: info, fi: fi, vars: map[string]int64{codeName: code}, seen: map[types.Object]bool{}}
			got, okE := ev.eval(val)
			want, isHex := hexval(c)
			if !okE {
				okAll, why = false, "the stored value "+exprStr(val)+" cannot be evaluated from the table entry"
				continue
			}
			if !isHex || got != want || shift != 0 && shift != 4 {
				okAll, why = false, fmt.Sprintf("character %q yields the digit value %d", rune(c), got)
			}
		}
		return true
	})
	for nme, rg := range map[string][2]int64{"digits": {'0', '9'}, "lower": {'a', 'f'}, "upper": {'A', 'F'}} {
		all := true
		for c := rg[0]; c <= rg[1]; c++ {
			if v, has := entries[c]; !has || v == 0 {
				all = false
			}
		}
		found[nme] = all
	}
	if nstore == 0 {
		return false, nil, "the value looked up in " + tv.Name() + " is never stored into the UUID"
	}
	r.Check(okAll, lookup, "ParseUUID digit table "+tv.Name()+" gives every hexadecimal character its value and nothing else", "22 entries evaluated through the stored expression", "the digit table / the expression that turns its entry into a nibble is wrong: "+why)
	return true, found, ""
}

func c19r3(p *Program, r *Report) {
	fi := r.NeedFunc("ParseUUID")
	if fi == nil {
		return
	}
	// the loop over the input: in ParseUUID or in a private helper it hands the input to
	var rng *ast.RangeStmt
	for _, u := range p.unitsOf(fi) {
		if rng != nil {
			break
		}
		ast.Inspect(u.Decl.Body, func(x ast.Node) bool {
			if rs, ok := x.(*ast.RangeStmt); ok && rng == nil {
				if t := u.Pkg.TypesInfo.TypeOf(rs.X); t != nil {
					if b, isB := t.Underlying().(*types.Basic); isB && b.Kind() == types.String {
						rng = rs
						fi = u
					}
				}
			}
			return true
		})
	}
	g := p.GraphOf(fi)
	info := g.Info
	if rng == nil || rng.Value == nil {
		r.Unresolved("ParseUUID: no range over the input")
		return
	}
	runeObj := info.Defs[rng.Value.(*ast.Ident)]
	ranges := map[string][2]rune{"digits": {'0', '9'}, "lower": {'a', 'f'}, "upper": {'A', 'F'}}
	found := map[string]bool{}
	// production sites: conversions byte(R - 'c') / byte(R - 'c' + 10) of the input rune R, in ParseUUID or in a
	// helper that is handed the rune. At each site the guards must confine R to the range that starts at 'c'.
	type prodSite struct {
		fn   *FuncInfo
		call *ast.CallExpr
		r    *ast.Ident
		base rune
		plus bool
	}
	var sites []prodSite
	prodOf := func(fn *FuncInfo, e ast.Expr, isRune func(*ast.Ident) bool) (prodSite, bool) {
		plus := false
		// byte(R - 'c') + 10: the offset added after the conversion
		if b, isB := ast.Unparen(e).(*ast.BinaryExpr); isB && b.Op == token.ADD {
			if k, isK := constInt(info, b.Y); isK && k == 10 {
				plus, e = true, b.X
			} else if k, isK := constInt(info, b.X); isK && k == 10 {
				plus, e = true, b.Y
			}
		}
		c, ok := ast.Unparen(e).(*ast.CallExpr)
		if !ok || len(c.Args) != 1 {
			return prodSite{}, false
		}
		if tv, isT := info.Types[c.Fun]; !isT || !tv.IsType() {
			return prodSite{}, false
		}
		x := ast.Unparen(c.Args[0])
		if b, isB := x.(*ast.BinaryExpr); isB && b.Op == token.ADD {
			if k, isK := constInt(info, b.Y); isK && k == 10 && !plus {
				plus, x = true, ast.Unparen(b.X)
			} else if k, isK := constInt(info, b.X); isK && k == 10 && !plus {
				plus, x = true, ast.Unparen(b.Y)
			}
		}
		b, isB := x.(*ast.BinaryExpr)
		if !isB || b.Op != token.SUB {
			return prodSite{}, false
		}
		id, isId := ast.Unparen(b.X).(*ast.Ident)
		k, isK := constInt(info, b.Y)
		if !isId || !isK || !isRune(id) {
			return prodSite{}, false
		}
		return prodSite{fn, c, id, rune(k), plus}, true
	}
	for _, u := range p.unitsOf(fi) {
		u := u
		isRune := func(id *ast.Ident) bool {
			if u == fi {
				return info.Uses[id] == runeObj
			}
			rf, re := p.resolveValue(u, id, 0)
			return rf == fi && isIdentOf(info, re, runeObj)
		}
		inspectNoLit(u.Decl.Body, func(x ast.Node) bool {
			if e, ok := x.(ast.Expr); ok {
				if ps, ok := prodOf(u, e, isRune); ok {
					sites = append(sites, ps)
					return false
				}
			}
			return true
		})
	}
	nwrite := len(sites)
	for _, ps := range sites {
		sg := p.GraphOf(ps.fn)
		f, _ := sg.GuardFacts().Before(p.stmtOf(ps.call, ps.fn))
		if cc, ok := p.enclosing(ps.call, ps.fn.Decl, func(n ast.Node) bool { _, is := n.(*ast.CaseClause); return is }).(*ast.CaseClause); ok && len(cc.List) == 1 {
			if sw, isSw := p.Parent(p.Parent(cc)).(*ast.SwitchStmt); isSw && sw.Tag == nil {
				f = f.clone()
				f.assume(cc.List[0], true)
			}
		}
		d := newDBM(sg, f, nil)
		which := ""
		for nme, rg := range ranges {
			if rg[0] != ps.base {
				continue
			}
			lo := &ast.BasicLit{Kind: token.INT, Value: fmtInt(int(rg[0]))}
			hi := &ast.BasicLit{Kind: token.INT, Value: fmtInt(int(rg[1]))}
			if d.leExpr(lo, 0, ps.r, 0) && d.leExpr(ps.r, 0, hi, 0) {
				which = nme
			}
		}
		name := fmt.Sprintf("ParseUUID digit value %s", exprStr(ps.call))
		r.Check(which != "", ps.call, name+" is computed only for runes of the hexadecimal range that starts at its base", which,
			fmt.Sprintf("the digit value %s is computed although the guards do not confine the rune to the hexadecimal range starting at %q: other characters are accepted as digits", exprStr(ps.call), ps.base))
		if which != "" {
			found[which] = true
			r.Check(ps.plus == (which != "digits"), ps.call, name+" converts with the matching base", exprStr(ps.call), "the digit value is not computed from the same range's base character (letters are 10 + offset): "+exprStr(ps.call))
		}
	}
	// stores into the UUID: only while fewer than 32 digits were consumed
	var counter *ast.Ident
	ast.Inspect(rng.Body, func(x ast.Node) bool {
		as, ok := x.(*ast.AssignStmt)
		if !ok || len(as.Lhs) != 1 {
			return true
		}
		ix, isIx := ast.Unparen(as.Lhs[0]).(*ast.IndexExpr)
		if !isIx || typeNameOf(info.TypeOf(ix.X)) != "UUID" {
			return true
		}
		var cid *ast.Ident
		ast.Inspect(ix.Index, func(y ast.Node) bool {
			if id, ok := y.(*ast.Ident); ok && cid == nil {
				if _, isVar := info.Uses[id].(*types.Var); isVar {
					cid = id
				}
			}
			return true
		})
		if cid == nil {
			return true
		}
		counter = cid
		f, _ := g.GuardFacts().Before(as)
		if cc, ok := p.enclosing(as, fi.Decl, func(n ast.Node) bool { _, is := n.(*ast.CaseClause); return is }).(*ast.CaseClause); ok && len(cc.List) == 1 {
			if sw, isSw := p.Parent(p.Parent(cc)).(*ast.SwitchStmt); isSw && sw.Tag == nil {
				f = f.clone()
				f.assume(cc.List[0], true)
			}
		}
		d := newDBM(g, f, nil)
		r.Check(d.leExpr(cid, 0, &ast.BasicLit{Kind: token.INT, Value: "31"}, 0), as, "ParseUUID store "+exprStr(as.Lhs[0])+" happens only while "+cid.Name+" < 32", cid.Name+" < 32 known at the store",
			"the store into "+exprStr(as.Lhs[0])+" is not guarded by "+cid.Name+" < 32: a 33rd digit indexes out of range")
		return true
	})
	if nwrite == 0 {
		// a table-driven parser: the digit value is looked up in a package-level constant table indexed by the rune
		if ok, tabFound, why := c19TableDigits(p, r, fi, rng, runeObj); ok {
			nwrite = 1
			for k := range tabFound {
				found[k] = true
			}
		} else if why != "" {
			r.Unresolved("ParseUUID: %s", why)
			nwrite = -1
		}
	}
	if nwrite < 0 {
	} else if nwrite == 0 {
		r.Unresolved("ParseUUID: no conversion of the input rune into a digit value (byte(r - base)) found")
	} else {
		for nme := range ranges {
			if !found[nme] {
				r.Bad(rng, "ParseUUID handles "+nme, "no digit conversion for the "+nme+" hexadecimal range")
			}
		}
	}
	// the hexadecimal ranges are tested on the input rune itself: a comparison with a character constant made
	// on a value derived from the rune by a bit operation (case folding with |0x20, masking) lets other
	// characters pass as digits
	{
		derived := map[types.Object]string{}
		ast.Inspect(rng.Body, func(x ast.Node) bool {
			as, ok := x.(*ast.AssignStmt)
			if !ok || len(as.Lhs) != len(as.Rhs) {
				return true
			}
			for i, l := range as.Lhs {
				id, ok := l.(*ast.Ident)
				if !ok {
					continue
				}
				bitop := false
				mentions := false
				ast.Inspect(as.Rhs[i], func(y ast.Node) bool {
					if b, ok := y.(*ast.BinaryExpr); ok && (b.Op == token.OR || b.Op == token.AND || b.Op == token.XOR || b.Op == token.AND_NOT) {
						bitop = true
					}
					if rid, ok := y.(*ast.Ident); ok && info.Uses[rid] == runeObj {
						mentions = true
					}
					return true
				})
				if bitop && mentions {
					obj := info.Defs[id]
					if obj == nil {
						obj = info.Uses[id]
					}
					if obj != nil {
						derived[obj] = exprStr(as.Rhs[i])
					}
				}
			}
			return true
		})
		// masks of the foldings: c = r | K
		foldMask := map[types.Object]int64{}
		ast.Inspect(rng.Body, func(x ast.Node) bool {
			as, ok := x.(*ast.AssignStmt)
			if !ok || len(as.Lhs) != len(as.Rhs) {
				return true
			}
			for i, l := range as.Lhs {
				id, ok := l.(*ast.Ident)
				if !ok {
					continue
				}
				obj := info.Defs[id]
				if obj == nil {
					obj = info.Uses[id]
				}
				if b, ok := ast.Unparen(as.Rhs[i]).(*ast.BinaryExpr); ok && b.Op == token.OR && obj != nil {
					if rid, ok := ast.Unparen(b.X).(*ast.Ident); ok && info.Uses[rid] == runeObj {
						if k, ok := constInt(info, b.Y); ok {
							foldMask[obj] = k
						}
					}
				}
			}
			return true
		})
		isHex := func(c int64) bool { return c >= '0' && c <= '9' || c >= 'a' && c <= 'f' || c >= 'A' && c <= 'F' }
		// range tests `c >= L && c <= H` on a derived value
		ast.Inspect(rng.Body, func(x ast.Node) bool {
			land, ok := x.(*ast.BinaryExpr)
			if !ok || land.Op != token.LAND {
				return true
			}
			if pb, ok := p.Parent(land).(*ast.BinaryExpr); ok && pb.Op == token.LAND {
				return true // handled at the top of the chain
			}
			var atoms []*ast.BinaryExpr
			var split func(e ast.Expr)
			split = func(e ast.Expr) {
				e = ast.Unparen(e)
				if b, ok := e.(*ast.BinaryExpr); ok {
					if b.Op == token.LAND {
						split(b.X)
						split(b.Y)
						return
					}
					atoms = append(atoms, b)
				}
			}
			split(land)
			bounds := map[types.Object][2]int64{}
			has := map[types.Object][2]bool{}
			for _, a := range atoms {
				id, ok := ast.Unparen(a.X).(*ast.Ident)
				k, isK := constInt(info, a.Y)
				if !ok || !isK {
					continue
				}
				obj := info.Uses[id]
				if _, isDerived := derived[obj]; !isDerived {
					continue
				}
				b, h := bounds[obj], has[obj]
				switch a.Op {
				case token.GEQ:
					b[0], h[0] = k, true
				case token.GTR:
					b[0], h[0] = k+1, true
				case token.LEQ:
					b[1], h[1] = k, true
				case token.LSS:
					b[1], h[1] = k-1, true
				}
				bounds[obj], has[obj] = b, h
			}
			for obj, b := range bounds {
				if !has[obj][0] || !has[obj][1] {
					continue
				}
				mask, isFold := foldMask[obj]
				if !isFold {
					r.Unresolved("ParseUUID tests the hexadecimal range on %s = %s, a derivation of the rune this rule cannot invert", obj.Name(), derived[obj])
					continue
				}
				// preimage of [lo,hi] under r -> r|mask
				var strays []string
				for v := b[0]; v <= b[1] && v-b[0] < 4096; v++ {
					if v&mask != mask {
						continue
					}
					// every r that differs from v only in bits of the mask
					for sub := mask; ; sub = (sub - 1) & mask {
						rr := v &^ sub
						if !isHex(rr) {
							strays = append(strays, fmt.Sprintf("%#x", rr))
						}
						if sub == 0 {
							break
						}
					}
				}
				r.Check(len(strays) == 0, land, fmt.Sprintf("ParseUUID: range test [%q,%q] on %s = %s accepts only hexadecimal digits", rune(b[0]), rune(b[1]), obj.Name(), derived[obj]), "every rune that folds into the range is a hexadecimal digit",
					fmt.Sprintf("the range test [%q,%q] is made on `%s = %s`; the runes %s also fold into that range and are accepted as hexadecimal digits", rune(b[0]), rune(b[1]), obj.Name(), derived[obj], strings.Join(strays, ", ")))
			}
			return true
		})
	}
	// every conversion of the input rune (or a value derived from it) to a narrower type keeps its value:
	// a rune silently truncated to a byte lets non-ASCII characters pass as digits
	{
		gfacts := g.GuardFacts()
		seq := 0
		inspectNoLit(rng.Body, func(x ast.Node) bool {
			c, ok := x.(*ast.CallExpr)
			if !ok || len(c.Args) != 1 {
				return true
			}
			tv, ok := info.Types[c.Fun]
			if !ok || !tv.IsType() {
				return true
			}
			db, du, ok := p.intWidth(tv.Type)
			if !ok || db >= 32 {
				return true
			}
			mentions := false
			ast.Inspect(c.Args[0], func(y ast.Node) bool {
				if id, ok := y.(*ast.Ident); ok && info.Uses[id] == runeObj {
					mentions = true
				}
				return true
			})
			if !mentions {
				return true
			}
			seq++
			f, _ := gfacts.Before(p.stmtOf(c, fi))
			// the conversion may sit in a case clause whose condition bounds the rune
			if cc, ok := p.enclosing(c, fi.Decl, func(n ast.Node) bool { _, is := n.(*ast.CaseClause); return is }).(*ast.CaseClause); ok && len(cc.List) == 1 {
				f = f.clone()
				f.assume(cc.List[0], true)
			}
			iv, why := p.operandInterval(g, fi, f, c.Args[0])
			acc := typeRange(db, du)
			if !du {
				acc = ival{typeRange(db, false).lo, typeRange(db, true).hi}
			}
			r.Check(iv.lo != nil && iv.within(acc), c, fmt.Sprintf("ParseUUID: %s keeps the rune's value #%d", exprStr(c), seq), "operand in "+iv.String()+" ("+why+")",
				fmt.Sprintf("the input rune is narrowed by %s while it can be anywhere in %s (%s): a non-ASCII character whose low byte is a hexadecimal digit is accepted as that digit", exprStr(c), iv.String(), why))
			return true
		})
	}
	// final length check
	facts := g.GuardFacts()
	okFinal := false
	for _, e := range g.Exits() {
		// the success return: the error result (the last one; the only one when the loop lives in a helper that
		// fills a destination it is handed) is nil
		rs, ok := e.Node.(*ast.ReturnStmt)
		if !ok || len(rs.Results) == 0 || !isNil(info, rs.Results[len(rs.Results)-1]) {
			continue
		}
		f, _ := facts.Before(rs)
		if counter != nil {
			d := newDBM(g, f, nil)
			k32 := &ast.BasicLit{Kind: token.INT, Value: "32"}
			if d.leExpr(counter, 0, k32, 0) && d.leExpr(k32, 0, counter, 0) {
				okFinal = true
			}
		}
	}
	r.Check(okFinal, fi.Decl, "ParseUUID accepts only exactly 32 digits", "success return dominated by <digit count> == 32", "a string with fewer than 32 hexadecimal digits is accepted")
	// default case rejects
	rej := false
	ast.Inspect(rng.Body, func(x ast.Node) bool {
		if cc, ok := x.(*ast.CaseClause); ok && cc.List == nil && clauseRejects(p, info, cc) {
			rej = true
		}
		return true
	})
	hasDefault := false
	ast.Inspect(rng.Body, func(x ast.Node) bool {
		if cc, ok := x.(*ast.CaseClause); ok && cc.List == nil {
			hasDefault = true
		}
		return true
	})
	if nwrite > 0 && hasDefault {
		r.Check(rej, rng, "ParseUUID rejects every other character", "default returns an error", "characters that are neither hexadecimal digits nor separators are not rejected")
	}
}

func c19r4(p *Program, r *Report) {
	obj := p.Root.Types.Scope().Lookup("clockSeq")
	if obj == nil {
		r.Unresolved("package variable clockSeq not found")
		return
	}
	n := 0
	for _, f := range p.Root.Syntax {
		ast.Inspect(f, func(x ast.Node) bool {
			fd, ok := x.(*ast.FuncDecl)
			if !ok || fd.Body == nil {
				return true
			}
			if fd.Name.Name == "init" && fd.Recv == nil {
				return false
			}
			info := p.Root.TypesInfo
			ast.Inspect(fd.Body, func(m ast.Node) bool {
				id, ok := m.(*ast.Ident)
				if !ok || info.Uses[id] != obj {
					return true
				}
				n++
				okAtomic := false
				if u, ok := p.Parent(id).(*ast.UnaryExpr); ok && u.Op == token.AND {
					if c, ok := p.Parent(u).(*ast.CallExpr); ok && strings.HasPrefix(calleeName(info, c), "atomic.") {
						okAtomic = true
					}
				}
				r.Check(okAtomic, id, fd.Name.Name+" accesses clockSeq", "through sync/atomic", "the process-wide clock sequence is read or written without sync/atomic: concurrent generators can obtain the same value")
				return true
			})
			return false
		})
	}
	if n == 0 {
		r.Unresolved("clockSeq is never used outside init")
	}
	// every generated UUID consumes a fresh sequence value: the clock argument of TimeUUIDWith in UUIDFromTime is,
	// on every path, the result of an atomic increment of clockSeq (a value merely loaded is shared with every
	// other UUID generated for the same timestamp)
	if fi := r.NeedFunc("UUIDFromTime"); fi != nil {
		info := fi.Pkg.TypesInfo
		var isIncD func(e ast.Expr, depth int) bool
		isIncD = func(e ast.Expr, depth int) bool {
			c, ok := ast.Unparen(e).(*ast.CallExpr)
			if !ok {
				return false
			}
			if calleeName(info, c) != "atomic.AddUint32" || len(c.Args) != 2 {
				// a helper every return of which is such an increment
				if fn := calleeOf(info, c); fn != nil && depth < 2 {
					if h := p.FuncOf(fn); h != nil && h.Pkg == p.Root && h.Decl.Body != nil {
						nret, all := 0, true
						for _, ex := range p.GraphOf(h).Exits() {
							rs, isR := ex.Node.(*ast.ReturnStmt)
							if ex.Kind == ExitPanic {
								continue
							}
							nret++
							if !isR || len(rs.Results) != 1 || !isIncD(rs.Results[0], depth+1) {
								all = false
							}
						}
						return nret > 0 && all
					}
				}
				return false
			}
			u, ok := c.Args[0].(*ast.UnaryExpr)
			if !ok || u.Op != token.AND {
				return false
			}
			id, ok := u.X.(*ast.Ident)
			k, isK := constInt(info, c.Args[1])
			return ok && info.Uses[id] == obj && isK && k > 0
		}
		isInc := func(e ast.Expr) bool { return isIncD(e, 0) }
		found := false
		for _, c := range callsIn(fi.Decl.Body) {
			if !isCallTo(info, c, "TimeUUIDWith") || len(c.Args) != 3 {
				continue
			}
			found = true
			arg := ast.Unparen(c.Args[1])
			okAll := isInc(arg)
			why := exprStr(arg)
			if id, isId := arg.(*ast.Ident); isId {
				okAll = true
				ndef := 0
				ast.Inspect(fi.Decl.Body, func(x ast.Node) bool {
					if as, ok := x.(*ast.AssignStmt); ok && len(as.Lhs) == len(as.Rhs) {
						for i, l := range as.Lhs {
							if lid, ok := l.(*ast.Ident); ok && (info.Defs[lid] == info.Uses[id] || info.Uses[lid] == info.Uses[id]) {
								ndef++
								if !isInc(as.Rhs[i]) {
									okAll = false
									why = exprStr(as.Rhs[i])
								}
							}
						}
					}
					return true
				})
				if ndef == 0 {
					okAll = false
				}
			}
			r.Check(okAll, c, "UUIDFromTime: every UUID takes a freshly incremented clock sequence", "atomic.AddUint32(&clockSeq, 1) on every path", "on some path the clock sequence used is `"+why+"`, not the result of an atomic increment: two UUIDs generated for the same 100ns timestamp (concurrently, or after the clock stepped back) are identical")
		}
		if !found {
			r.Unresolved("UUIDFromTime does not call TimeUUIDWith")
		}
	}
}

func c19r5(p *Program, r *Report) {
	fi := r.NeedFunc("UUIDFromTime")
	if fi == nil {
		return
	}
	info := fi.Pkg.TypesInfo
	isAtomicAdd := func(inf *types.Info, e ast.Expr) bool {
		c, ok := ast.Unparen(e).(*ast.CallExpr)
		if !ok || calleeName(inf, c) != "atomic.AddUint32" || len(c.Args) != 2 {
			return false
		}
		if !strings.HasSuffix(exprStr(c.Args[0]), "clockSeq") {
			return false
		}
		k, isC := constInt(inf, c.Args[1])
		return isC && k != 0
	}
	var clockArg ast.Expr
	ast.Inspect(fi.Decl.Body, func(x ast.Node) bool {
		if c, ok := x.(*ast.CallExpr); ok && isCallTo(info, c, "TimeUUIDWith") && len(c.Args) == 3 {
			clockArg = c.Args[1]
		}
		return true
	})
	if clockArg == nil {
		r.Unresolved("UUIDFromTime does not call TimeUUIDWith")
		return
	}
	src := clockArg
	if id, ok := ast.Unparen(clockArg).(*ast.Ident); ok {
		if def := localDef(info, fi, id); def != nil {
			src = def
		}
	}
	ok := isAtomicAdd(info, src)
	why := exprStr(src)
	if !ok {
		// one level: a helper all of whose returns are atomic adds
		if c, isCall := ast.Unparen(src).(*ast.CallExpr); isCall {
			if fn := calleeOf(info, c); fn != nil {
				if h := p.FuncOf(fn); h != nil {
					ok = true
					hinfo := h.Pkg.TypesInfo
					for _, e := range p.GraphOf(h).Exits() {
						rs, isR := e.Node.(*ast.ReturnStmt)
						if !isR || len(rs.Results) != 1 || !isAtomicAdd(hinfo, rs.Results[0]) {
							ok = false
							if isR && len(rs.Results) == 1 {
								why = h.Name + " returns " + exprStr(rs.Results[0])
							}
						}
					}
				}
			}
		}
	}
	r.Check(ok, clockArg, "UUIDFromTime takes its clock value from one atomic add on clockSeq", "atomic.AddUint32(&clockSeq, 1)",
		"the clock sequence of a generated time-UUID is "+why+", not the result of a single atomic add: two generators in the same 100ns tick can read the same value and produce identical UUIDs")
}

// c19r6: the 60-bit UUID timestamp covers 1582..5236; time.Time.UnixNano is only defined for 1678..2262 and wraps
// silently outside. getTimestamp must therefore combine Unix() seconds (minus the 1582 base) times 10^7 with
// Nanosecond()/100.
func c19r6(p *Program, r *Report) {
	fi := r.NeedFunc("getTimestamp")
	if fi == nil {
		return
	}
	units := append([]*FuncInfo{fi}, p.privateCallees(fi)...)
	okForm, usesNano := false, false
	var where ast.Node = fi.Decl
	for _, u := range units {
		info := u.Pkg.TypesInfo
		ast.Inspect(u.Decl.Body, func(x ast.Node) bool {
			switch e := x.(type) {
			case *ast.CallExpr:
				if calleeName(info, e) == "time.(Time).UnixNano" {
					usesNano, where = true, e
				}
			case *ast.BinaryExpr:
				if e.Op == token.ADD && isTimeUnits(info, e, 10000000, 100) {
					okForm = true
				}
				if e.Op == token.ADD && !okForm {
					if ex, isB := ast.Unparen(p.expandLocalsAny(u, e, 0)).(*ast.BinaryExpr); isB && isTimeUnits(info, ex, 10000000, 100) {
						okForm = true
					}
				}
			}
			return true
		})
	}
	switch {
	case usesNano:
		r.Bad(where, "getTimestamp counts ticks from seconds and nanoseconds", "the tick count is derived from UnixNano(), which is undefined (wraps) for instants before 1678 or after 2262: time-UUIDs and Min/MaxTimeUUID for such instants carry another time, although the UUID timestamp can represent 1582..5236")
	case okForm:
		r.OK(fi.Decl, "getTimestamp counts ticks from seconds and nanoseconds", "(Unix() - base)*1e7 + Nanosecond()/100")
	default:
		r.Unresolved("getTimestamp: no recognised (Unix()-base)*10^7 + Nanosecond()/100 computation")
	}
}

// isTimeUnits: e is <t>.Unix() [- base] times mulK plus <t>.Nanosecond() divided by divK (conversions anywhere).
func isTimeUnits(info *types.Info, e ast.Expr, mulK, divK int64) bool {
	b, ok := ast.Unparen(stripAllConv(info, e)).(*ast.BinaryExpr)
	if !ok || b.Op != token.ADD {
		return false
	}
	isK := func(y ast.Expr, k int64) bool {
		v, ok := constInt(info, ast.Unparen(stripAllConv(info, ast.Unparen(y))))
		return ok && v == k
	}
	hasCall := func(y ast.Expr, method string) bool {
		y = ast.Unparen(stripAllConv(info, ast.Unparen(y)))
		if sub, isSub := y.(*ast.BinaryExpr); isSub && sub.Op == token.SUB {
			y = ast.Unparen(stripAllConv(info, ast.Unparen(sub.X)))
		}
		c, ok := y.(*ast.CallExpr)
		return ok && calleeName(info, c) == "time.(Time)."+method
	}
	secs := func(x ast.Expr) bool {
		be, ok := ast.Unparen(stripAllConv(info, ast.Unparen(x))).(*ast.BinaryExpr)
		return ok && be.Op == token.MUL && (hasCall(be.X, "Unix") && isK(be.Y, mulK) || hasCall(be.Y, "Unix") && isK(be.X, mulK))
	}
	nanos := func(x ast.Expr) bool {
		be, ok := ast.Unparen(stripAllConv(info, ast.Unparen(x))).(*ast.BinaryExpr)
		return ok && be.Op == token.QUO && hasCall(be.X, "Nanosecond") && isK(be.Y, divK)
	}
	return secs(b.X) && nanos(b.Y) || secs(b.Y) && nanos(b.X)
}

// c19r7: Cassandra orders time-UUIDs of one instant by the 8 low bytes compared as signed bytes. With the variant
// bits forced to 10, byte 8 ranges over 0x80..0xbf (lowest 0x80, highest 0xbf) and bytes 9..15 over 0x80 (lowest) ..
// 0x7f (highest). MinTimeUUID / MaxTimeUUID therefore pass clock and node values that produce exactly those bytes.
func c19r7(p *Program, r *Report) {
	for _, w := range []struct {
		fn          string
		b8, b9, nod int64
	}{{"MinTimeUUID", 0x80, 0x80, 0x80}, {"MaxTimeUUID", 0xbf, 0x7f, 0x7f}} {
		fi := r.NeedFunc(w.fn)
		if fi == nil {
			continue
		}
		info := fi.Pkg.TypesInfo
		var call *ast.CallExpr
		for _, c := range callsIn(fi.Decl.Body) {
			if isCallTo(info, c, "TimeUUIDWith") && len(c.Args) == 3 {
				call = c
			}
		}
		if call == nil {
			r.Unresolved("%s does not call TimeUUIDWith", w.fn)
			continue
		}
		clk, isK := constInt(info, call.Args[1])
		got8, got9 := (clk>>8)&0x3f|0x80, clk&0xff
		r.Check(isK && got8 == w.b8 && got9 == w.b9, call, w.fn+" clock bytes are the extreme ones under signed byte order", fmt.Sprintf("clock %#x -> bytes %#x %#x", clk, got8, got9),
			fmt.Sprintf("the clock sequence %s gives bytes 8,9 = %#x %#x after the variant bits; the %s under Cassandra's signed byte comparison is %#x %#x: version-1 UUIDs of the same instant sort outside the bound", exprStr(call.Args[1]), got8, got9, ifs(w.fn == "MinTimeUUID", "smallest", "largest"), w.b8, w.b9))
		// the node: a package variable with a literal of six equal bytes, never written
		okNode, why := false, exprStr(call.Args[2])
		if id, isId := ast.Unparen(call.Args[2]).(*ast.Ident); isId {
			if v, isVar := info.Uses[id].(*types.Var); isVar && v.Parent() == v.Pkg().Scope() {
				var lit *ast.CompositeLit
				written := false
				for _, f := range fi.Pkg.Syntax {
					ast.Inspect(f, func(x ast.Node) bool {
						switch y := x.(type) {
						case *ast.ValueSpec:
							for i, nm := range y.Names {
								if info.Defs[nm] == types.Object(v) && i < len(y.Values) {
									lit, _ = ast.Unparen(y.Values[i]).(*ast.CompositeLit)
								}
							}
						case *ast.AssignStmt:
							for _, l := range y.Lhs {
								if rt := rootIdent(l); rt != nil && info.Uses[rt] == types.Object(v) {
									written = true
								}
							}
						}
						return true
					})
				}
				if lit != nil && !written && len(lit.Elts) == 6 {
					okNode = true
					for _, el := range lit.Elts {
						if k, isC := constInt(info, el); !isC || k != w.nod {
							okNode = false
						}
					}
					why = exprStr(lit)
				}
			}
		}
		r.Check(okNode, call, w.fn+" node bytes are the extreme ones under signed byte order", why,
			fmt.Sprintf("the node handed to TimeUUIDWith (%s) is not six bytes of %#x: version-1 UUIDs of the same instant sort outside the bound", why, w.nod))
	}
}

// c19r8: the reverse of getTimestamp. time.Unix(sec, nsec) must be given the ticks divided by 10^7 (plus the 1582
// base) as seconds and (ticks mod 10^7)*100 as nanoseconds. A single nanosecond count (ticks*100) does not fit an
// int64 for instants outside 1678..2262.
func c19r8(p *Program, r *Report) {
	fi := r.NeedFunc("(UUID).Time")
	if fi == nil {
		return
	}
	n := 0
	top := fi
	for _, fi := range p.unitsOf(top) {
		info := fi.Pkg.TypesInfo
		for _, c := range callsIn(fi.Decl.Body) {
			if calleeName(info, c) != "time.Unix" || len(c.Args) != 2 {
				continue
			}
			n++
			sec := foldStr(info, p.expandLocalsAny(fi, c.Args[0], 0))
			nsec := foldStr(info, p.expandLocalsAny(fi, c.Args[1], 0))
			hasDiv := func(s string) bool { return strings.Contains(s, "/1e7") || strings.Contains(s, "/10000000") }
			hasRem := func(s string) bool { return strings.Contains(s, "%1e7") || strings.Contains(s, "%10000000") }
			okSplit := hasDiv(sec) && hasRem(nsec) && (strings.Contains(exprStr(p.expandLocalsAny(fi, c.Args[0], 0)), "timeBase") || strings.Contains(sec, "12219292800"))
			r.Check(okSplit, c, "(UUID).Time builds the time from seconds and a sub-second remainder", "time.Unix(t/1e7 + timeBase, (t%1e7)*100)",
				"the time is built as time.Unix("+sec+", "+nsec+"): without the split into seconds (ticks / 10^7) and remainder (ticks mod 10^7) the nanosecond value overflows int64 for instants before 1678 or after 2262, so such time-UUIDs return a wrong time")
		}
	}
	if n == 0 {
		r.Unresolved("(UUID).Time does not call time.Unix")
	}
}
