package main

import (
	"fmt"
	"go/ast"
	"go/constant"
	"go/token"
	"go/types"
	"sort"
	"strings"
)

// Term-level abstract interpretation of small integer functions (hash mixing, byte folding).
//
// The domain is "constant or term": an integer is either a known constant of its Go type or a canonical term
// over named symbols (input bytes, the state before a loop, the input length). Control flow must be decidable
// from constants (switches with fallthrough, counted loops with constant bounds are unrolled); a loop whose
// bound is symbolic is summarised by interpreting its body once on fresh symbols for everything it assigns.
// Helpers of the same module are inlined. Terms are kept in a normal form (associative-commutative operators
// flattened, sorted and constant-folded, shift pairs recognised as rotations, conversions reduced to
// sign/zero extensions), so that two spellings of the same computation - inline or through helpers, as a
// fallthrough table or as a loop - produce the same term. No code of the repository is executed.

type term struct {
	op   string // "const", "sym", "xor", "add", "mul", "or", "and", "shl", "lshr", "ashr", "rotl", "sext", "zext", "trunc", "sub", "neg", "not", "div", "idx", ...
	k    uint64 // const value (64-bit two's complement), or width parameter for sext/zext/trunc
	name string // sym
	args []*term
	str  string
}

func tConst(k uint64) *term  { return &term{op: "const", k: k} }
func tSym(name string) *term { return &term{op: "sym", name: name} }

func (t *term) isConst() bool { return t.op == "const" }

func (t *term) String() string {
	if t.str != "" {
		return t.str
	}
	switch t.op {
	case "const":
		t.str = fmt.Sprintf("0x%x", t.k)
	case "sym":
		t.str = t.name
	case "sext", "zext", "trunc":
		t.str = fmt.Sprintf("%s%d(%s)", t.op, t.k, t.args[0])
	default:
		var a []string
		for _, x := range t.args {
			a = append(a, x.String())
		}
		t.str = t.op + "(" + strings.Join(a, ",") + ")"
	}
	return t.str
}

var acOps = map[string]bool{"xor": true, "add": true, "mul": true, "or": true, "and": true}

// mk builds a 64-bit term in normal form.
func mk(op string, args ...*term) *term {
	if acOps[op] {
		var flat []*term
		for _, a := range args {
			if a.op == op {
				flat = append(flat, a.args...)
			} else {
				flat = append(flat, a)
			}
		}
		var acc uint64
		switch op {
		case "mul":
			acc = 1
		case "and":
			acc = ^uint64(0)
		}
		var rest []*term
		for _, a := range flat {
			if a.isConst() {
				switch op {
				case "xor":
					acc ^= a.k
				case "add":
					acc += a.k
				case "mul":
					acc *= a.k
				case "or":
					acc |= a.k
				case "and":
					acc &= a.k
				}
			} else {
				rest = append(rest, a)
			}
		}
		if op == "xor" {
			// x ^ x = 0
			cnt := map[string]int{}
			for _, a := range rest {
				cnt[a.String()]++
			}
			var r2 []*term
			seen := map[string]bool{}
			for _, a := range rest {
				s := a.String()
				if cnt[s]%2 == 1 && !seen[s] {
					r2 = append(r2, a)
				}
				seen[s] = true
			}
			rest = r2
		}
		if op == "mul" && acc == 0 || op == "and" && acc == 0 {
			return tConst(0)
		}
		identity := map[string]uint64{"xor": 0, "add": 0, "or": 0, "mul": 1, "and": ^uint64(0)}[op]
		if len(rest) == 0 {
			return tConst(acc)
		}
		sort.Slice(rest, func(i, j int) bool { return rest[i].String() < rest[j].String() })
		if acc != identity {
			rest = append(rest, tConst(acc))
		}
		if len(rest) == 1 {
			return rest[0]
		}
		if op == "or" && len(rest) == 2 {
			// (x << a) | (x >>> (64-a))  ==  rotl(x, a)
			for i := 0; i < 2; i++ {
				l, r := rest[i], rest[1-i]
				if r.op == "lshr" && r.args[1].isConst() && r.args[1].k > 0 && r.args[1].k < 64 {
					if a := 64 - r.args[1].k; mk("shl", r.args[0], tConst(a)).String() == l.String() {
						return mk("rotl", r.args[0], tConst(a))
					}
				}
			}
		}
		return &term{op: op, args: rest}
	}
	switch op {
	case "sub":
		return mk("add", args[0], mk("neg", args[1]))
	case "neg":
		if args[0].isConst() {
			return tConst(-args[0].k)
		}
		return mk("mul", args[0], tConst(^uint64(0)))
	case "not":
		return mk("xor", args[0], tConst(^uint64(0)))
	case "shl", "lshr", "ashr", "rotl":
		x, s := args[0], args[1]
		if s.isConst() {
			n := s.k
			if op == "rotl" {
				n %= 64
			}
			if n == 0 {
				return x
			}
			if x.isConst() {
				switch op {
				case "shl":
					if n >= 64 {
						return tConst(0)
					}
					return tConst(x.k << n)
				case "lshr":
					if n >= 64 {
						return tConst(0)
					}
					return tConst(x.k >> n)
				case "ashr":
					if n >= 64 {
						n = 63
					}
					return tConst(uint64(int64(x.k) >> n))
				case "rotl":
					return tConst(x.k<<n | x.k>>(64-n))
				}
			}
			if op == "shl" && n >= 64 || op == "lshr" && n >= 64 {
				return tConst(0)
			}
			if op == "shl" {
				// shifts distribute over the bitwise operators and compose
				switch x.op {
				case "xor", "or", "and":
					var parts []*term
					for _, a := range x.args {
						parts = append(parts, mk("shl", a, tConst(n)))
					}
					return mk(x.op, parts...)
				case "shl":
					if x.args[1].isConst() {
						return mk("shl", x.args[0], tConst(n+x.args[1].k))
					}
				}
			}
			return &term{op: op, args: []*term{x, tConst(n)}}
		}
	}
	return &term{op: op, args: args}
}

func mkExt(op string, from int, x *term) *term {
	if x.isConst() {
		switch op {
		case "zext", "trunc":
			if from >= 64 {
				return x
			}
			return tConst(x.k & (1<<uint(from) - 1))
		case "sext":
			if from >= 64 {
				return x
			}
			sh := uint(64 - from)
			return tConst(uint64(int64(x.k<<sh) >> sh))
		}
	}
	// extension of a value that is already an extension from a narrower width
	if (op == "sext" || op == "zext") && (x.op == "zext") && int(x.k) < from {
		return x
	}
	if op == "sext" && x.op == "sext" && int(x.k) <= from {
		return x
	}
	return &term{op: op, k: uint64(from), args: []*term{x}}
}

// sval is an abstract value.
type sval struct {
	kind  byte // 'i' integer, 'b' bool, 's' slice, 'u' unknown
	t     *term
	typ   types.Type
	b     bool
	bk    bool   // bool known
	base  string // slice: symbolic base
	off   *term  // slice: offset into base
	slen  *term  // slice: length (nil unknown)
	elems int
	arr   *arrVal // array ('a'), pointer to array ('p'), or slice of an array ('s' with aoff)
	aoff  int
	tail  []sval // slice ('s'): the elements appended (by append) to an otherwise unknown prefix
}

// arrVal is a fixed-size array of abstract integers, shared by pointers to it.
type arrVal struct {
	elems []sval
	elemT types.Type
}

func (a *arrVal) clone() *arrVal {
	n := &arrVal{elems: append([]sval{}, a.elems...), elemT: a.elemT}
	return n
}

type symEval struct {
	p      *Program
	env    map[types.Object]sval
	attrs  map[string]map[uint64]uint64 // symbol -> mask -> value of sym&mask
	fresh  int
	unsup  []string
	loops  []*symLoop
	depth  int
	intBit int
	opaque map[string]bool // callees kept as uninterpreted functions
	steps  int
	errNil bool // error results of opaque calls are taken to be nil (the success path is interpreted)
	// onIndex, when set, is told about every evaluation of an index expression: the index value and the length of
	// the indexed array / slice when it is a constant of this evaluation (n < 0: unknown)
	onIndex func(ix *ast.IndexExpr, idx sval, n int)
	tables  map[*types.Var]map[uint64]uint64 // constant lookup tables read so far
}

// constTableLookup evaluates table[key] for a package-level map / array / slice variable of the module that is
// initialised with a composite literal of integer constants and never written, and a key that is a constant of this
// evaluation: the element (the zero value when the key is absent) and whether the key is present.
func (se *symEval) constTableLookup(fi *FuncInfo, ix *ast.IndexExpr) (sval, bool, bool) {
	info := fi.Pkg.TypesInfo
	id, ok := ast.Unparen(ix.X).(*ast.Ident)
	if !ok {
		return sval{}, false, false
	}
	tv, ok := info.Uses[id].(*types.Var)
	if !ok || tv.Pkg() == nil || tv.Parent() != tv.Pkg().Scope() {
		return sval{}, false, false
	}
	var elemT types.Type
	switch u := tv.Type().Underlying().(type) {
	case *types.Map:
		elemT = u.Elem()
	case *types.Array:
		elemT = u.Elem()
	case *types.Slice:
		elemT = u.Elem()
	default:
		return sval{}, false, false
	}
	if _, _, isInt := se.width(elemT); !isInt {
		return sval{}, false, false
	}
	tab := se.constTable(tv)
	if tab == nil {
		return sval{}, false, false
	}
	key := se.eval(fi, ix.Index)
	if key.kind != 'i' || !key.t.isConst() {
		return sval{}, false, false
	}
	if se.onIndex != nil {
		if at, isArr := tv.Type().Underlying().(*types.Array); isArr {
			se.onIndex(ix, key, int(at.Len()))
		}
	}
	v, present := tab[key.t.k]
	return se.intVal(tConst(v), elemT), present, true
}

// constTable: the contents of a package-level map / array / slice variable of the module that is initialised with a
// composite literal of integer constants and never written (nil otherwise).
func (se *symEval) constTable(tv *types.Var) map[uint64]uint64 {
	if se.tables == nil {
		se.tables = map[*types.Var]map[uint64]uint64{}
	}
	tab, have := se.tables[tv]
	if !have {
		se.tables[tv] = nil
		var lit *ast.CompositeLit
		var linfo *types.Info
		written := false
		for _, pkg := range se.p.Pkgs {
			if pkg.Types != tv.Pkg() {
				continue
			}
			for _, f := range pkg.Syntax {
				ast.Inspect(f, func(x ast.Node) bool {
					switch y := x.(type) {
					case *ast.ValueSpec:
						for i, nm := range y.Names {
							if pkg.TypesInfo.Defs[nm] == types.Object(tv) && i < len(y.Values) {
								lit, _ = ast.Unparen(y.Values[i]).(*ast.CompositeLit)
								linfo = pkg.TypesInfo
							}
						}
					case *ast.AssignStmt:
						for _, l := range y.Lhs {
							if rid := rootIdent(l); rid != nil && pkg.TypesInfo.Uses[rid] == types.Object(tv) {
								written = true
							}
						}
					case *ast.IncDecStmt:
						if rid := rootIdent(y.X); rid != nil && pkg.TypesInfo.Uses[rid] == types.Object(tv) {
							written = true
						}
					case *ast.UnaryExpr:
						if rid := rootIdent(y.X); y.Op == token.AND && rid != nil && pkg.TypesInfo.Uses[rid] == types.Object(tv) {
							written = true
						}
					case *ast.CallExpr:
						if exprStr(y.Fun) == "delete" && len(y.Args) == 2 {
							if rid := rootIdent(y.Args[0]); rid != nil && pkg.TypesInfo.Uses[rid] == types.Object(tv) {
								written = true
							}
						}
					}
					return true
				})
			}
		}
		if lit != nil && !written {
			m := map[uint64]uint64{}
			next := uint64(0)
			okAll := true
			for _, el := range lit.Elts {
				val := el
				if kv, isKV := el.(*ast.KeyValueExpr); isKV {
					k, isK := constInt(linfo, kv.Key)
					if !isK {
						okAll = false
						break
					}
					next, val = uint64(k), kv.Value
				}
				v, isV := constInt(linfo, val)
				if !isV {
					if u, isU := constUint(linfo, val); isU {
						v, isV = int64(u), true
					}
				}
				if !isV {
					okAll = false
					break
				}
				m[next] = uint64(v)
				next++
			}
			if okAll {
				se.tables[tv] = m
				tab = m
			}
		}
	}
	return tab
}

// seqLen: the number of elements of an array / array-backed slice / slice with a constant length; -1 if unknown.
func (se *symEval) seqLen(v sval) int {
	switch {
	case v.arr != nil:
		return len(v.arr.elems) - v.aoff
	case v.kind == 's' && v.slen != nil:
		if sl := se.residue(v.slen); sl.isConst() {
			return int(sl.k)
		}
	}
	return -1
}

type symLoop struct {
	pos  token.Pos
	init map[string]*term // variable name -> value before the loop
	pre  map[string]*term // variable name -> symbol it had at the top of the summarised iteration
	post map[string]*term // variable name -> term after one iteration
	cond string           // the loop condition over the pre-symbols
}

type flow int

const (
	flNormal flow = iota
	flReturn
	flBreak
	flContinue
	flFallthrough
)

func newSymEval(p *Program) *symEval {
	ib := 64
	if p.Variant.GOARCH == "386" || p.Variant.GOARCH == "arm" {
		ib = 32
	}
	return &symEval{p: p, env: map[types.Object]sval{}, attrs: map[string]map[uint64]uint64{}, intBit: ib, opaque: map[string]bool{}}
}

func (se *symEval) fail(n ast.Node, what string) {
	if len(se.unsup) < 8 {
		se.unsup = append(se.unsup, se.p.Pos(n)+": "+what)
	}
}

func (se *symEval) width(t types.Type) (bits int, unsigned bool, ok bool) {
	b, isB := t.Underlying().(*types.Basic)
	if !isB || b.Info()&types.IsInteger == 0 {
		return 0, false, false
	}
	switch b.Kind() {
	case types.Int8:
		return 8, false, true
	case types.Int16:
		return 16, false, true
	case types.Int32:
		return 32, false, true
	case types.Int64:
		return 64, false, true
	case types.Int, types.UntypedInt, types.UntypedRune:
		return se.intBit, false, true
	case types.Uint8:
		return 8, true, true
	case types.Uint16:
		return 16, true, true
	case types.Uint32:
		return 32, true, true
	case types.Uint64:
		return 64, true, true
	case types.Uint, types.Uintptr:
		return se.intBit, true, true
	}
	return 0, false, false
}

// norm re-establishes the representation invariant: a value of a w-bit type is held sign- or zero-extended to 64.
func (se *symEval) norm(t *term, typ types.Type) *term {
	bits, uns, ok := se.width(typ)
	if !ok || bits >= 64 {
		return t
	}
	if t.isConst() {
		if uns {
			return mkExt("zext", bits, t)
		}
		return mkExt("sext", bits, t)
	}
	// symbolic narrow values: already extended values stay as they are
	if (t.op == "sext" || t.op == "zext") && int(t.k) <= bits {
		if t.op == "zext" && !uns && int(t.k) == bits {
			return mkExt("sext", bits, t.args[0])
		}
		if t.op == "sext" && uns && int(t.k) == bits {
			return mkExt("zext", bits, t.args[0])
		}
		return t
	}
	if t.op == "sym" && strings.HasPrefix(t.name, "byte:") && bits == 8 {
		if uns {
			return t
		}
		return mkExt("sext", 8, t)
	}
	if uns {
		return mkExt("zext", bits, t)
	}
	return mkExt("sext", bits, t)
}

func (se *symEval) intVal(t *term, typ types.Type) sval {
	return sval{kind: 'i', t: se.norm(t, typ), typ: typ}
}

func (se *symEval) newSym(name string) *term {
	se.fresh++
	return tSym(name)
}

// evalFunc interprets fi with the given argument values; returns the values of its results.
func (se *symEval) evalFunc(fi *FuncInfo, args []sval) ([]sval, bool) {
	if fi.Decl.Body == nil || se.depth > 6 {
		return nil, false
	}
	info := fi.Pkg.TypesInfo
	k := 0
	for _, pf := range fi.Decl.Type.Params.List {
		for _, pn := range pf.Names {
			if k < len(args) {
				se.env[info.Defs[pn]] = args[k]
			}
			k++
		}
	}
	var resObjs []types.Object
	if fi.Decl.Type.Results != nil {
		for _, rf := range fi.Decl.Type.Results.List {
			for _, rn := range rf.Names {
				obj := info.Defs[rn]
				resObjs = append(resObjs, obj)
				se.env[obj] = se.zero(obj.Type())
			}
		}
	}
	se.depth++
	defer func() { se.depth-- }()
	fl, rets := se.execBlock(fi, fi.Decl.Body.List)
	if fl != flReturn {
		if fi.Decl.Type.Results == nil || len(fi.Decl.Type.Results.List) == 0 {
			return nil, true
		}
		se.fail(fi.Decl, "function end reached without return")
		return nil, false
	}
	if rets == nil && len(resObjs) > 0 {
		for _, o := range resObjs {
			rets = append(rets, se.env[o])
		}
	}
	return rets, true
}

func (se *symEval) zero(t types.Type) sval {
	if _, _, ok := se.width(t); ok {
		return se.intVal(tConst(0), t)
	}
	if at, ok := t.Underlying().(*types.Array); ok && at.Len() <= 256 {
		if _, _, isInt := se.width(at.Elem()); isInt {
			a := &arrVal{elemT: at.Elem()}
			for i := int64(0); i < at.Len(); i++ {
				a.elems = append(a.elems, se.intVal(tConst(0), at.Elem()))
			}
			return sval{kind: 'a', arr: a, typ: t}
		}
	}
	if b, ok := t.Underlying().(*types.Basic); ok && b.Info()&types.IsBoolean != 0 {
		return sval{kind: 'b', bk: true}
	}
	return sval{kind: 'u'}
}

func (se *symEval) execBlock(fi *FuncInfo, list []ast.Stmt) (flow, []sval) {
	for _, s := range list {
		fl, rets := se.execStmt(fi, s)
		if fl != flNormal {
			return fl, rets
		}
		if len(se.unsup) > 0 {
			return flReturn, nil
		}
	}
	return flNormal, nil
}

func (se *symEval) assignTo(fi *FuncInfo, lhs ast.Expr, v sval) {
	info := fi.Pkg.TypesInfo
	if ix, isIx := ast.Unparen(lhs).(*ast.IndexExpr); isIx {
		base := se.eval(fi, ix.X)
		idx := se.eval(fi, ix.Index)
		if se.onIndex != nil {
			se.onIndex(ix, idx, se.seqLen(base))
		}
		if base.arr != nil && idx.kind == 'i' && idx.t.isConst() && v.kind == 'i' {
			k := int(idx.t.k) + base.aoff
			if k >= 0 && k < len(base.arr.elems) {
				base.arr.elems[k] = se.intVal(v.t, base.arr.elemT)
				return
			}
		}
		se.fail(lhs, "store to "+exprStr(lhs)+" is not supported (array element at a constant index expected)")
		return
	}
	id, ok := ast.Unparen(lhs).(*ast.Ident)
	if !ok {
		se.fail(lhs, "assignment to "+exprStr(lhs)+" is not supported")
		return
	}
	if v.kind == 'a' && v.arr != nil {
		v.arr = v.arr.clone() // arrays are values
	}
	if id.Name == "_" {
		return
	}
	obj := info.Defs[id]
	if obj == nil {
		obj = info.Uses[id]
	}
	if obj == nil {
		return
	}
	if v.kind == 'i' {
		v = se.intVal(v.t, obj.Type())
	}
	se.env[obj] = v
}

func (se *symEval) execStmt(fi *FuncInfo, s ast.Stmt) (flow, []sval) {
	info := fi.Pkg.TypesInfo
	se.steps++
	if se.steps > 20000 {
		se.fail(s, "evaluation budget exceeded")
		return flReturn, nil
	}
	switch x := s.(type) {
	case *ast.EmptyStmt:
	case *ast.BlockStmt:
		return se.execBlock(fi, x.List)
	case *ast.DeclStmt:
		gd, ok := x.Decl.(*ast.GenDecl)
		if !ok || gd.Tok == token.CONST || gd.Tok == token.TYPE {
			return flNormal, nil // constants are folded by the type checker wherever they are used
		}
		for _, sp := range gd.Specs {
			vs, ok := sp.(*ast.ValueSpec)
			if !ok {
				continue
			}
			for i, nme := range vs.Names {
				obj := info.Defs[nme]
				if obj == nil {
					continue
				}
				if i < len(vs.Values) {
					v := se.eval(fi, vs.Values[i])
					if v.kind == 'i' {
						v = se.intVal(v.t, obj.Type())
					}
					se.env[obj] = v
				} else {
					se.env[obj] = se.zero(obj.Type())
				}
			}
		}
	case *ast.AssignStmt:
		if x.Tok == token.ASSIGN || x.Tok == token.DEFINE {
			if len(x.Lhs) == len(x.Rhs) {
				vals := make([]sval, len(x.Rhs))
				for i, r := range x.Rhs {
					vals[i] = se.eval(fi, r)
				}
				for i, l := range x.Lhs {
					se.assignTo(fi, l, vals[i])
				}
			} else if len(x.Rhs) == 1 {
				// v, ok := table[k] on a package-level constant table
				if ix, isIx := ast.Unparen(x.Rhs[0]).(*ast.IndexExpr); isIx && len(x.Lhs) == 2 {
					if v, present, okT := se.constTableLookup(fi, ix); okT {
						se.assignTo(fi, x.Lhs[0], v)
						se.assignTo(fi, x.Lhs[1], sval{kind: 'b', b: present, bk: true})
						return flNormal, nil
					}
				}
				c, ok := ast.Unparen(x.Rhs[0]).(*ast.CallExpr)
				if !ok {
					se.fail(x, "multi-value assignment from a non-call")
					return flNormal, nil
				}
				vals := se.call(fi, c)
				if len(vals) != len(x.Lhs) {
					se.fail(x, "call result count mismatch")
					return flNormal, nil
				}
				for i, l := range x.Lhs {
					se.assignTo(fi, l, vals[i])
				}
			}
			return flNormal, nil
		}
		if len(x.Lhs) != 1 || len(x.Rhs) != 1 {
			se.fail(x, "compound assignment form")
			return flNormal, nil
		}
		op, ok := map[token.Token]token.Token{token.ADD_ASSIGN: token.ADD, token.SUB_ASSIGN: token.SUB, token.MUL_ASSIGN: token.MUL, token.XOR_ASSIGN: token.XOR, token.OR_ASSIGN: token.OR, token.AND_ASSIGN: token.AND,
			token.SHL_ASSIGN: token.SHL, token.SHR_ASSIGN: token.SHR, token.QUO_ASSIGN: token.QUO, token.REM_ASSIGN: token.REM, token.AND_NOT_ASSIGN: token.AND_NOT}[x.Tok]
		if !ok {
			se.fail(x, "assignment operator")
			return flNormal, nil
		}
		l := se.eval(fi, x.Lhs[0])
		r := se.eval(fi, x.Rhs[0])
		se.assignTo(fi, x.Lhs[0], se.binop(x, op, l, r, info.TypeOf(x.Lhs[0])))
	case *ast.IncDecStmt:
		l := se.eval(fi, x.X)
		one := se.intVal(tConst(1), info.TypeOf(x.X))
		op := token.ADD
		if x.Tok == token.DEC {
			op = token.SUB
		}
		se.assignTo(fi, x.X, se.binop(x, op, l, one, info.TypeOf(x.X)))
	case *ast.ExprStmt:
		se.eval(fi, x.X)
	case *ast.ReturnStmt:
		if len(x.Results) == 0 {
			return flReturn, nil
		}
		if len(x.Results) == 1 {
			if c, ok := ast.Unparen(x.Results[0]).(*ast.CallExpr); ok {
				if tv, isT := info.Types[c.Fun]; !isT || !tv.IsType() {
					if vals := se.call(fi, c); len(vals) > 1 {
						return flReturn, vals
					} else if len(vals) == 1 {
						return flReturn, vals
					}
				}
			}
		}
		var out []sval
		for _, r := range x.Results {
			out = append(out, se.eval(fi, r))
		}
		return flReturn, out
	case *ast.IfStmt:
		if x.Init != nil {
			if fl, rets := se.execStmt(fi, x.Init); fl != flNormal {
				return fl, rets
			}
		}
		c := se.eval(fi, x.Cond)
		if c.kind != 'b' || !c.bk {
			se.fail(x.Cond, "branch condition "+exprStr(x.Cond)+" is not decided by constants")
			return flNormal, nil
		}
		if c.b {
			return se.execBlock(fi, x.Body.List)
		}
		if x.Else != nil {
			return se.execStmt(fi, x.Else)
		}
	case *ast.SwitchStmt:
		if x.Init != nil {
			if fl, rets := se.execStmt(fi, x.Init); fl != flNormal {
				return fl, rets
			}
		}
		var tag sval
		if x.Tag != nil {
			tag = se.eval(fi, x.Tag)
			if tag.kind != 'i' || !tag.t.isConst() {
				se.fail(x.Tag, "switch tag "+exprStr(x.Tag)+" is not a constant of the abstract state")
				return flNormal, nil
			}
		}
		start := -1
		def := -1
		for i, cl := range x.Body.List {
			cc := cl.(*ast.CaseClause)
			if cc.List == nil {
				def = i
				continue
			}
			for _, e := range cc.List {
				v := se.eval(fi, e)
				if x.Tag != nil {
					if v.kind == 'i' && v.t.isConst() && v.t.k == tag.t.k {
						start = i
					}
				} else if v.kind == 'b' && v.bk {
					if v.b {
						start = i
					}
				} else {
					se.fail(e, "case condition not decided")
					return flNormal, nil
				}
				if start >= 0 {
					break
				}
			}
			if start >= 0 {
				break
			}
		}
		if start < 0 {
			start = def
		}
		if start < 0 {
			return flNormal, nil
		}
		for i := start; i < len(x.Body.List); i++ {
			fl, rets := se.execBlock(fi, x.Body.List[i].(*ast.CaseClause).Body)
			switch fl {
			case flFallthrough:
				continue
			case flBreak, flNormal:
				return flNormal, nil
			default:
				return fl, rets
			}
		}
	case *ast.BranchStmt:
		switch x.Tok {
		case token.BREAK:
			return flBreak, nil
		case token.CONTINUE:
			return flContinue, nil
		case token.FALLTHROUGH:
			return flFallthrough, nil
		}
		se.fail(x, "goto")
	case *ast.ForStmt:
		return se.execFor(fi, x)
	case *ast.RangeStmt:
		return se.execRange(fi, x)
	default:
		se.fail(s, fmt.Sprintf("statement %T", s))
	}
	return flNormal, nil
}

// execRange unrolls a range over a slice (or array) whose length is a constant on this evaluation.
func (se *symEval) execRange(fi *FuncInfo, x *ast.RangeStmt) (flow, []sval) {
	info := fi.Pkg.TypesInfo
	v := se.eval(fi, x.X)
	n := -1
	switch {
	case v.arr != nil:
		n = len(v.arr.elems) - v.aoff
	case v.kind == 's' && v.slen != nil:
		if sl := se.residue(v.slen); sl.isConst() {
			n = int(sl.k)
		}
	}
	if n < 0 || n > 80 {
		se.fail(x, "range loop over a sequence whose length is not a small constant")
		return flNormal, nil
	}
	var elemT types.Type
	if t := info.TypeOf(x.X); t != nil {
		switch u := t.Underlying().(type) {
		case *types.Slice:
			elemT = u.Elem()
		case *types.Array:
			elemT = u.Elem()
		case *types.Pointer:
			if a, ok := u.Elem().Underlying().(*types.Array); ok {
				elemT = a.Elem()
			}
		}
	}
	if elemT == nil {
		se.fail(x, "range loop over "+exprStr(x.X)+" is not supported")
		return flNormal, nil
	}
	for i := 0; i < n; i++ {
		if x.Key != nil {
			se.assignTo(fi, x.Key, sval{kind: 'i', t: tConst(uint64(i)), typ: types.Typ[types.Int]})
		}
		if x.Value != nil {
			var el sval
			if v.arr != nil {
				el = v.arr.elems[v.aoff+i]
			} else {
				off := mk("add", v.off, tConst(uint64(i)))
				el = sval{kind: 'i', t: tSym("byte:" + v.base + "[" + off.String() + "]"), typ: elemT}
			}
			se.assignTo(fi, x.Value, el)
		}
		fl, rets := se.execBlock(fi, x.Body.List)
		switch fl {
		case flBreak:
			return flNormal, nil
		case flReturn:
			return fl, rets
		}
		if len(se.unsup) > 0 {
			return flNormal, nil
		}
	}
	return flNormal, nil
}

func (se *symEval) execFor(fi *FuncInfo, x *ast.ForStmt) (flow, []sval) {
	info := fi.Pkg.TypesInfo
	if x.Init != nil {
		if fl, rets := se.execStmt(fi, x.Init); fl != flNormal {
			return fl, rets
		}
	}
	for iter := 0; iter < 80; iter++ {
		if x.Cond != nil {
			c := se.eval(fi, x.Cond)
			if c.kind != 'b' || !c.bk {
				if iter > 0 {
					se.fail(x.Cond, "loop condition becomes symbolic after unrolling")
					return flNormal, nil
				}
				return se.summariseLoop(fi, x)
			}
			if !c.b {
				return flNormal, nil
			}
		}
		fl, rets := se.execBlock(fi, x.Body.List)
		switch fl {
		case flBreak:
			return flNormal, nil
		case flReturn:
			return fl, rets
		}
		if x.Post != nil {
			se.execStmt(fi, x.Post)
		}
		if len(se.unsup) > 0 {
			return flNormal, nil
		}
	}
	_ = info
	se.fail(x, "loop does not terminate within 80 constant iterations")
	return flNormal, nil
}

// summariseLoop: a loop with a symbolic bound. Everything the loop assigns is replaced by fresh symbols, the
// body (and post statement) is interpreted once, the resulting terms are recorded, and the assigned variables are
// fresh symbols again after the loop.
func (se *symEval) summariseLoop(fi *FuncInfo, x *ast.ForStmt) (flow, []sval) {
	info := fi.Pkg.TypesInfo
	idx := len(se.loops)
	assigned := map[types.Object]bool{}
	collect := func(n ast.Node) {
		ast.Inspect(n, func(m ast.Node) bool {
			switch s := m.(type) {
			case *ast.AssignStmt:
				for _, l := range s.Lhs {
					if id, ok := l.(*ast.Ident); ok {
						if o := info.Uses[id]; o != nil {
							assigned[o] = true
						}
					}
				}
			case *ast.IncDecStmt:
				if id, ok := s.X.(*ast.Ident); ok {
					if o := info.Uses[id]; o != nil {
						assigned[o] = true
					}
				}
			}
			return true
		})
	}
	collect(x.Body)
	if x.Post != nil {
		collect(x.Post)
	}
	lp := &symLoop{pos: x.Pos(), init: map[string]*term{}, pre: map[string]*term{}, post: map[string]*term{}}
	var objs []types.Object
	for o := range assigned {
		objs = append(objs, o)
	}
	sort.Slice(objs, func(i, j int) bool { return objs[i].Name() < objs[j].Name() })
	for _, o := range objs {
		if v, ok := se.env[o]; ok && v.kind == 'i' {
			lp.init[o.Name()] = v.t
		}
		if _, _, isInt := se.width(o.Type()); isInt {
			sym := se.newSym(fmt.Sprintf("%s#%d", o.Name(), idx))
			lp.pre[o.Name()] = sym
			se.env[o] = sval{kind: 'i', t: sym, typ: o.Type()}
		} else {
			se.env[o] = sval{kind: 'u'}
		}
	}
	if x.Cond != nil {
		lp.cond = se.condText(fi, x.Cond)
	}
	fl, _ := se.execBlock(fi, x.Body.List)
	if fl == flReturn || fl == flBreak {
		se.fail(x, "summarised loop body leaves the loop")
	}
	if x.Post != nil {
		se.execStmt(fi, x.Post)
	}
	for _, o := range objs {
		if v, ok := se.env[o]; ok && v.kind == 'i' {
			lp.post[o.Name()] = v.t
		}
	}
	se.loops = append(se.loops, lp)
	for _, o := range objs {
		if _, _, isInt := se.width(o.Type()); isInt {
			se.env[o] = sval{kind: 'i', t: se.newSym(fmt.Sprintf("%s@%d", o.Name(), idx)), typ: o.Type()}
		}
	}
	return flNormal, nil
}

// condText renders a symbolic comparison canonically.
func (se *symEval) condText(fi *FuncInfo, e ast.Expr) string {
	if b, ok := ast.Unparen(e).(*ast.BinaryExpr); ok {
		l, r := se.eval(fi, b.X), se.eval(fi, b.Y)
		if l.kind == 'i' && r.kind == 'i' {
			switch b.Op {
			case token.LSS:
				return l.t.String() + " < " + r.t.String()
			case token.GTR:
				return r.t.String() + " < " + l.t.String()
			case token.LEQ:
				return l.t.String() + " <= " + r.t.String()
			case token.GEQ:
				return r.t.String() + " <= " + l.t.String()
			case token.NEQ:
				return l.t.String() + " != " + r.t.String()
			}
		}
	}
	return "?" + exprStr(e)
}

func (se *symEval) eval(fi *FuncInfo, e ast.Expr) sval {
	info := fi.Pkg.TypesInfo
	e = ast.Unparen(e)
	if tv, ok := info.Types[e]; ok && tv.Value != nil {
		switch tv.Value.Kind() {
		case constant.Int:
			if v, ok := constant.Int64Val(tv.Value); ok {
				return se.intVal(tConst(uint64(v)), tv.Type)
			}
			if v, ok := constant.Uint64Val(tv.Value); ok {
				return se.intVal(tConst(v), tv.Type)
			}
		case constant.Bool:
			return sval{kind: 'b', b: constant.BoolVal(tv.Value), bk: true}
		}
	}
	if tv, ok := info.Types[e]; ok && tv.IsNil() {
		return sval{kind: 'n'}
	}
	switch x := e.(type) {
	case *ast.StarExpr:
		v := se.eval(fi, x.X)
		if v.kind == 'p' && v.arr != nil {
			return sval{kind: 'a', arr: v.arr, typ: info.TypeOf(x)}
		}
	case *ast.Ident:
		obj := info.Uses[x]
		if obj == nil {
			obj = info.Defs[x]
		}
		if v, ok := se.env[obj]; ok {
			return v
		}
		// a package-level array of integer constants that nothing writes: its value
		if tv, isVar := obj.(*types.Var); isVar && tv.Pkg() != nil && tv.Parent() == tv.Pkg().Scope() {
			if at, isArr := tv.Type().Underlying().(*types.Array); isArr && at.Len() <= 80 {
				if _, _, isInt := se.width(at.Elem()); isInt {
					if tab := se.constTable(tv); tab != nil {
						a := &arrVal{elemT: at.Elem()}
						for i := int64(0); i < at.Len(); i++ {
							a.elems = append(a.elems, se.intVal(tConst(tab[uint64(i)]), at.Elem()))
						}
						return sval{kind: 'a', arr: a, typ: tv.Type()}
					}
				}
			}
		}
		se.fail(x, "value of "+x.Name+" is not tracked")
		return sval{kind: 'u'}
	case *ast.BinaryExpr:
		switch x.Op {
		case token.LAND, token.LOR:
			l := se.eval(fi, x.X)
			if l.kind != 'b' || !l.bk {
				return sval{kind: 'b'}
			}
			if x.Op == token.LAND && !l.b || x.Op == token.LOR && l.b {
				return l
			}
			return se.eval(fi, x.Y)
		}
		l, r := se.eval(fi, x.X), se.eval(fi, x.Y)
		return se.binop(x, x.Op, l, r, info.TypeOf(x))
	case *ast.UnaryExpr:
		v := se.eval(fi, x.X)
		switch x.Op {
		case token.SUB:
			if v.kind == 'i' {
				return se.intVal(mk("neg", v.t), info.TypeOf(x))
			}
		case token.XOR:
			if v.kind == 'i' {
				return se.intVal(mk("not", v.t), info.TypeOf(x))
			}
		case token.NOT:
			if v.kind == 'b' && v.bk {
				return sval{kind: 'b', b: !v.b, bk: true}
			}
			return sval{kind: 'b'}
		case token.ADD:
			return v
		case token.AND:
			if v.kind == 'a' && v.arr != nil {
				return sval{kind: 'p', arr: v.arr, typ: info.TypeOf(x)}
			}
		}
	case *ast.CallExpr:
		if tv, ok := info.Types[x.Fun]; ok && tv.IsType() && len(x.Args) == 1 {
			return se.convert(se.eval(fi, x.Args[0]), tv.Type)
		}
		vals := se.call(fi, x)
		if len(vals) == 1 {
			return vals[0]
		}
		return sval{kind: 'u'}
	case *ast.IndexExpr:
		// a byte of a string (a digit table): an opaque value; only the index matters
		if bt, isB := info.TypeOf(x.X).Underlying().(*types.Basic); isB && bt.Info()&types.IsString != 0 {
			idx := se.eval(fi, x.Index)
			n := -1
			if tv, has := info.Types[x.X]; has && tv.Value != nil && tv.Value.Kind() == constant.String {
				n = len(constant.StringVal(tv.Value))
			}
			if se.onIndex != nil {
				se.onIndex(x, idx, n)
			}
			return sval{kind: 'i', t: se.newSym("strbyte"), typ: types.Typ[types.Uint8]}
		}
		if v, _, okT := se.constTableLookup(fi, x); okT {
			return v
		}
		base := se.eval(fi, x.X)
		idx := se.eval(fi, x.Index)
		if se.onIndex != nil {
			se.onIndex(x, idx, se.seqLen(base))
		}
		if base.arr != nil && idx.kind == 'i' && idx.t.isConst() {
			k := int(idx.t.k) + base.aoff
			if k >= 0 && k < len(base.arr.elems) {
				return base.arr.elems[k]
			}
		}
		if base.kind == 's' && base.arr == nil && idx.kind == 'i' {
			off := mk("add", base.off, se.toIndex(idx))
			return sval{kind: 'i', t: tSym("byte:" + base.base + "[" + off.String() + "]"), typ: info.TypeOf(x)}
		}
	case *ast.SliceExpr:
		base := se.eval(fi, x.X)
		if base.arr != nil && !x.Slice3 {
			lo := 0
			if x.Low != nil {
				lv := se.eval(fi, x.Low)
				if lv.kind != 'i' || !lv.t.isConst() {
					break
				}
				lo = int(lv.t.k)
			}
			return sval{kind: 's', arr: base.arr, aoff: base.aoff + lo, typ: info.TypeOf(x)}
		}
		if base.kind == 's' && !x.Slice3 {
			lo := tConst(0)
			if x.Low != nil {
				lv := se.eval(fi, x.Low)
				if lv.kind != 'i' {
					break
				}
				lo = se.toIndex(lv)
			}
			out := sval{kind: 's', base: base.base, off: mk("add", base.off, lo)}
			if x.High != nil {
				hv := se.eval(fi, x.High)
				if hv.kind == 'i' {
					out.slen = mk("sub", se.toIndex(hv), lo)
				}
			} else if base.slen != nil {
				out.slen = mk("sub", base.slen, lo)
			}
			return out
		}
	}
	se.fail(e, "expression "+exprStr(e)+" is not supported")
	return sval{kind: 'u'}
}

// toIndex widens an index / length value to the 64-bit index arithmetic of the term language.
func (se *symEval) toIndex(v sval) *term { return v.t }

func (se *symEval) convert(v sval, to types.Type) sval {
	if v.kind != 'i' {
		return v
	}
	tb, _, ok := se.width(to)
	if !ok {
		return sval{kind: 'u'}
	}
	fb, _, _ := se.width(v.typ)
	t := v.t
	if tb < fb && tb < 64 {
		// narrowing: keep the low bits, then re-extend per the target's signedness
		if t.isConst() {
			t = mkExt("trunc", tb, t)
		} else if (t.op == "sext" || t.op == "zext") && int(t.k) <= tb {
			// the value was extended from something at most as wide: truncation restores it
		} else {
			t = mkExt("trunc", tb, t)
		}
		return se.renorm(t, to)
	}
	// same width or widening: the stored (extended) form already carries the source's signedness
	return se.renorm(t, to)
}

// renorm: reinterpret the bits of a value of the same or a narrower width as type `to`.
func (se *symEval) renorm(t *term, to types.Type) sval {
	tb, uns, _ := se.width(to)
	if tb >= 64 {
		return sval{kind: 'i', t: t, typ: to}
	}
	if t.isConst() {
		return se.intVal(t, to)
	}
	switch t.op {
	case "sext", "zext":
		if int(t.k) < tb {
			return sval{kind: 'i', t: t, typ: to} // extension from a narrower width is unchanged by a wider reinterpretation
		}
		if int(t.k) == tb {
			if uns {
				return sval{kind: 'i', t: mkExt("zext", tb, t.args[0]), typ: to}
			}
			return sval{kind: 'i', t: mkExt("sext", tb, t.args[0]), typ: to}
		}
	case "trunc":
		if uns {
			return sval{kind: 'i', t: mkExt("zext", tb, t.args[0]), typ: to}
		}
		return sval{kind: 'i', t: mkExt("sext", tb, t.args[0]), typ: to}
	case "sym":
		if strings.HasPrefix(t.name, "byte:") && tb == 8 {
			if uns {
				return sval{kind: 'i', t: t, typ: to}
			}
			return sval{kind: 'i', t: mkExt("sext", 8, t), typ: to}
		}
		if strings.HasPrefix(t.name, "byte:") && tb > 8 {
			return sval{kind: 'i', t: t, typ: to} // an unsigned byte widened
		}
	}
	if uns {
		return sval{kind: 'i', t: mkExt("zext", tb, t), typ: to}
	}
	return sval{kind: 'i', t: mkExt("sext", tb, t), typ: to}
}

func (se *symEval) binop(n ast.Node, op token.Token, l, r sval, resT types.Type) sval {
	switch op {
	case token.EQL, token.NEQ, token.LSS, token.LEQ, token.GTR, token.GEQ:
		if l.kind == 'n' && r.kind == 'n' {
			return sval{kind: 'b', b: op == token.EQL, bk: true}
		}
		if l.kind == 'i' && r.kind == 'i' && l.t.isConst() && r.t.isConst() {
			_, uns, _ := se.width(l.typ)
			var res bool
			a, b := l.t.k, r.t.k
			if uns {
				res = map[token.Token]bool{token.EQL: a == b, token.NEQ: a != b, token.LSS: a < b, token.LEQ: a <= b, token.GTR: a > b, token.GEQ: a >= b}[op]
			} else {
				x, y := int64(a), int64(b)
				res = map[token.Token]bool{token.EQL: x == y, token.NEQ: x != y, token.LSS: x < y, token.LEQ: x <= y, token.GTR: x > y, token.GEQ: x >= y}[op]
			}
			return sval{kind: 'b', b: res, bk: true}
		}
		return sval{kind: 'b'}
	}
	if l.kind != 'i' || r.kind != 'i' {
		se.fail(n, "operand of "+op.String()+" is not an integer of the abstract state")
		return sval{kind: 'u'}
	}
	if resT == nil {
		resT = l.typ
	}
	// shifts take the type of the left operand
	var t *term
	switch op {
	case token.ADD:
		t = mk("add", l.t, r.t)
	case token.SUB:
		t = mk("sub", l.t, r.t)
	case token.MUL:
		t = mk("mul", l.t, r.t)
	case token.XOR:
		t = mk("xor", l.t, r.t)
	case token.OR:
		t = mk("or", l.t, r.t)
	case token.AND:
		// sym & mask with a declared residue
		for _, pr := range [][2]*term{{l.t, r.t}, {r.t, l.t}} {
			sy := pr[0]
			// an extension of a narrower symbol (an int on a 32-bit target) keeps the bits below its width
			if (sy.op == "sext" || sy.op == "zext") && len(sy.args) == 1 && sy.args[0].op == "sym" && pr[1].isConst() && sy.k < 64 && pr[1].k < uint64(1)<<uint(sy.k-1) {
				sy = sy.args[0]
			}
			if sy.op == "sym" && pr[1].isConst() {
				if m, ok := se.attrs[sy.name]; ok {
					if v, ok := m[pr[1].k]; ok {
						return se.intVal(tConst(v), resT)
					}
				}
			}
		}
		t = mk("and", l.t, r.t)
	case token.AND_NOT:
		t = mk("and", l.t, mk("not", r.t))
	case token.SHL:
		t = mk("shl", l.t, r.t)
	case token.SHR:
		_, uns, _ := se.width(l.typ)
		// the high bits of a symbol whose masked value is declared: sym >> k with sym & (ones<<k) known
		if wb, _, okW := se.width(l.typ); okW && uns && l.t.op == "sym" && r.t.isConst() && r.t.k < uint64(wb) && wb <= 16 {
			if m, ok := se.attrs[l.t.name]; ok {
				mask := ((uint64(1) << uint(wb)) - 1) &^ ((uint64(1) << r.t.k) - 1)
				if v, ok := m[mask]; ok {
					return se.intVal(tConst(v>>r.t.k), resT)
				}
			}
		}
		if uns {
			t = mk("lshr", l.t, r.t)
		} else {
			t = mk("ashr", l.t, r.t)
		}
	case token.QUO, token.REM:
		if op == token.REM && l.t.op == "sym" && r.t.isConst() && r.t.k&(r.t.k-1) == 0 && r.t.k > 0 {
			// a declared residue of a non-negative symbol
			if m, ok := se.attrs[l.t.name]; ok {
				if v, ok := m[r.t.k-1]; ok {
					return se.intVal(tConst(v), resT)
				}
			}
		}
		name := map[token.Token]string{token.QUO: "div", token.REM: "rem"}[op]
		if l.t.isConst() && r.t.isConst() && r.t.k != 0 {
			_, uns, _ := se.width(l.typ)
			if uns {
				if op == token.QUO {
					t = tConst(l.t.k / r.t.k)
				} else {
					t = tConst(l.t.k % r.t.k)
				}
			} else {
				if op == token.QUO {
					t = tConst(uint64(int64(l.t.k) / int64(r.t.k)))
				} else {
					t = tConst(uint64(int64(l.t.k) % int64(r.t.k)))
				}
			}
		} else {
			_, uns, _ := se.width(l.typ)
			if !uns {
				name = "s" + name
			}
			t = &term{op: name, args: []*term{l.t, r.t}}
		}
	default:
		se.fail(n, "operator "+op.String())
		return sval{kind: 'u'}
	}
	bits, _, _ := se.width(resT)
	if bits < 64 && !t.isConst() {
		// wrap-around of a narrow symbolic result
		t = mkExt("trunc", bits, t)
		return se.renorm(t, resT)
	}
	return se.intVal(t, resT)
}

// call evaluates a call: builtins, math/bits rotations, opaque (uninterpreted) callees, inlined helpers.
func (se *symEval) call(fi *FuncInfo, c *ast.CallExpr) []sval {
	info := fi.Pkg.TypesInfo
	name := calleeName(info, c)
	switch name {
	case "builtin.make":
		// make([]T, n) with n a small constant of this evaluation and T an integer type: a tracked zeroed buffer
		if len(c.Args) >= 2 {
			if sl, isSl := info.TypeOf(c).Underlying().(*types.Slice); isSl {
				if _, _, isInt := se.width(sl.Elem()); isInt {
					if nv := se.eval(fi, c.Args[1]); nv.kind == 'i' && nv.t.isConst() && nv.t.k <= 4096 {
						a := &arrVal{elemT: sl.Elem()}
						for i := uint64(0); i < nv.t.k; i++ {
							a.elems = append(a.elems, se.intVal(tConst(0), sl.Elem()))
						}
						return []sval{{kind: 's', arr: a, typ: info.TypeOf(c)}}
					}
				}
			}
		}
	case "builtin.len":
		v := se.eval(fi, c.Args[0])
		if v.arr != nil {
			return []sval{{kind: 'i', t: tConst(uint64(len(v.arr.elems) - v.aoff)), typ: types.Typ[types.Int]}}
		}
		if v.kind == 's' && v.slen != nil {
			return []sval{{kind: 'i', t: se.residue(v.slen), typ: types.Typ[types.Int]}}
		}
		se.fail(c, "len of an untracked value")
		return []sval{{kind: 'u'}}
	case "math/bits.RotateLeft64", "bits.RotateLeft64":
		x, k := se.eval(fi, c.Args[0]), se.eval(fi, c.Args[1])
		if x.kind == 'i' && k.kind == 'i' && k.t.isConst() {
			n := int64(k.t.k)
			return []sval{{kind: 'i', t: mk("rotl", x.t, tConst(uint64((n%64+64)%64))), typ: types.Typ[types.Uint64]}}
		}
	}
	// encoding/binary on (slices of) tracked arrays
	if strings.HasPrefix(name, "binary.(bigEndian).") || strings.HasPrefix(name, "binary.(littleEndian).") {
		be := strings.HasPrefix(name, "binary.(bigEndian).")
		meth := name[strings.LastIndex(name, ".")+1:]
		width := map[string]int{"PutUint16": 2, "PutUint32": 4, "PutUint64": 8, "Uint16": 2, "Uint32": 4, "Uint64": 8}[meth]
		if width > 0 && len(c.Args) >= 1 {
			buf := se.eval(fi, c.Args[0])
			if buf.arr != nil && buf.aoff+width <= len(buf.arr.elems) {
				if strings.HasPrefix(meth, "Put") && len(c.Args) == 2 {
					v := se.eval(fi, c.Args[1])
					if v.kind == 'i' {
						for k := 0; k < width; k++ {
							sh := 8 * k
							if be {
								sh = 8 * (width - 1 - k)
							}
							b := mkExt("zext", 8, mkExt("trunc", 8, mk("lshr", v.t, tConst(uint64(sh)))))
							if sh == 0 {
								b = mkExt("zext", 8, mkExt("trunc", 8, v.t))
							}
							buf.arr.elems[buf.aoff+k] = sval{kind: 'i', t: b, typ: buf.arr.elemT}
						}
						return nil
					}
				} else if !strings.HasPrefix(meth, "Put") {
					acc := tConst(0)
					for k := 0; k < width; k++ {
						sh := 8 * k
						if be {
							sh = 8 * (width - 1 - k)
						}
						e := buf.arr.elems[buf.aoff+k]
						if e.kind != 'i' {
							se.fail(c, "element of the buffer is not an integer")
							return []sval{{kind: 'u'}}
						}
						acc = mk("or", acc, mk("shl", e.t, tConst(uint64(sh))))
					}
					rt := map[int]types.Type{2: types.Typ[types.Uint16], 4: types.Typ[types.Uint32], 8: types.Typ[types.Uint64]}[width]
					return []sval{{kind: 'i', t: acc, typ: rt}}
				}
			}
		}
	}
	if name == "builtin.append" && len(c.Args) >= 1 {
		base := se.eval(fi, c.Args[0])
		if base.kind == 's' || base.kind == 'n' {
			out := sval{kind: 's', base: base.base, off: base.off, slen: nil, typ: base.typ}
			out.tail = append(out.tail, base.tail...)
			if base.arr != nil {
				// appending to a slice of a tracked array: keep what it holds as the prefix
				for k := base.aoff; k < len(base.arr.elems); k++ {
					out.tail = append(out.tail, base.arr.elems[k])
				}
			}
			okAll := true
			for i, a := range c.Args[1:] {
				v := se.eval(fi, a)
				if c.Ellipsis.IsValid() && i == len(c.Args)-2 {
					switch {
					case v.arr != nil:
						for k := v.aoff; k < len(v.arr.elems); k++ {
							out.tail = append(out.tail, v.arr.elems[k])
						}
					case v.kind == 's' && len(v.tail) > 0 && v.base == "":
						out.tail = append(out.tail, v.tail...)
					default:
						okAll = false
					}
					continue
				}
				if v.kind != 'i' {
					okAll = false
					continue
				}
				et := types.Type(types.Typ[types.Uint8])
				if t := info.TypeOf(c); t != nil {
					if sl, isSl := t.Underlying().(*types.Slice); isSl {
						et = sl.Elem()
					}
				}
				out.tail = append(out.tail, se.intVal(v.t, et))
			}
			if okAll {
				return []sval{out}
			}
			se.fail(c, "append of elements that are not tracked")
			return []sval{{kind: 'u'}}
		}
	}
	if name == "builtin.copy" && len(c.Args) == 2 {
		dst := se.eval(fi, c.Args[0])
		if dst.kind == 's' && dst.arr != nil {
			// an unknown number of elements is overwritten with unknown bytes
			for k := dst.aoff; k < len(dst.arr.elems); k++ {
				dst.arr.elems[k] = sval{kind: 'i', t: tSym(fmt.Sprintf("byte:copy@%d[%d]", se.p.Fset.Position(c.Pos()).Line, k)), typ: dst.arr.elemT}
			}
			return []sval{{kind: 'i', t: se.newSym(fmt.Sprintf("copied@%d", se.p.Fset.Position(c.Pos()).Line)), typ: types.Typ[types.Int]}}
		}
	}
	fn := calleeOf(info, c)
	var callee *FuncInfo
	if fn != nil {
		callee = se.p.FuncOf(fn)
	}
	var args []sval
	for _, a := range c.Args {
		before := len(se.unsup)
		v := se.eval(fi, a)
		if se.opaque[name] && len(se.unsup) > before {
			// what an uninterpreted function is given need not be understood
			se.unsup = se.unsup[:before]
			v = sval{kind: 'u'}
		}
		args = append(args, v)
	}
	if se.opaque[name] && fn != nil {
		sig := fn.Type().(*types.Signature)
		// buffers handed to an uninterpreted function hold unknown bytes afterwards
		for _, a := range args {
			if (a.kind == 's' || a.kind == 'p') && a.arr != nil {
				for k := a.aoff; k < len(a.arr.elems); k++ {
					a.arr.elems[k] = sval{kind: 'i', t: tSym(fmt.Sprintf("byte:%s[%d]", name, k)), typ: a.arr.elemT}
				}
			}
		}
		if se.errNil {
			var out []sval
			for i := 0; i < sig.Results().Len(); i++ {
				rt := sig.Results().At(i).Type()
				if isErrorType(rt) {
					out = append(out, sval{kind: 'n'})
				} else if _, _, isInt := se.width(rt); isInt {
					out = append(out, sval{kind: 'i', t: tSym(fmt.Sprintf("%s.%d", name, i)), typ: rt})
				} else {
					out = append(out, sval{kind: 'u'})
				}
			}
			return out
		}
		var at []string
		for _, a := range args {
			switch a.kind {
			case 'i':
				at = append(at, a.t.String())
			case 's':
				at = append(at, a.base+"+"+a.off.String())
			default:
				at = append(at, "?")
			}
		}
		var out []sval
		for i := 0; i < sig.Results().Len(); i++ {
			out = append(out, sval{kind: 'i', t: tSym(fmt.Sprintf("%s.%d(%s)", name, i, strings.Join(at, ","))), typ: sig.Results().At(i).Type()})
		}
		return out
	}
	if callee == nil || callee.Decl.Body == nil {
		se.fail(c, "call of "+name+" cannot be followed")
		return []sval{{kind: 'u'}}
	}
	// method receivers
	if callee.Decl.Recv != nil && len(callee.Decl.Recv.List) == 1 && len(callee.Decl.Recv.List[0].Names) == 1 {
		if rx := recvExpr(c); rx != nil {
			rv := se.eval(fi, rx)
			robj := callee.Pkg.TypesInfo.Defs[callee.Decl.Recv.List[0].Names[0]]
			if robj != nil {
				_, ptrRecv := robj.Type().Underlying().(*types.Pointer)
				switch {
				case rv.kind == 'a' && ptrRecv:
					rv = sval{kind: 'p', arr: rv.arr, typ: robj.Type()}
				case rv.kind == 'a' && rv.arr != nil:
					rv.arr = rv.arr.clone()
				case rv.kind == 'p' && !ptrRecv && rv.arr != nil:
					rv = sval{kind: 'a', arr: rv.arr.clone(), typ: robj.Type()}
				}
				se.env[robj] = rv
			}
		}
	}
	for i := range args {
		if args[i].kind == 'a' && args[i].arr != nil {
			args[i].arr = args[i].arr.clone()
		}
	}
	vals, ok := se.evalFunc(callee, args)
	if !ok {
		se.fail(c, "helper "+name+" could not be interpreted")
		return []sval{{kind: 'u'}}
	}
	// results take the declared result types
	sig := callee.Obj.Type().(*types.Signature)
	for i := range vals {
		if i < sig.Results().Len() && vals[i].kind == 'i' {
			vals[i] = se.convertResult(vals[i], sig.Results().At(i).Type())
		}
	}
	return vals
}

func (se *symEval) convertResult(v sval, t types.Type) sval {
	if types.Identical(v.typ, t) {
		return v
	}
	return se.convert(v, t)
}

// residue rewrites  S - (S/c)*c  (S a non-negative symbol with a declared residue, c a power of two) to S & (c-1).
func (se *symEval) residue(t *term) *term {
	if t.op != "add" {
		return t
	}
	for i, a := range t.args {
		if a.op != "sym" {
			continue
		}
		m, ok := se.attrs[a.name]
		if !ok {
			continue
		}
		for j, b := range t.args {
			if j == i || b.op != "mul" || len(b.args) != 2 || !b.args[1].isConst() {
				continue
			}
			d := b.args[0]
			c := -b.args[1].k
			if d.op == "sdiv" && d.args[0].String() == a.String() && d.args[1].isConst() && d.args[1].k == c && c&(c-1) == 0 {
				if v, ok := m[c-1]; ok {
					rest := []*term{tConst(v)}
					for k2, x := range t.args {
						if k2 != i && k2 != j {
							rest = append(rest, x)
						}
					}
					return mk("add", rest...)
				}
			}
		}
	}
	return t
}

// ---------------------------------------------------------------------------
// Bit provenance of a term: for every bit of the 64-bit value, a constant, a bit of a symbol, or unknown.

type pbit struct {
	kind byte // '0', '1', 's' (bit of a symbol), '?'
	sym  string
	bit  int
}

func provenance(t *term) [64]pbit {
	var out [64]pbit
	unknown := func() [64]pbit {
		var u [64]pbit
		for i := range u {
			u[i] = pbit{kind: '?'}
		}
		return u
	}
	switch t.op {
	case "const":
		for i := 0; i < 64; i++ {
			if t.k>>uint(i)&1 == 1 {
				out[i] = pbit{kind: '1'}
			} else {
				out[i] = pbit{kind: '0'}
			}
		}
		return out
	case "sym":
		w := 64
		if strings.HasPrefix(t.name, "byte:") {
			w = 8
		}
		for i := 0; i < 64; i++ {
			if i < w {
				out[i] = pbit{kind: 's', sym: t.name, bit: i}
			} else {
				out[i] = pbit{kind: '0'}
			}
		}
		return out
	case "zext", "trunc":
		in := provenance(t.args[0])
		for i := 0; i < 64; i++ {
			if i < int(t.k) {
				out[i] = in[i]
			} else {
				out[i] = pbit{kind: '0'}
			}
		}
		return out
	case "sext":
		in := provenance(t.args[0])
		for i := 0; i < 64; i++ {
			if i < int(t.k) {
				out[i] = in[i]
			} else {
				out[i] = in[int(t.k)-1]
			}
		}
		return out
	case "shl", "lshr", "ashr":
		if !t.args[1].isConst() {
			return unknown()
		}
		n := int(t.args[1].k)
		in := provenance(t.args[0])
		for i := 0; i < 64; i++ {
			switch t.op {
			case "shl":
				if i-n >= 0 {
					out[i] = in[i-n]
				} else {
					out[i] = pbit{kind: '0'}
				}
			case "lshr":
				if i+n < 64 {
					out[i] = in[i+n]
				} else {
					out[i] = pbit{kind: '0'}
				}
			case "ashr":
				if i+n < 64 {
					out[i] = in[i+n]
				} else {
					out[i] = in[63]
				}
			}
		}
		return out
	case "and", "or", "xor", "add":
		acc := provenance(t.args[0])
		for _, a := range t.args[1:] {
			b := provenance(a)
			carry := false
			for i := 0; i < 64; i++ {
				x, y := acc[i], b[i]
				switch t.op {
				case "and":
					switch {
					case x.kind == '0' || y.kind == '0':
						acc[i] = pbit{kind: '0'}
					case x.kind == '1':
						acc[i] = y
					case y.kind == '1':
						acc[i] = x
					default:
						acc[i] = pbit{kind: '?'}
					}
				case "or":
					switch {
					case x.kind == '1' || y.kind == '1':
						acc[i] = pbit{kind: '1'}
					case x.kind == '0':
						acc[i] = y
					case y.kind == '0':
						acc[i] = x
					default:
						acc[i] = pbit{kind: '?'}
					}
				case "xor":
					switch {
					case x.kind == '0':
						acc[i] = y
					case y.kind == '0':
						acc[i] = x
					case x.kind == '1' && y.kind == '1':
						acc[i] = pbit{kind: '0'}
					default:
						acc[i] = pbit{kind: '?'}
					}
				case "add":
					// without a possible carry into this position, adding a known-zero bit keeps the other bit
					switch {
					case carry:
						acc[i] = pbit{kind: '?'}
					case x.kind == '0':
						acc[i] = y
					case y.kind == '0':
						acc[i] = x
					default:
						acc[i] = pbit{kind: '?'}
						carry = true
					}
				}
			}
		}
		return acc
	}
	return unknown()
}

// evalConstExpr folds an expression of fi to a constant through pure helpers of the module (index / shift helper
// functions): no variables of fi are known, so only expressions over constants succeed.
func (p *Program) evalConstExpr(fi *FuncInfo, e ast.Expr) (uint64, bool) {
	se := newSymEval(p)
	v := se.eval(fi, e)
	if len(se.unsup) > 0 || v.kind != 'i' || !v.t.isConst() {
		return 0, false
	}
	return v.t.k, true
}
