#!/bin/bash
# usage: seedmatrix.sh [seed-dir...]  — runs every registered check (quick tier) against a scratch copy of /repo
# with each seeded change applied; writes seeded/matrix.json {seed: {property: [rule ids that reported VIOLATION]}}.
cd /verif
seeds=("$@"); [ ${#seeds[@]} -eq 0 ] && seeds=(seeded/C*-*)
props=$(python3 -c "import json;print(' '.join(c['property_id'] for c in json.load(open('checks.json'))['checks']))")
one() {
  s=$1; D=$(mktemp -d /tmp/seedmx.XXXXXX)
  rsync -a --exclude .git /repo/ $D/repo/
  (cd $D/repo && patch -p1 -s < /verif/$s/patch.diff) || { echo "$s PATCHFAIL"; rm -rf $D; return; }
  for p in $props; do
    out=$(/verif/bin/gocqlverif check -property $p -repo $D/repo -no-evidence 2>&1)
    rules=$(echo "$out" | grep -oE "^  [^ ]+: C[0-9]+\.R[0-9a-z]+" | awk '{print $2}' | sort -u | paste -sd,)
    unres=$(echo "$out" | grep -c "^UNRESOLVED")
    echo "$(basename $s) $p ${rules:--} unresolved=$unres"
  done
  rm -rf $D
}
export -f one; export props
printf "%s\n" "${seeds[@]}" | xargs -P 8 -I{} bash -c 'one {}' > /tmp/seedmatrix.out
python3 - <<'P'
import json,collections
m=collections.defaultdict(dict)
for l in open('/tmp/seedmatrix.out'):
    f=l.split()
    if len(f)<4: print("??",l); continue
    seed,prop,rules,unres=f
    if rules!='-' or unres!='unresolved=0':
        m[seed][prop]={'rules':[] if rules=='-' else rules.split(','),'unresolved':int(unres.split('=')[1])}
    else:
        m[seed].setdefault('_clean',[]).append(prop)
json.dump(m,open('/verif/seeded/matrix.json','w'),indent=1,sort_keys=True)
for seed in sorted(m):
    own=seed.split('-')[0]
    det={p:v['rules'] for p,v in m[seed].items() if p!='_clean' and v['rules']}
    print(seed, 'OWN' if own in det else 'other' if det else 'MISSED', det)
P
rm -f /tmp/seedmatrix.out
