#!/bin/bash
# usage: refrun.sh <dir with patch.diff>...  — applies a behaviour-preserving refactoring to a scratch copy of /repo and
# runs every registered check on it; prints every VIOLATION / UNRESOLVED (there should be none).
cd /verif
props=$(python3 -c "import json;print(' '.join(c['property_id'] for c in json.load(open('checks.json'))['checks']))")
one() {
  d=$1; D=$(mktemp -d /tmp/refrun.XXXXXX)
  rsync -a --exclude .git /repo/ $D/repo/
  (cd $D/repo && patch -p1 -s < $d/patch.diff) || { echo "$d PATCHFAIL"; rm -rf $D; return; }
  out=""
  for p in $props; do
    o=$(/verif/bin/gocqlverif check -property $p -repo $D/repo -no-evidence 2>&1 | grep -E "^  [^ ]+: C[0-9]+\.R|^UNRESOLVED" | sed "s#$D/repo/##g" | cut -c1-330)
    [ -n "$o" ] && out="$out$o"$'\n'
  done
  mkdir -p /tmp/refrun
  if [ -z "$out" ]; then echo "$(basename $d): silent" | tee /tmp/refrun/$(basename $d).out; else { echo "$(basename $d): ALARMS"; echo "$out" | sed 's/^/    /'; } > /tmp/refrun/$(basename $d).out; echo "$(basename $d): ALARMS (see /tmp/refrun/$(basename $d).out)"; fi
  rm -rf $D
}
export -f one; export props
printf "%s\n" "$@" | xargs -P 6 -I{} bash -c 'one {}'
