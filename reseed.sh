#!/bin/bash
# usage: reseed.sh <refactor-id>...  — applies each seed of the refactoring's property ON TOP of the refactored tree
# (where the seed's patch still applies) and runs the property's check: a generalised rule must still report it.
for r in "$@"; do
  pr=${r%%-*}
  base=$(mktemp -d /tmp/reseed.XXXXXX)
  rsync -a --exclude .git /repo/ $base/repo/
  (cd $base/repo && patch -p1 -s < /verif/refactors/$r/patch.diff) || { echo "$r PATCHFAIL"; rm -rf $base; continue; }
  for s in /verif/seeded/$pr-*; do
    sid=$(basename $s)
    if (cd $base/repo && patch -p1 -s --dry-run < $s/patch.diff > /dev/null 2>&1); then
      w=$(mktemp -d /tmp/reseed.XXXXXX)
      rsync -a $base/repo/ $w/repo/
      (cd $w/repo && patch -p1 -s < $s/patch.diff)
      if (cd $w/repo && GOFLAGS=-mod=mod GOPROXY=off GOSUMDB=off GOTOOLCHAIN=local go build ./... > /dev/null 2>&1); then
        out=$(/verif/bin/gocqlverif check -property $pr -repo $w/repo -no-evidence 2>&1)
        nv=$(echo "$out" | grep -c "^VIOLATION"); nu=$(echo "$out" | grep -c "^UNRESOLVED")
        echo "$r + $sid: violations=$nv unresolved=$nu"
      else
        echo "$r + $sid: does not build"
      fi
      rm -rf $w
    fi
  done
  rm -rf $base
done
