#!/bin/bash
# usage: seed2ingest.sh Cxx...  — verify round-2 seeds (c,d) of the given properties and run the property's own check on each
cd /verif
for id in "$@"; do for v in c d; do
  [ -f /tmp/seeds2/$id/$v/patch.diff ] || [ -f seeded/$id-$v/patch.diff ] || { echo "$id/$v: missing"; continue; }
  ./seedverify.sh $id $v | head -12
  [ -f seeded/$id-$v/patch.diff ] && ./seedrun.sh /verif/seeded/$id-$v/patch.diff $id 2>&1 | grep -E "^  |tier=|UNRES" | cut -c1-400
done; done
