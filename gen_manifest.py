#!/usr/bin/env python3
"""Regenerates MANIFEST.json from checks.json (the per-property registrations kept by hand)."""
import json, sys
spec = json.load(open('/verif/checks.json'))
props = [json.loads(l) for l in open('/verif/properties.jsonl')]
ids = [p['id'] for p in props]
checks = []
claimed = set()
for c in spec['checks']:
    pid = c['property_id']
    claimed.add(pid)
    checks.append({
        "property_id": pid,
        "quick_cmd": f"./bin/gocqlverif check -property {pid} -tier quick",
        "thorough_cmd": f"./bin/gocqlverif check -property {pid} -tier thorough",
        "evidence_file": f"/verif/evidence/{pid}.json",
        "replay_cmd_template": "./bin/gocqlverif explain {path}",
        "engine": "gocqlverif",
        "level_claimed": {"category": "other", "text": c['text'], "design_ref": c.get('design_ref', 'DESIGN.md section 4 ' + pid)},
        "level_note": c['note'],
        "technique": c['technique'],
    })
na = []
for pid in ids:
    if pid not in claimed:
        na.append({"property_id": pid, "reason": spec['not_applicable'].get(pid, "no check registered yet in this commit: the static rules for this property (DESIGN.md section 4) are not built; nothing is claimed")})
man = {
    "version": 1,
    "setup_cmd": "cd checker && GOFLAGS=-mod=mod GOPROXY=off GOSUMDB=off GOTOOLCHAIN=local GOWORK=off go build -o ../bin/gocqlverif .",
    "hooks": {
        "guard": "verif",
        "enable": "none needed: static analysis reads /repo's working tree; build tag 'verif' is declared but guards no code",
        "baseline_off_cmd": "cd /repo && GOFLAGS=-mod=mod go test -vet=off -count=1 ./... && cd lz4 && GOFLAGS=-mod=mod go test -vet=off -count=1 ./...",
        "source_commits": [],
        "add_only": True,
    },
    "engines": [{
        "name": "gocqlverif",
        "path": "/verif/checker",
        "serves_properties": sorted(claimed),
        "kind_free_text": "repository-specific static analyser (go/packages + go/types + go/cfg dataflow + go/ssa; golang.org/x/tools v0.29.0): typestate/must-pass-through, lockset, guard-fact, who-may-call, table-agreement and bounds-obligation rules; never executes gocql",
    }],
    "checks": checks,
    "notes": spec['notes'],
    "not_applicable": na,
}
json.dump(man, open('/verif/MANIFEST.json', 'w'), indent=1)
print("checks:", len(checks), "not_applicable:", len(na))
