#!/bin/bash
# runs every property check (no evidence) on /repo (or $1) and prints the summary lines; TIER=thorough for the deep tier
cd /verif
for i in $(seq -w 1 20); do echo C$i; done | xargs -P 8 -I{} sh -c "./bin/gocqlverif check -property {} ${1:+-repo $1} ${TIER:+-tier $TIER} -no-evidence 2>&1 | grep -E '^(C[0-9]+ tier|VIOLATION|UNRESOLVED|  [^ ]+: C)' | cut -c1-260" | sort
