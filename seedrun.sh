#!/bin/sh
# usage: seedrun.sh <patch.diff> <property>...   — runs checks against a scratch copy of /repo with the patch applied
set -e
P="$1"; shift
D=$(mktemp -d /tmp/seedrun.XXXXXX)
rsync -a --exclude .git --exclude _seed /repo/ "$D/repo/"
(cd "$D/repo" && patch -p1 -s < "$P") || { echo "PATCH FAILED"; rm -rf "$D"; exit 3; }
rc=0
for id in "$@"; do
  /verif/bin/gocqlverif check -property "$id" -repo "$D/repo" -no-evidence ${TIER:+-tier $TIER} | grep -v "^note:" | sed "s#$D/repo/##g" || true
done
rm -rf "$D"
